"""C14 — clip segmentation tiles the clip on the hop lattice."""
from props.common import new_verifier, with_models

CL = "Obj:soundevent.data.clips.Clip"


def run(s):
    v = with_models(new_verifier())
    s.ver = v
    v.load_contracts("contracts.segment")
    s.attempt("segment_clip", lambda: v.verify("SegmentClip", "C14"))
    v.use("SegmentClip")
    L = lambda name, types, **kw: s.attempt(name, lambda: v.lemma(name, "contracts.segment", name, types, "C14", **kw))
    L("lemma_full_length_unless_truncated", dict(clip=CL, duration="float", hop="Optional[float]", include_incomplete="bool", k="int"))
    L("lemma_cover_when_hop_le_duration", dict(clip=CL, duration="float", hop="Optional[float]", t="float"))
    L("lemma_ids_distinct", dict(clip=CL, duration="float", hop="Optional[float]", include_incomplete="bool", i="int", j="int"))
    L("canary_never_yields", dict(clip=CL, duration="float"), expect="sat")
    s.min_obligations = 8
    s.discharge_all()
    s.triage()
    s.standin("segment_lattice")
