"""C01 — AOEF save/load round trip is lossless for every collection type."""
from props.common import new_verifier, with_models, task
from props.aoef_common import install_pathlib
from props.aoef_rt import install_adapter_contracts, roundtrip_obligations, collection_roundtrip, ADAPTER_OF


def setup():
    v = with_models(new_verifier())
    install_pathlib(v)
    v.inline |= {"soundevent.data.compat.key_from_term", "soundevent.data.compat.term_from_key"}
    install_adapter_contracts(v, None)
    return v


def run(s):
    v = setup()
    s.ver = v
    tasks = []
    for dcls, acls in ADAPTER_OF.items():
        tasks.append(task(v, f"roundtrip[{acls.rsplit('.', 1)[1]}]", lambda acls=acls: roundtrip_obligations(v, acls)[0]))
    from props.aoef_flow import collection_obligations
    from props.aoef_common import COLLECTIONS
    for tname, dcls, acls in COLLECTIONS:
        tasks.append(task(v, f"collection[{tname}]", lambda tname=tname, dcls=dcls, acls=acls: collection_obligations(v, tname, dcls, acls)))
        tasks.append(task(v, f"own-fields[{tname}]", lambda tname=tname, dcls=dcls, acls=acls: collection_roundtrip(v, tname, dcls, acls)))
    s.attempt_all(tasks)
    s.attempt("tables", lambda: tables(s, v))
    s.min_obligations = 50
    s.discharge_all()
    s.triage()
    s.standin("aoef_roundtrip")
    from props.C02 import finish
    finish(s)


def tables(s, v):
    """dispatch and base-class order facts read from the ASTs"""
    import ast
    from pyvc.symex import Exec
    from pyvc.values import Lst, Tup, Str, Fn
    from props.aoef_common import COLLECTIONS
    m = v.repo.module("soundevent.io.aoef")
    ex = Exec(v.repo, m, v.handlers, v.inline, "R", False)
    table = ex.global_name("ADAPTERS", None)
    rows = [(r.items[0].c, r.items[1].data, r.items[2].data) for r in table.items] if isinstance(table, Lst) and table.concrete else []
    s.table("ADAPTERS-has-eight-rows", len(rows) == 8, str([r[0] for r in rows]))
    want = {t: (d, a) for t, d, a in COLLECTIONS}
    for k, (tname, dcls, acls) in enumerate(rows):
        # to_aeof picks the FIRST row whose data class the object is an instance of: no earlier row may be a superclass
        mro = [q for _, _, q in v.repo.mro(dcls)]
        earlier = [r for r in rows[:k] if r[1] in mro]
        s.table(f"dispatch[{tname}]-first-isinstance-match-is-own-row", not earlier and want.get(tname) == (dcls, acls),
                f"{tname}: earlier superclass rows {[r[0] for r in earlier]}")
        # the adapter's AOEF class declares collection_type == tname, so load dispatches back to the same adapter
        found = v.repo.find_method(acls, "to_aoef")
        ocls = v.repo.resolve(v.repo.qualify(found[0], found[1].returns))[3]
        ct = {f["name"]: f for f in v.repo.class_fields(ocls)}["collection_type"]["default"]
        s.table(f"collection_type[{tname}]", isinstance(ct, ast.Constant) and ct.value == tname, f"{ocls}: {ast.unparse(ct) if ct is not None else None}")
    # (DataAdapter.to_aoef assembles -- hence converts an object's dependencies -- before it stores the object: a semantic side
    #  obligation of the base-class verification in props/adapters_base.py, `object-not-stored-before-it-is-assembled`; it replaced
    #  a syntactic statement-order table that raised a false alarm on a one-statement refactoring)
    # (that SequenceAdapter converts a parent through its own to_aoef is carried by roundtrip[SequenceAdapter]: a parent written
    #  without registration fails the `load-raises` obligation; a syntactic check of the call text was removed as brittle)
    return []
