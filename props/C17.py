"""C17 — cropping and extending keep data on its coordinates and hit the requested size."""
import z3

from props.common import new_verifier, with_models, task
from props.C16 import setup as setup16, arr_fixed
from pyvc.values import Str, Num, NONE


def setup():
    v = setup16()
    v.inline |= {"soundevent.arrays.operations." + f for f in ("crop_dim_width", "extend_dim_width")}
    return v


def run(s):
    v = setup()
    s.ver = v
    T = Str("time")
    STEP = Num(z3.Real("axis_step"))
    tasks = []
    for pos in ("start", "center", "end", "middle"):
        P = Str(pos)
        tasks.append(task(v, f"crop_dim_width[{pos}]", lambda P=P, pos=pos: v.verify("CropDimWidth", "C17", fixed={"array": arr_fixed(), "dim": T, "position": P}, tag=f"[{pos}]")))
        tasks.append(task(v, f"extend_dim_width[{pos}]", lambda P=P, pos=pos: v.verify("ExtendDimWidth", "C17", fixed={"array": arr_fixed(with_step=STEP), "dim": T, "position": P}, tag=f"[{pos}]",
                                                                                    extra_pre=lambda vals: STEP.t > 0)))
        tasks.append(task(v, f"adjust_dim_width[{pos}]", lambda P=P, pos=pos: v.verify("AdjustDimWidth", "C17", fixed={"array": arr_fixed(with_step=STEP), "dim": T, "position": P}, tag=f"[{pos}]",
                                                                                    extra_pre=lambda vals: STEP.t > 0)))
    tasks.append(task(v, "crop_dim", lambda: v.verify("CropDim", "C17", fixed={"arr": arr_fixed(), "dim": T})))
    s.attempt_all(tasks)
    s.min_obligations = 20
    s.discharge_all()
    s.triage()
    s.standin("crop_extend")
    s.trusted |= {"xarray sel / reindex, numpy arange / concatenate, pandas index contracts (pyvc/array_model.py), floats read as reals (mode R)",
                  "extend_dim and the double-precision behaviour of the interval functions: bounded stand-in crop_extend only",
                  "crop_dim precondition: no coordinate strictly within eps of an OPEN end (one known finding is keyed on exactly that region)"}
