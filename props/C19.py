"""C19 — tag encoding projects faithfully onto the vocabulary; equal objects hash equally."""
import z3

from props.common import new_verifier, with_models, task
from pyvc.values import Num

HASHABLE = ["soundevent.data.terms.Term", "soundevent.data.tags.Tag", "soundevent.data.features.Feature",
            "soundevent.data.notes.Note", "soundevent.data.sound_events.SoundEvent",
            "soundevent.data.sound_event_annotations.SoundEventAnnotation",
            "soundevent.data.sound_event_predictions.SoundEventPrediction",
            "soundevent.data.clip_predictions.ClipPrediction"]


def setup():
    v = with_models(new_verifier())
    v.load_contracts("contracts.encoding")
    v.inline |= {"soundevent.evaluation.encoding." + f for f in ("create_tag_encoder", "classification_encoding",
                                                                 "multilabel_encoding", "prediction_encoding")}
    f32 = z3.Function("float32", z3.RealSort(), z3.RealSort())
    v.handlers["numpy.float32#cast"] = lambda ex, x: f32(x.real())
    v.handlers["contracts.encoding.as_float32"] = lambda ex, p, args, kw, node: [(p, Num(f32(args[0].real())))]
    return v


def run(s):
    v = setup()
    s.ver = v
    tasks = [task(v, cn, lambda cn=cn: v.verify(cn, "C19")) for cn in ("Encode", "DecodeEncode", "Classification", "Multilabel", "Prediction")]
    for q in HASHABLE:
        name = q.rsplit(".", 1)[1]
        tasks.append(task(v, f"hash[{name}]", lambda q=q, name=name: v.lemma(f"equal-objects-hash-equally[{name}]", "contracts.encoding",
                                                                              "lemma_hash", dict(a="Obj:" + q, b="Obj:" + q), "C19")))
    s.attempt_all(tasks)
    s.attempt("tables", lambda: tables(s, v))
    s.min_obligations = 12
    s.discharge_all()
    s.triage()
    s.standin("encoding_small")
    s.trusted |= {"numpy: zeros(n) / item assignment / float32 cast (uninterpreted, monotonicity not needed)", "dict lookup finds the value of the last inserted equal key (relies on hash congruence, proved here for Term/Tag)"}


def tables(s, v):
    """Tag declares exactly the fields (term, value): tag equality is equality of that pair"""
    names = [f["name"] for f in v.repo.class_fields("soundevent.data.tags.Tag")]
    s.table("Tag-fields-are-term-and-value", names == ["term", "value"], str(names))
    return []
