"""C07 — matching is an optimal one-to-one assignment that covers every geometry once.

The deductive check here is BOUNDED in the list sizes (every n, m <= 2; affinities fully symbolic) and labelled so;
the exhaustive stand-in covers up to 3 x 3 lattices and random 6 x 6."""
import itertools

import z3

from props.common import new_verifier, with_models, task, opaque_geometry_specs
from pyvc.array_model import MATRIX_MODEL
from pyvc.repo import Unsupported
from pyvc.values import Opq, Obj, Str, Num, Bool, Tup, Lst, Dct, NONE, opaque_sort, fresh_name, ite

GS = opaque_sort("Geometry")
AFF = z3.Function("affinity", GS, GS, z3.RealSort(), z3.RealSort(), z3.RealSort())


def setup():
    v = with_models(new_verifier())
    v.load_contracts("contracts.geometry")
    v.load_contracts("contracts.matching")
    opaque_geometry_specs(v)
    v.handlers.update(MATRIX_MODEL)
    v.inline |= {"soundevent.evaluation.match._select_matches", "contracts.matching.count_first", "contracts.matching.count_second"}

    def affinity(ex, p, args, kw, node):
        """compute_affinity under its C06 contract: a function of its arguments with values in [0, 1]"""
        g1, g2 = args[0], args[1]
        tb = kw.get("time_buffer", args[2] if len(args) > 2 else Num(0.01))
        fb = kw.get("freq_buffer", args[3] if len(args) > 3 else Num(100))
        t = AFF(g1.t, g2.t, tb.real(), fb.real())
        ex.trace["assumed"].add("compute_affinity contract (C06): deterministic, value in [0, 1]")
        return [(p.assume(t >= 0, t <= 1), Num(t))]

    def lsa(ex, p, args, kw, node):
        """assumed (scipy): linear_sum_assignment(C, maximize=True) returns row and column indices of equal length
        min(n, m), each duplicate-free and in range, maximising the sum of C[r, c] over all such assignments"""
        mat = args[0]
        mx = kw.get("maximize")
        maximize = isinstance(mx, Bool) and z3.is_true(z3.simplify(mx.t))   # scipy minimises unless maximize=True
        n, m, cells = mat.meta["n"], mat.meta["m"], mat.meta["cells"]
        K = min(n, m)
        rows = [z3.Int(fresh_name("lsa_r")) for _ in range(K)]
        cols = [z3.Int(fresh_name("lsa_c")) for _ in range(K)]
        facts = [z3.And(r >= 0, r < n) for r in rows] + [z3.And(c >= 0, c < m) for c in cols]
        if K > 1:
            facts += [z3.Distinct(*rows), z3.Distinct(*cols)]

        def cell(r, c):
            res = None
            for (a, b), val in cells.items():
                res = val.real() if res is None else z3.If(z3.And(r == a, c == b), val.real(), res)
            return res if res is not None else z3.RealVal(0)
        total = sum([cell(r, c) for r, c in zip(rows, cols)], z3.RealVal(0))
        for rs in itertools.combinations(range(n), K):
            for cs in itertools.permutations(range(m), K):
                alt = sum([cells[(r, c)].real() for r, c in zip(rs, cs)], z3.RealVal(0))
                facts.append(total >= alt if maximize else total <= alt)
        ex.trace["assumed"].add("scipy.optimize.linear_sum_assignment(maximize=True): a maximum-weight full assignment")
        return [(p.assume(*facts), Tup([Lst(items=[Num(r) for r in rows]), Lst(items=[Num(c) for c in cols])]))]

    def best_sum(ex, p, args, kw, node):
        src, tgt, tb, fb = args
        n, m = len(src.items), len(tgt.items)
        best = z3.RealVal(0)
        for k in range(0, min(n, m) + 1):
            for rs in itertools.combinations(range(n), k):
                for cs in itertools.permutations(range(m), k):
                    tot = sum([AFF(src.items[r].t, tgt.items[c].t, tb.real(), fb.real()) for r, c in zip(rs, cs)], z3.RealVal(0))
                    best = z3.If(tot > best, tot, best)
        return [(p, Num(best))]
    v.use("ComputeBounds")   # not called by the current body; keeps a refactoring that consults the bounds analysable
    PREP = z3.Function("prepared_geometry", GS, z3.RealSort(), z3.RealSort(), GS)

    def prepare(ex, p, args, kw, node):
        """_prepare_geometry under its C06 contract (not called by the current body of match_geometries either): some valid
        geometry determined by (geometry, buffers)"""
        g = args[0]
        tb = kw.get("time_buffer", args[1] if len(args) > 1 else Num(0.01))
        fb = kw.get("freq_buffer", args[2] if len(args) > 2 else Num(100))
        ex.trace["assumed"].add("_prepare_geometry contract (C06): a valid geometry determined by the geometry and the buffers")
        r = Opq("Geometry", PREP(g.t, tb.real(), fb.real()))
        (q, ok), = v.handlers["contracts.geometry.valid_geometry"](ex, p, [r], {}, node)
        return [(q.assume(ok.t), r)]
    v.handlers["soundevent.evaluation.affinity._prepare_geometry"] = prepare
    v.handlers["soundevent.evaluation.affinity.compute_affinity"] = affinity
    v.handlers["scipy.optimize.linear_sum_assignment"] = lsa
    v.handlers["contracts.matching.best_pairing_sum"] = best_sum
    v.handlers["float"] = lambda ex, p, args, kw, node: [(p, Num(ex.as_num(args[0], p, node)[1].real()))]
    return v


def geoms(prefix, k):
    return Lst(items=[Opq("Geometry", z3.Const(f"{prefix}{i}", GS)) for i in range(k)])


def run(s):
    v = setup()
    s.ver = v
    tasks = []
    for n, m in itertools.product(range(3), repeat=2):
        tasks.append(task(v, f"match_geometries[{n}x{m}]", lambda n=n, m=m: v.verify(
            "MatchGeometries", "C07", fixed={"source": geoms("src", n), "target": geoms("tgt", m)}, tag=f"[{n}x{m}]")))
    s.attempt_all(tasks)
    s.min_obligations = 10
    s.discharge_all()
    s.triage()
    s.standin("matching_small")
    s.level = "other"
    s.explanation = ("Deductive but BOUNDED in the list sizes: the real bodies of match_geometries and _select_matches are executed for every "
                     "pair of list lengths n, m <= 2 with fully symbolic affinities (all real values in [0,1], ties included) against the statement: "
                     "every index exactly once, pairs only with positive affinity reporting exactly compute_affinity of that pair, one-sided entries "
                     "report 0, and the reported sum equals the optimum over all one-to-one pairings -- relative to the scipy "
                     "linear_sum_assignment contract. Unbounded lengths are outside the engine's reach here (set-difference iteration and a "
                     "matrix filled by a product loop), so this is a bounded check, not a proof; the stand-in matching_small covers <= 3 x 3 "
                     "lattices exhaustively and random mixed geometries up to 6 x 6 on the real scipy.")
    s.trusted |= {"scipy.optimize.linear_sum_assignment contract", "compute_affinity contract (C06)", "numpy zeros / item assignment", "itertools.product order"}
