"""C20 — rasterisation marks exactly the covered bins on the template's axes."""
import z3

from props.common import new_verifier, with_models, task
from pyvc.repo import Unsupported
from pyvc.values import Opq, Obj, Str, Num, Bool, Tup, Lst, Dct, NONE, opaque_sort, fresh_name, eq


def setup(order):
    v = with_models(new_verifier())
    v.load_contracts("contracts.raster")
    NX, NY = z3.Int("n_time"), z3.Int("n_frequency")
    sizes = {"time": NX, "frequency": NY}
    AX = opaque_sort("Axis")

    def template():
        return Opq("Template", z3.Const("template", opaque_sort("Template")), dict(order=order))

    def t_attr(attr):
        def h(ex, p, args, kw, node):
            m = args[0].meta
            if attr == "shape":
                return [(p, Tup([Num(sizes[d]) for d in m["order"]]))]
            if attr == "sizes":
                return [(p, Dct([(Str(d), Num(sizes[d])) for d in m["order"]]))]
            if attr == "dims":
                return [(p, Tup([Str(d) for d in m["order"]]))]
            if attr == "coords":
                return [(p, Dct([(Str(d), Opq("Axis", z3.Const("axis_" + d, AX), dict(n=sizes[d], name=d))) for d in m["order"]]))]
            raise Unsupported(attr)
        return h
    for a in ("shape", "sizes", "dims", "coords"):
        v.handlers["attr:Template." + a] = t_attr(a)

    def rio_rasterize(ex, p, args, kw, node):
        """assumed: features.rasterize(shapes, out_shape=(rows, cols), ...) returns an array of exactly out_shape"""
        shape = args[1] if len(args) > 1 else kw["out_shape"]
        ex.trace["assumed"].add("rasterio.features.rasterize returns an array of exactly out_shape = (rows, cols), x being the column")
        return [(p, Opq("Raster", z3.Const(fresh_name("rast"), opaque_sort("Raster")), dict(shape=shape.items)))]

    def raster_T(ex, p, args, kw, node):
        sh = args[0].meta["shape"]
        return [(p, Opq("Raster", z3.Const(fresh_name("rastT"), opaque_sort("Raster")), dict(shape=[sh[1], sh[0]])))]

    def xr_dataarray(ex, p, args, kw, node):
        """assumed: xr.DataArray(data, dims, coords) raises CoordinateValidationError unless data.shape[k] == len(coords[dims[k]])"""
        data_, dims, coords = kw["data"], kw["dims"], kw["coords"]
        ex.trace["assumed"].add("xarray.DataArray(data, dims, coords) raises unless every dimension's length equals its coordinate's")
        conds = []
        out_sizes, out_coords = [], []
        for k, d in enumerate(dims.items):
            ax = ex.index(coords, d, p, node)[0][1]
            conds.append(data_.meta["shape"][k].t == ax.meta["n"])
            out_sizes.append((d, data_.meta["shape"][k]))
            out_coords.append((d, ax))
        ok = z3.And(conds)
        ex.emit_raise(p, "CoordinateValidationError", node, extra=z3.Not(ok))
        q = p.fork(ok)
        return [(q, Obj("xarray.DataArray", {"dims": Tup(list(dims.items)), "sizes": Dct(out_sizes), "coords": Dct(out_coords)}))]

    def opaque_shape(ex, p, args, kw, node):
        return [(p, Opq("Shape", ex.fresh_sym(opaque_sort("Shape"), "shp", node), {}))]

    def same_axis(ex, p, args, kw, node):
        a, b, dim = args
        ax_a = ex.index(a.fields["coords"], dim, p, node)[0][1]
        ax_b = ex.index(ex.getattr(b, "coords", p, node)[0][1], dim, p, node)[0][1]
        return [(p, Bool(ax_a.t == ax_b.t))]

    v.handlers["rasterio.features.rasterize"] = rio_rasterize
    v.handlers["attr:Raster.T"] = raster_T
    v.handlers["xarray.DataArray"] = xr_dataarray
    v.handlers["shapely.transform"] = opaque_shape
    v.handlers["soundevent.geometry.conversion.geometry_to_shapely"] = opaque_shape
    v.handlers["contracts.raster.same_axis"] = same_axis
    v.template = template
    return v


def run(s):
    tasks = []
    for order in (("frequency", "time"), ("time", "frequency")):
        v = setup(order)
        s.ver = v
        for kind, spec in (("scalar", {"values": "float"}), ("list", {"values": "List[float]"})):
            tasks.append(task(v, f"rasterize[{order[0]}-first,{kind}]", lambda v=v, spec=spec, order=order, kind=kind: v.verify(
                "Rasterize", "C20", types=spec, tag=f"[{order[0]}-first,{kind}]",
                fixed={"array": v.template(), "xdim": Str("time"), "ydim": Str("frequency"), "dtype": NONE})))
    tasks.append(task(v, "lemma_box_bins", lambda: v.lemma("box-bins-start-inclusive-end-exclusive", "contracts.raster", "lemma_box_bins",
                                                          dict(i0="int", i1="int", c="int"), "C20")))
    s.attempt_all(tasks)
    s.min_obligations = 10
    s.discharge_all()
    s.triage()
    s.standin("raster_templates")
    s.level = "proof"
    s.trusted |= {"rasterio.features.rasterize: out_shape, x = column, centre-in-shape burn rule, later shapes overwrite earlier ones, all_touched marks a superset (cells: bounded stand-in raster_templates only)",
                  "xarray.DataArray constructor size check; shapely.transform pointwise; get_coord_index contract (C16)"}
