"""C08 — detection evaluation accounts for every sound event and only credits overlaps."""
import itertools

import z3

from props.common import new_verifier, with_models, task, opaque_geometry_specs
from pyvc.repo import Unsupported
from pyvc.values import Opq, Obj, Str, Num, Bool, Tup, Lst, Opt, NDArr, NONE, opaque_sort, fresh_name, ite

GS = opaque_sort("Geometry")
AFF = z3.Function("affinity", GS, GS, z3.RealSort(), z3.RealSort(), z3.RealSort())


def setup():
    v = with_models(new_verifier())
    for mod in ("contracts.geometry", "contracts.encoding", "contracts.schema", "contracts.matching", "contracts.detection"):
        v.load_contracts(mod)
    opaque_geometry_specs(v)
    from pyvc.array_model import ARRAY_MODEL
    v.handlers.update(ARRAY_MODEL)
    v.handlers["float"] = lambda ex, p, args, kw, node: [(p, Num(ex.as_num(args[0], p, node)[1].real()))]
    v.inline |= {"soundevent.evaluation.tasks.sound_event_detection." + f for f in ("evaluate_clip", "evaluate_sound_event")}
    v.inline |= {"contracts.matching.count_first", "contracts.matching.count_second"}
    return v


def obligations(v, name):
    if name == "classification_score":
        return v.verify("ClassificationScore", "C08")
    if name == "iterate_over_valid_clips":
        return v.verify("IterateOverValidClips", "C08")
    if name.startswith("_mean["):
        n = int(name[6:-1])
        return v.verify("Mean", "C08", tag=f"[{n}]", fixed={"scores": lambda sb: Lst(items=[sb.make("Optional[float]", f"s{i}") for i in range(n)])})
    raise KeyError(name)


NAMES = ["classification_score", "iterate_over_valid_clips"] + [f"_mean[{n}]" for n in range(4)]


def run(s):
    v = setup()
    s.ver = v
    tasks = [task(v, nm, lambda nm=nm: obligations(v, nm)) for nm in NAMES]
    s.attempt_all(tasks)
    s.min_obligations = 5
    s.discharge_all()
    s.triage()
    s.standin("detection_small")
    s.level = "other"
