"""C08 — detection evaluation accounts for every sound event and only credits overlaps."""
import itertools

import z3

from props.common import new_verifier, with_models, task, opaque_geometry_specs
from pyvc.repo import Unsupported
from pyvc.values import Opq, Obj, Str, Num, Bool, Tup, Lst, Opt, NDArr, NONE, opaque_sort, fresh_name, ite

GS = opaque_sort("Geometry")
AFF = z3.Function("affinity", GS, GS, z3.RealSort(), z3.RealSort(), z3.RealSort())


def memo_by_identity(handler):
    """a deterministic function called twice with the very same symbolic values returns the same value (the argument
    objects are kept alive so that their identity stays unique)"""
    cache = {}

    def h(ex, p, args, kw, node):
        key = tuple(id(a) for a in args)
        if key in cache:
            _, res, facts = cache[key]
            return [(p.fork(*facts), res)]
        (p2, res), = handler(ex, p, args, kw, node)
        cache[key] = (args, res, p2.cond[len(p.cond):])
        return [(p2, res)]
    return h


def setup():
    v = with_models(new_verifier())
    for mod in ("contracts.geometry", "contracts.encoding", "contracts.schema", "contracts.matching", "contracts.detection"):
        v.load_contracts(mod)
    opaque_geometry_specs(v)
    from pyvc.array_model import ARRAY_MODEL
    v.handlers.update(ARRAY_MODEL)
    v.handlers["float"] = lambda ex, p, args, kw, node: [(p, Num(ex.as_num(args[0], p, node)[1].real()))]
    f32 = z3.Function("float32", z3.RealSort(), z3.RealSort())
    v.handlers["numpy.float32#cast"] = lambda ex, x: f32(x.real())
    v.handlers["contracts.encoding.as_float32"] = lambda ex, p, args, kw, node: [(p, Num(f32(args[0].real())))]
    D = "soundevent.evaluation.tasks.sound_event_detection."
    v.inline |= {D + "evaluate_clip", D + "evaluate_sound_event", "soundevent.evaluation.metrics.true_class_probability",
                 "contracts.matching.count_first", "contracts.matching.count_second"}
    # callees seen through their contracts: C19 (encoders), C07 (matching), C06 (affinity), this file (_mean, classification_score)
    v.use("Classification", "Prediction", "ClassificationScore", "Mean")
    classify = memo_by_identity(v.handlers["contracts.encoding.classify_with"])
    predict = memo_by_identity(v.handlers["contracts.encoding.prediction_with"])
    v.handlers["contracts.encoding.classify_with"] = classify
    v.handlers["contracts.encoding.prediction_with"] = predict
    ENC = opaque_sort("Encoder")

    def encoder_of(ex, p, args, kw, node):
        vocab = args[0] if args else kw["tags"]
        ex.trace["assumed"].add("create_tag_encoder / classification_encoding / prediction_encoding under their C19 contracts")
        return [(p, Opq("Encoder", ex.fresh_sym(ENC, "enc", node), {"vocab": vocab}))]

    def encoding(h):
        def f(ex, p, args, kw, node):
            tags = kw.get("tags", args[0] if args else None)
            enc = kw.get("encoder", args[1] if len(args) > 1 else None)
            return h(ex, p, [enc.meta["vocab"], tags], {}, node)
        return f
    v.handlers["soundevent.evaluation.encoding.create_tag_encoder"] = encoder_of
    v.handlers["soundevent.evaluation.encoding.classification_encoding"] = encoding(classify)
    v.handlers["soundevent.evaluation.encoding.prediction_encoding"] = encoding(predict)

    def affinity(ex, p, args, kw, node):
        """compute_affinity under its C06 contract: a function of its arguments with values in [0, 1]"""
        g1, g2 = args[0], args[1]
        tb = kw.get("time_buffer", args[2] if len(args) > 2 else Num(0.01))
        fb = kw.get("freq_buffer", args[3] if len(args) > 3 else Num(100))
        t = AFF(g1.t, g2.t, tb.real(), fb.real())
        ex.trace["assumed"].add("compute_affinity contract (C06): deterministic, value in [0, 1]")
        return [(p.assume(t >= 0, t <= 1), Num(t))]
    v.handlers["soundevent.evaluation.affinity.compute_affinity"] = affinity

    def best_sum(ex, p, args, kw, node):
        src, tgt, tb, fb = args
        n, m = len(src.items), len(tgt.items)
        best = z3.RealVal(0)
        for k in range(0, min(n, m) + 1):
            for rs in itertools.combinations(range(n), k):
                for cs in itertools.permutations(range(m), k):
                    tot = sum([AFF(src.items[r].t, tgt.items[c].t, tb.real(), fb.real()) for r, c in zip(rs, cs)], z3.RealVal(0))
                    best = z3.If(tot > best, tot, best)
        return [(p, Num(best))]
    v.handlers["contracts.matching.best_pairing_sum"] = best_sum

    mg = v.contracts["MatchGeometries"]

    def match_geometries(ex, p, args, kw, node):
        """match_geometries through its C07 contract, for concrete list lengths: one path per result shape, the affinities
        symbolic and constrained by the contract's postcondition (the callee's body is not consulted)"""
        values = v.bind(mg, args, kw, ex, p)
        src, tgt = ex.as_list(values["source"], p, node), ex.as_list(values["target"], p, node)
        if not (src.concrete and tgt.concrete):
            raise Unsupported("match_geometries contract use needs concrete list lengths")
        def unwrap(lst, which):
            out = []
            for k, g in enumerate(lst.items):
                if isinstance(g, Opt):   # Optional[Geometry] at the call site: must be a geometry here (own side obligation)
                    ex.side.append((f"call-pre/MatchGeometries-{which}[{k}]-is-a-geometry@{ex.module.name}:{node.lineno}", list(p.cond), z3.Not(g.isnone)))
                    g = g.val
                out.append(g)
            return Lst(items=out)
        src, tgt = unwrap(src, "source"), unwrap(tgt, "target")
        values["source"], values["target"] = src, tgt
        n, m = len(src.items), len(tgt.items)
        ex.side.append((f"call-pre/MatchGeometries@{ex.module.name}:{node.lineno}", list(p.cond), v.pred(ex, mg, "requires", values, p)))
        ex.trace["assumed"].add("MatchGeometries contract (C07)")
        out = []
        # every list the contract allows, by shape: a partial one-to-one pairing, the unpaired indices, in any order (the
        # indices are concrete on each path so that the events looked up by index are the caller's own objects)
        for k in range(min(n, m) + 1):
            for rs in itertools.combinations(range(n), k):
                for cs in itertools.permutations(range(m), k):
                    entries = list(zip(rs, cs)) + [(i, None) for i in range(n) if i not in rs] + [(None, j) for j in range(m) if j not in cs]
                    for order in itertools.permutations(entries):
                        tag = fresh_name("mg_")
                        res = Lst(items=[Tup([NONE if i is None else Num(i), NONE if j is None else Num(j), Num(z3.Real(f"{tag}a{t}"))])
                                         for t, (i, j) in enumerate(order)])
                        extra = []
                        post = v.pred(ex, mg, "ensures", {**values, "result": res}, p, assumptions_out=extra)
                        p2 = p.assume(*extra, post)
                        if ex.feasible(p2.cond):
                            out.append((p2, res))
        return out
    v.handlers["soundevent.evaluation.match.match_geometries"] = match_geometries
    return v


def event(sb, cls, name):
    """a sound event annotation / prediction whose sound event may or may not have a (valid, opaque) geometry"""
    o = sb.make("Obj:" + cls, name)
    o.fields["sound_event"].fields["geometry"] = Opt(z3.Bool(name + ".geometry.isnone"), Opq("Geometry", z3.Const(name + ".geometry", GS)))
    return o


def clip_pair(sb, na, npred):
    ann = sb.make("Obj:soundevent.data.clip_annotations.ClipAnnotation", "clip_annotations")
    prd = sb.make("Obj:soundevent.data.clip_predictions.ClipPrediction", "clip_predictions")
    ann.fields["sound_events"] = Lst(items=[event(sb, "soundevent.data.sound_event_annotations.SoundEventAnnotation", f"a{i}") for i in range(na)])
    prd.fields["sound_events"] = Lst(items=[event(sb, "soundevent.data.sound_event_predictions.SoundEventPrediction", f"q{i}") for i in range(npred)])
    return ann, prd


def obligations(v, name):
    if name == "classification_score":
        return v.verify("ClassificationScore", "C08")
    if name == "iterate_over_valid_clips":
        return v.verify("IterateOverValidClips", "C08")
    if name.startswith("_mean["):
        n = int(name[6:-1])
        return v.verify("Mean", "C08", tag=f"[{n}]", fixed={"scores": lambda sb: Lst(items=[sb.make("Optional[float]", f"s{i}") for i in range(n)])})
    if name == "evaluate_sound_event":
        return v.verify("EvaluateSoundEvent", "C08", fixed={
            "sound_event_prediction": lambda sb: event(sb, "soundevent.data.sound_event_predictions.SoundEventPrediction", "q"),
            "sound_event_annotation": lambda sb: event(sb, "soundevent.data.sound_event_annotations.SoundEventAnnotation", "a")})
    if name.startswith("evaluate_clip["):
        na, npred = map(int, name[14:-1].split("x"))
        box = {}

        def ann(sb):
            box["pair"] = clip_pair(sb, na, npred)
            return box["pair"][0]
        return v.verify("EvaluateClip", "C08", tag=f"[{na}x{npred}]", types={"vocab": "List[Obj:soundevent.data.tags.Tag]"},
                        fixed={"clip_annotations": ann, "clip_predictions": lambda sb: box["pair"][1]})
    if name.startswith("sound_event_detection["):
        npred, nann = map(int, name[22:-1].split("x"))
        top_level_handlers(v)

        def with_geometries(clip_obj, name):
            """every sound event of the clip gets an optional (opaque) geometry, a function of its position"""
            evs = clip_obj.fields["sound_events"]
            G = z3.Function(name + ".geometry", z3.IntSort(), GS)
            N = z3.Function(name + ".geometry.isnone", z3.IntSort(), z3.BoolSort())

            def at(i, evs=evs):
                e = evs.at(i)
                se = e.fields["sound_event"]
                return Obj(e.cls, {**e.fields, "sound_event": Obj(se.cls, {**se.fields, "geometry": Opt(N(i), Opq("Geometry", G(i)))})})
            clip_obj.fields["sound_events"] = Lst(n=evs.n, at=at, tag=evs.tag)
            return clip_obj

        def lst(cls, prefix, n):
            return lambda sb: Lst(items=[with_geometries(sb.make("Obj:" + cls, f"{prefix}{i}"), f"{prefix}{i}") for i in range(n)])
        return v.verify("SoundEventDetection", "C08", tag=f"[{npred}x{nann}]", types={"tags": "List[Obj:soundevent.data.tags.Tag]"}, fixed={
            "clip_predictions": lst("soundevent.data.clip_predictions.ClipPrediction", "P", npred),
            "clip_annotations": lst("soundevent.data.clip_annotations.ClipAnnotation", "A", nann)})
    raise KeyError(name)


def top_level_handlers(v):
    """callees of sound_event_detection seen through their contracts: iterate_over_valid_clips (this property), evaluate_clip
    (EvaluateClip, verified above for bounded event counts), compute_overall_metrics (C09: some list of features)"""
    D = "soundevent.evaluation.tasks.sound_event_detection."
    v.inline |= {D + "_evaluate_clips"}
    v.inline.discard(D + "evaluate_clip")
    it = v.contracts["IterateOverValidClips"]
    ec = v.contracts["EvaluateClip"]
    CE = "soundevent.data.clip_evaluations.ClipEvaluation"

    def iterate(ex, p, args, kw, node):
        values = v.bind(it, args, kw, ex, p)
        preds, anns = ex.as_list(values["clip_predictions"], p, node), ex.as_list(values["clip_annotations"], p, node)
        if not (preds.concrete and anns.concrete):
            raise Unsupported("iterate_over_valid_clips contract use needs concrete list lengths")
        ex.trace["assumed"].add("IterateOverValidClips contract (verified unbounded in this property)")
        out = []
        choices = [[None] + list(range(len(anns.items)))] * len(preds.items)
        for pick in itertools.product(*choices):
            res = Lst(items=[Tup([anns.items[j], preds.items[i]]) for i, j in enumerate(pick) if j is not None])
            extra = []
            post = v.pred(ex, it, "ensures", {**values, "result": res}, p, assumptions_out=extra)
            p2 = p.assume(*extra, post)
            if ex.feasible(p2.cond):
                out.append((p2, res))
        return out

    def evaluate_clip(ex, p, args, kw, node):
        ann, prd, enc = kw["clip_annotations"], kw["clip_predictions"], kw["encoder"]
        values = {"vocab": enc.meta["vocab"], "clip_annotations": ann, "clip_predictions": prd}
        pre_facts = []
        goal = v.pred(ex, ec, "requires", values, p, assumptions_out=pre_facts)
        from pyvc.contract import _conjuncts
        for k_, part in enumerate(_conjuncts(goal)):
            ex.side.append((f"call-pre/EvaluateClip.{k_}@{ex.module.name}:{node.lineno}", list(p.cond) + pre_facts, part))
        ex.trace["assumed"].add("EvaluateClip contract (verified for bounded event counts in this property)")
        res = v.fresh_value(ex, "Tuple[List[Optional[int]], List[NDArray], Obj:" + CE + "]", "clip_result", node)
        extra = []
        post = v.pred(ex, ec, "ensures", {**values, "result": res}, p.assume(goal), assumptions_out=extra)
        return [(p.assume(goal, *extra, post), res)]

    def overall_metrics(ex, p, args, kw, node):
        ex.trace["assumed"].add("compute_overall_metrics returns some list of features (values: C09)")
        return [(p, v.fresh_value(ex, "List[Obj:soundevent.data.features.Feature]", "run_metrics", node))]
    v.handlers["soundevent.evaluation.tasks.common.iterate_over_valid_clips"] = iterate
    v.handlers[D + "evaluate_clip"] = evaluate_clip
    v.handlers[D + "compute_overall_metrics"] = overall_metrics
    v.handlers["numpy.array"] = lambda ex, p, args, kw, node: [(p, Opq("NDMatrix", ex.fresh_sym(opaque_sort("NDMatrix"), "mat", node)))]
    v.use("Mean")


SIZES = [(0, 0), (0, 1), (1, 0), (1, 1), (1, 2), (2, 1)]
SIZES_THOROUGH = [(0, 2), (2, 0), (2, 2)]
TOP_SIZES = [(0, 0), (1, 0), (0, 1), (1, 1), (2, 1), (1, 2), (2, 2)]    # predicted clips x annotated clips
BASE = ["classification_score", "iterate_over_valid_clips", "evaluate_sound_event"] + [f"_mean[{n}]" for n in range(4)]


def run(s):
    v = setup()
    s.ver = v
    sizes = SIZES + (SIZES_THOROUGH if s.tier == "thorough" else [])
    names = BASE + [f"evaluate_clip[{a}x{b}]" for a, b in sizes]
    names += [f"sound_event_detection[{a}x{b}]" for a, b in TOP_SIZES]
    s.attempt_all([task(v, nm, lambda nm=nm: obligations(v, nm)) for nm in names])
    s.min_obligations = 800
    s.discharge_all()
    s.triage()
    s.standin("detection_small")
    s.level = "other"
    s.explanation = ("Unbounded, from the real bodies: iterate_over_valid_clips yields exactly the predicted clips that are annotated, in "
                     "order, each with an annotation of the same clip; classification_score; evaluate_sound_event (source, target, the "
                     "affinity handed in, score = probability of the annotation's class). BOUNDED in list sizes (labelled so, not counted "
                     "as proved): the real evaluate_clip for every number of annotated x predicted events up to "
                     + ("2 x 2" if s.tier == "thorough" else "1 x 2 / 2 x 1 (2 x 2 in the thorough tier)")
                     + " with every event's geometry symbolically present or absent, against the statement -- ClipEvaluation built without a "
                     "validation error, every event in exactly one match, pairs only with positive affinity reporting that affinity and the "
                     "true-class probability, unpaired events 0 / 0, clip score = mean of match scores -- seeing match_geometries (C07), the "
                     "encoders (C19), compute_affinity (C06), _mean and classification_score only through their contracts; _mean for 0-3 "
                     "scores; the whole task (sound_event_detection, _evaluate_clips) for <= 2 predicted x <= 2 annotated clips with "
                     "UNBOUNDED events per clip, seeing iterate_over_valid_clips and evaluate_clip through their contracts: exactly the "
                     "clips in both inputs, each satisfying the per-clip statement, overall score = mean of the clip scores. "
                     "The stand-in detection_small runs the whole task (clips <= 3, events <= 3 + 3) against an independent reference.")
    s.trusted |= {"MatchGeometries contract (C07, itself bounded n, m <= 2)", "encoder contracts (C19)", "compute_affinity contract (C06)",
                  "numpy: mean = sum / count, isnan false on reals, arr.sum() a function of the array",
                  "pydantic construction contract (Match, ClipEvaluation validators executed from their real bodies)",
                  "encoded scores lie in [0, 1] and sum to at most 1 (precondition: single-label scoring, float32 rounding is monotone)",
                  "engine lemma: uniqueness of the order-preserving enumeration of a filter (paper proof by induction)",
                  "run metrics of the detection task: some list of features (values: C09)",
                  "symbolic lists carry an identity term; a pure function under contract is a function of the identity terms of its list arguments"}
