"""C13 — grouping returns the connected components of the similarity graph."""
import z3

from props.common import new_verifier, with_models, task
from pyvc.repo import Unsupported
from pyvc.values import Opq, Bool, Num, Tup, Lst, Fn, opaque_sort, eq

UUID = opaque_sort("UUID")
CMP = z3.Function("comparison_fn", UUID, UUID, z3.BoolSort())


def setup():
    v = with_models(new_verifier())
    v.load_contracts("contracts.grouping")
    calls = []

    def spec_cmp(ex, p, args, kw, node):
        a, b = args
        return [(p, Bool(CMP(a.fields["uuid"].t, b.fields["uuid"].t)))]

    def cmp(ex, p, args, kw, node):
        a, b = args
        if ex.module.name.startswith("contracts."):
            return spec_cmp(ex, p, args, kw, node)   # the specification's own use of the relation: not a call of the code
        # the obligation "only ever called on two distinct input positions" for the generic iteration
        if len(ex.index_ctx) >= 2:
            i, j = ex.index_ctx[-2], ex.index_ctx[-1]
            ex.side.append(("cmp-called-on-distinct-input-positions", list(p.cond), i != j))
        else:
            ex.side.append(("cmp-called-outside-the-pair-loop", list(p.cond), z3.BoolVal(False)))
        return [(p, Bool(CMP(a.fields["uuid"].t, b.fields["uuid"].t)))]


    def coo_array(ex, p, args, kw, node):
        """assumed: sparse.coo_array((values, (r, c)), shape=(n, m)) is the n x m matrix with exactly those entries"""
        data_, shape = args[0], kw["shape"]
        vals, (r, c) = data_.items[0], data_.items[1].items
        infos = []
        for lst in (vals, r, c):
            if not (isinstance(lst, Lst) and isinstance(lst.tag, tuple) and lst.tag[0] == "pairacc"):
                raise Unsupported("coo_array from lists that were not built by the pair loop")
            infos.append(lst.tag[1])
        if len({inf["loop"] for inf in infos}) != 1:
            raise Unsupported("coo_array lists from different loops")
        ex.trace["assumed"].add("scipy.sparse.coo_array((values, (r, c)), shape): the matrix with exactly those non-zero entries")
        return [(p, Opq("SparseMatrix", ex.fresh_sym(opaque_sort("SparseMatrix"), "coo", node),
                        dict(shape=shape, vals=infos[0], r=infos[1], c=infos[2])))]

    def matrix_size(ex, p, args, kw, node):
        return [(p, args[0].meta["shape"])]

    def matrix_entry(ex, p, args, kw, node):
        m, a, b = args
        mv, mr, mc = m.meta["vals"], m.meta["r"], m.meta["c"]
        N = mv["n"]
        i, j = z3.Int("me_i"), z3.Int("me_j")
        disj = []
        rows, cols, vals = mr["items_at"](i, j), mc["items_at"](i, j), mv["items_at"](i, j)
        for (c1, ri), (c2, ci), (c3, vi) in zip(rows, cols, vals):
            if not (len(ri) == len(ci) == len(vi)):
                raise Unsupported("row / column / value lists grow differently")
            for t in range(len(ri)):
                disj.append(z3.And(c1, c2, c3, ri[t].t == a.t, ci[t].t == b.t, vi[t].real() != 0))
        body = z3.Or(disj) if disj else z3.BoolVal(False)
        return [(p, Bool(z3.Exists([i, j], z3.And(i >= 0, i < j, j < N, body))))]

    v.handlers["scipy.sparse.coo_array"] = coo_array
    v.handlers["contracts.grouping.matrix_size"] = matrix_size
    v.handlers["contracts.grouping.matrix_entry"] = matrix_entry
    v.code_cmp, v.spec_cmp = Fn("opaque", cmp), Fn("opaque", spec_cmp)
    return v


def run(s):
    v = setup()
    s.ver = v
    s.attempt("_compute_similarity_matrix", lambda: v.verify("ComputeSimilarityMatrix", "C13", fixed={"comparison_fn": v.code_cmp}))
    s.min_obligations = 3
    s.discharge_all()
    s.triage()
    s.standin("grouping_graphs")
    s.level = "other"
    s.explanation = ("Proved (deductive): _compute_similarity_matrix builds an n x n matrix with an entry exactly at (a,b), a != b, "
                     "whose events compare similar (hence symmetric), and calls the comparison only on pairs of distinct input "
                     "positions -- real body, loop over all index pairs summarised for a generic pair, relative to the "
                     "itertools.combinations and scipy.sparse.coo_array contracts. Bounded (stand-in grouping_graphs): that "
                     "group_sound_events returns exactly the connected components as a partition in input order -- all symmetric "
                     "relations on <= 5 nodes (quick) / <= 6 nodes (thorough) exhaustively plus random graphs to 30 nodes; this "
                     "rests on scipy.sparse.csgraph.connected_components and the defaultdict group-by loop, which are not under contract.")
    s.trusted |= {"itertools.combinations order/completeness", "scipy.sparse.coo_array entries",
                  "scipy connected_components and the group-by loop of group_sound_events: bounded only"}
