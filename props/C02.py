"""C02 — AOEF documents are self-contained and resolvable in a single pass.

Closure, uniqueness, parent-first and exactness are carried by the same obligations as C01 (generated again under this
property's id): a reference is written only as the key of an object passed through the target adapter's to_aoef (else
the load side, which assumes only registered objects present, raises: `load-raises` obligations), every adapter's store
is emitted after the last call that can add to it (`emission`), stores are keyed by identifier (base-class contract:
uniqueness), parents are converted before their children are stored (tables)."""
from props.common import new_verifier, with_models, task
from props.C01 import setup, tables
from props.aoef_rt import roundtrip_obligations, ADAPTER_OF
from props.aoef_flow import collection_obligations
from props.aoef_common import COLLECTIONS


def run(s):
    v = setup()
    s.ver = v
    tasks = []
    for dcls, acls in ADAPTER_OF.items():
        tasks.append(task(v, f"roundtrip[{acls.rsplit('.', 1)[1]}]", lambda acls=acls: roundtrip_obligations(v, acls, prop="C02")[0]))
    for tname, dcls, acls in COLLECTIONS:
        tasks.append(task(v, f"collection[{tname}]", lambda tname=tname, dcls=dcls, acls=acls: collection_obligations(v, tname, dcls, acls, prop="C02")))
    # the base-class contract assumed at every sub-adapter call above, verified against the real bodies of adapters.py
    import props.adapters_base as B
    vb = B.install(with_models(new_verifier()))
    for cname in B.METHODS:
        tasks.append(task(vb, f"base-class[{cname}]", lambda cname=cname: B.obligations(vb, cname)))
    vt = B.install(with_models(new_verifier()))
    vt.inline |= {"soundevent.data.compat.key_from_term", "soundevent.data.compat.term_from_key"}
    tasks.append(task(vt, "base-class[TagAdapter.get_id]", lambda: B.tag_obligations(vt)))
    s.attempt_all(tasks)
    s.attempt("tables", lambda: tables(s, v))
    s.min_obligations = 50
    s.discharge_all()
    s.triage()
    s.standin("aoef_document_closure")
    finish(s)


def finish(s):
    s.trusted |= {
        "DataAdapter base-class contract (to_aoef registers the object under its key and returns the stored AOEF object; get_id does not "
        "register for output; from_id returns the registered object; values() lists the store in insertion order): the generic uuid-keyed "
        "bodies of adapters.py are verified against contracts/adapters.py by C02 (whole-store postconditions with a universal probe key); "
        "TagAdapter.get_id with its own key / id functions is verified under the representation invariant `ids in order` (the i-th key "
        "registered has id i: ids distinct, equal (label, value) pairs share an id); "
        "still assumed: that the ghost predicate `missing` used at call sites is the complement of that store membership, that the "
        "invariant holds initially (empty mapping) and that nothing else writes the stores, abstract assemble_* as uninterpreted functions",
        "structural induction over the adapter dependency DAG (load-side hypothesis at a node from its successors + load-order obligations): a fixed proof schema, not an SMT obligation",
        "pydantic construction contract; JSON layer (model_dump_json / model_validate_json identity on AOEF trees): stand-in only",
        "preconditions from the property's quantifier: simple-label terms, feature labels distinct per list, embedded objects valid",
    }
