"""C04 — relational schema invariants cannot be bypassed at construction."""
from props.common import new_verifier, with_models, task

NAMES = ["NewClipEvaluation", "NewMatch", "NewAnnotationProject", "NewClip", "NewPredictedTag", "NewSoundEventPrediction",
         "NewSequencePrediction"]


def run(s):
    v = with_models(new_verifier())
    s.ver = v
    v.load_contracts("contracts.schema")
    s.attempt_all([task(v, cn, lambda cn=cn: v.verify(cn, "C04")) for cn in NAMES])
    s.min_obligations = 20
    s.discharge_all()
    s.triage()
    s.standin("schema_paths")
    s.trusted |= {"pydantic v2 construction contract (validators, Field bounds, before/after model validators); constructor == model_validate == model_validate_json (checked by the stand-in)", "AOEF loading constructs these classes through their constructors (C01)"}
