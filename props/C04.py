"""C04 — relational schema invariants cannot be bypassed at construction."""
from props.common import new_verifier, with_models, task

NAMES = ["NewClipEvaluation", "NewMatch", "NewAnnotationProject", "NewClip", "NewPredictedTag", "NewSoundEventPrediction",
         "NewSequencePrediction"]


def run(s):
    v = with_models(new_verifier())
    s.ver = v
    v.load_contracts("contracts.schema")
    tasks = [task(v, cn, lambda cn=cn: v.verify(cn, "C04")) for cn in NAMES]
    # the fourth construction path, AOEF loading: the real assemble_soundevent of the adapters whose data class carries an invariant
    import props.C01 as C01
    from props.aoef_rt import load_side_obligations, AOEF
    v1 = C01.setup()
    v1.load_contracts("contracts.schema")
    sm = v1.repo.module("contracts.schema")

    def pred(name, getter):
        def accepts(ex, y, q):
            return v1.pred_node(ex, sm, sm.defs[name], getter(y), q)
        return accepts
    unit = lambda y: dict(x=y.fields["score"])
    for short, acls, ocls, name, getter in (
            ("match", AOEF + "match.MatchAdapter", AOEF + "match.MatchObject", "match_ok",
             lambda y: dict(source=y.fields["source"], target=y.fields["target"], affinity=y.fields["affinity"], score=y.fields["score"])),
            ("sound_event_prediction", AOEF + "sound_event_prediction.SoundEventPredictionAdapter", AOEF + "sound_event_prediction.SoundEventPredictionObject", "in_unit", unit),
            ("sequence_prediction", AOEF + "sequence_prediction.SequencePredictionAdapter", AOEF + "sequence_prediction.SequencePredictionObject", "in_unit", unit)):
        tasks.append(task(v1, f"aoef-load[{short}]", lambda acls=acls, ocls=ocls, name=name, getter=getter: load_side_obligations(v1, acls, ocls, pred(name, getter))))
    s.attempt_all(tasks)
    s.min_obligations = 20
    s.discharge_all()
    s.triage()
    s.standin("schema_paths")
    s.trusted |= {"pydantic v2 construction contract (validators, Field bounds, before/after model validators); constructor == model_validate == model_validate_json (checked by the stand-in)", "AOEF loading constructs these classes through their constructors (C01)"}
