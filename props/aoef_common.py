"""Shared models for the AOEF checks (C01, C02, C18): pathlib algebra, collection adapter classes."""
import z3

from pyvc.repo import Unsupported
from pyvc.values import (Opq, Num, Bool, Str, NONE, Opt, Tup, Lst, Obj, Ref, Fn, opaque_sort, StrSort, eq, is_none, strip_opt)

AOEF = "soundevent.io.aoef."
COLLECTIONS = [  # (type name, data class, adapter class)
    ("evaluation", "soundevent.data.evaluations.Evaluation", AOEF + "evaluation.EvaluationAdapter"),
    ("dataset", "soundevent.data.datasets.Dataset", AOEF + "dataset.DatasetAdapter"),
    ("annotation_project", "soundevent.data.annotation_projects.AnnotationProject", AOEF + "annotation_project.AnnotationProjectAdapter"),
    ("evaluation_set", "soundevent.data.evaluation_sets.EvaluationSet", AOEF + "evaluation_set.EvaluationSetAdapter"),
    ("model_run", "soundevent.data.model_runs.ModelRun", AOEF + "model_run.ModelRunAdapter"),
    ("annotation_set", "soundevent.data.annotation_sets.AnnotationSet", AOEF + "annotation_set.AnnotationSetAdapter"),
    ("prediction_set", "soundevent.data.prediction_sets.PredictionSet", AOEF + "prediction_set.PredictionSetAdapter"),
    ("recording_set", "soundevent.data.recording_sets.RecordingSet", AOEF + "recording_set.RecordingSetAdapter"),
]
RECORDING_ADAPTER = AOEF + "recording.RecordingAdapter"

PATH = opaque_sort("Path")
JOIN = z3.Function("path_join", PATH, PATH, PATH)          # A / x
REL = z3.Function("path_relative_to", PATH, PATH, PATH)    # p.relative_to(A)
UNDER = z3.Function("path_is_under", PATH, PATH, z3.BoolSort())


def path_term(v):
    """a path-like value (Path or str) as a term of sort Path; str and Path of the same text denote the same path"""
    if isinstance(v, Opq) and v.kind == "Path":
        return v.t
    if isinstance(v, Str):
        f = z3.Function("path_of_str", StrSort, PATH)
        return f(v.t)
    raise Unsupported(f"path-like value expected, got {type(v).__name__}")


def path_axioms(terms_A, terms_x):
    """ground instances of the pathlib algebra: (A / x).relative_to(A) == x, A / x is under A,
    p under A => A / p.relative_to(A) == p"""
    out = []
    for A in terms_A:
        for x in terms_x:
            out += [REL(JOIN(A, x), A) == x, UNDER(JOIN(A, x), A),
                    z3.Implies(UNDER(x, A), JOIN(A, REL(x, A)) == x)]
    return out


def install_pathlib(v):
    def h_path(ex, p, args, kw, node):
        ex.trace["assumed"].add("pathlib algebra: Path(p) denotes p; p.relative_to(A) = x iff p = A / x, else ValueError; (A / x).relative_to(A) = x")
        return [(p, Opq("Path", path_term(args[0])))]

    def h_relative_to(ex, p, args, kw, node):
        pth, A = args
        if isinstance(A, Opt):
            A = A.val
        pt, At = path_term(pth), path_term(A)
        ex.emit_raise(p, "ValueError", node, extra=z3.Not(UNDER(pt, At)))
        ex.bg_local(p, path_axioms([At], [pt]))     # axioms of the (assumed) path algebra: background, not path facts
        return [(p.fork(UNDER(pt, At)), Opq("Path", REL(pt, At)))]

    def h_truediv(ex, p, args, kw, node):
        A, x = args
        if isinstance(A, Opt):
            A = A.val
        At, xt = path_term(A), path_term(x)
        ex.bg_local(p, path_axioms([At], [xt]))
        return [(p, Opq("Path", JOIN(At, xt)))]

    v.handlers["pathlib.Path"] = h_path
    v.handlers["method:Path.relative_to"] = h_relative_to
    v.handlers["op:truediv"] = h_truediv
    v.handlers["op:/"] = h_truediv
    return v
