"""C18 — audio paths are stored relative to the audio directory and relocate on load."""
import z3

from props.common import new_verifier, with_models, task
from props.aoef_common import (COLLECTIONS, RECORDING_ADAPTER, AOEF, PATH, JOIN, REL, UNDER, install_pathlib, path_term, path_axioms)
from pyvc.contract import Obligation
from pyvc.repo import Unsupported
from pyvc.symex import Exec, Path
from pyvc.values import Opq, Opt, Str, Bool, Num, NONE, Obj, Ref, Fn, Dct, Lst, eq, is_none, opaque_sort, fresh_name


def setup():
    v = with_models(new_verifier())
    v.load_contracts("contracts.aoef_paths")
    install_pathlib(v)
    # sub-adapter calls inside RecordingAdapter: opaque (their results are irrelevant to the path clauses)
    T = AOEF

    def fresh(spec, name):
        return lambda ex, p, args, kw, node: [(p, v.fresh_value(ex, spec, name, node))]
    v.handlers[f"method:{T}tag.TagAdapter.to_aoef"] = fresh(f"Obj:{T}tag.TagObject", "tagobj")
    v.handlers[f"method:{T}note.NoteAdapter.to_aoef"] = fresh(f"Obj:{T}note.NoteObject", "noteobj")
    v.handlers[f"method:{T}user.UserAdapter.to_aoef"] = fresh(f"Obj:{T}user.UserObject", "userobj")
    v.handlers[f"method:{T}tag.TagAdapter.from_id"] = fresh("Optional[Obj:soundevent.data.tags.Tag]", "tag")
    v.handlers[f"method:{T}user.UserAdapter.from_id"] = fresh("Optional[Obj:soundevent.data.users.User]", "user")
    v.handlers[f"method:{T}note.NoteAdapter.to_soundevent"] = fresh("Obj:soundevent.data.notes.Note", "note")
    v.inline |= {"soundevent.data.compat.key_from_term", "soundevent.data.compat.term_from_key"}
    return v


def audio_dir_value(name="audio_dir"):
    """a symbolic Optional[PathLike]"""
    return Opt(z3.Bool(name + ".isnone"), Opq("Path", z3.Const(name, PATH)))


def new_exec(v, modname):
    ex = Exec(v.repo, v.repo.module(modname), v.handlers, v.inline, "R", True, 300, [], None, v.trace)
    return ex


def obligations_init_dataflow(v):
    """each collection adapter's real __init__ chain hands the audio_dir it was given to its RecordingAdapter"""
    from pyvc.calls import instantiate
    obls = []
    for tname, dcls, acls in COLLECTIONS:
        ex = new_exec(v, acls.rsplit(".", 1)[0])
        A = audio_dir_value()
        res = instantiate(ex, acls, [], {"audio_dir": A}, Path([], {}, None, {}), None)
        ok = len(res) == 1 and not ex.outcomes
        goal = z3.BoolVal(False)
        detail = "constructor forks or raises"
        if ok:
            q, ref = res[0]
            recs = [fields for ident, fields in q.heap.items() if "audio_dir" in fields and "_user_adapter" in fields]
            ra = q.heap[ref.ident].get("recording_adapter")
            detail = f"{len(recs)} RecordingAdapter instance(s)"
            if len(recs) == 1 and isinstance(ra, Ref) and q.heap[ra.ident] is recs[0]:
                goal = eq(recs[0]["audio_dir"], A)
        obls.append(Obligation(f"C18/init/{tname}/audio_dir-reaches-the-recording-adapter", "post", [z3.Not(goal)],
                               meta=dict(detail=detail, adapter=acls)))
        v.functions_under_contract[acls + ".__init__"] = "inlined"
    return obls


def obligations_entry_points(v):
    """to_aeof / to_soundevent build the collection's own adapter with the caller's audio_dir; save and load pass it on;
    save reaches write_text only after to_aeof has returned"""
    from pyvc.values import opaque_sort
    obls = []
    aoef_mod = "soundevent.io.aoef"
    for tname, dcls, acls in COLLECTIONS:
        for direction in ("to_aeof", "to_soundevent"):
            seen = []

            def adapter_call(ex, p, args, kw, node, seen=seen):
                seen.append((p, args[0]))
                return [(p, Opq("AOEFData", z3.Const(fresh_name("data"), opaque_sort("AOEFData"))))]
            handlers = dict(v.handlers)
            for _, _, ac in COLLECTIONS:
                handlers[f"method:{ac}.to_aoef"] = adapter_call
                handlers[f"method:{ac}.to_soundevent"] = adapter_call
            ex = Exec(v.repo, v.repo.module(aoef_mod), handlers, v.inline, "R", True, 300, [], None, v.trace)
            A = audio_dir_value()
            m, fnode, _ = v.repo.function(f"{aoef_mod}:{direction}")
            if direction == "to_aeof":
                arg = Obj(dcls, {})
                env = {"obj": arg, "audio_dir": A}
            else:
                env = {"aoef_object": Obj(aoef_mod + ".AOEFObject", {"data": Obj("verif.Data", {"collection_type": Str(tname)}), "version": Str("1.1.0")}), "audio_dir": A}
            ex.run_body(fnode, Path([], env, None, {}))
            goal = z3.BoolVal(False)
            detail = f"{len(seen)} adapter call(s); outcomes {[(o.kind, o.exc) for o in ex.outcomes]}"
            if len(seen) == 1 and all(o.kind == "return" for o in ex.outcomes):
                q, ref = seen[0]
                if isinstance(ref, Ref) and ref.cls == acls:
                    ra = q.heap[ref.ident].get("recording_adapter")
                    if isinstance(ra, Ref):
                        goal = eq(q.heap[ra.ident]["audio_dir"], A)
            obls.append(Obligation(f"C18/{direction}/{tname}/own-adapter-built-with-the-callers-audio_dir", "post", [z3.Not(goal)],
                                   meta=dict(detail=detail)))
    v.functions_under_contract[aoef_mod + ":to_aeof"] = "executed"
    v.functions_under_contract[aoef_mod + ":to_soundevent"] = "executed"
    # save / load: audio_dir handed on unchanged; nothing is written unless to_aeof returned
    for fn_name, callee in (("save", "to_aeof"), ("load", "to_soundevent")):
        calls, writes = [], []

        def callee_h(ex, p, args, kw, node, calls=calls):
            calls.append((p, args, kw))
            ex.emit_raise(p, "ValueError", node, extra=z3.Bool(fresh_name("callee_raises")))   # the callee may raise
            return [(p, Obj(aoef_mod + ".AOEFObject", {"data": Obj("verif.Data", {"collection_type": Str(t=z3.Const("ctype", __import__("pyvc.values", fromlist=["StrSort"]).StrSort))}), "version": Str("1.1.0")}))]
        handlers = dict(v.handlers)
        handlers[f"{aoef_mod}.{callee}"] = callee_h
        sym_bool = lambda name: (lambda ex, p, args, kw, node: [(p, Bool(z3.Bool(fresh_name(name))))])
        handlers["method:Path.exists"] = sym_bool("exists")
        handlers["method:Path.mkdir"] = lambda ex, p, args, kw, node: [(p, NONE)]
        handlers["attr:Path.parent"] = lambda ex, p, args, kw, node: [(p, Opq("Path", z3.Const(fresh_name("parent"), PATH)))]
        handlers["attr:Path.suffix"] = lambda ex, p, args, kw, node: [(p, Str(t=z3.Const(fresh_name("suffix"), __import__("pyvc.values", fromlist=["StrSort"]).StrSort)))]
        handlers["method:Path.read_text"] = lambda ex, p, args, kw, node: [(p, Str(t=z3.Const(fresh_name("text"), __import__("pyvc.values", fromlist=["StrSort"]).StrSort)))]

        def write_text(ex, p, args, kw, node, writes=writes):
            writes.append(p)
            return [(p.heap_set(0, "written", Bool(True)), NONE)]
        handlers["method:Path.write_text"] = write_text
        handlers["method:soundevent.io.aoef.AOEFObject.model_dump_json"] = lambda ex, p, args, kw, node: [(p, Str(t=z3.Const(fresh_name("json"), __import__("pyvc.values", fromlist=["StrSort"]).StrSort)))]
        handlers["soundevent.io.aoef.AOEFObject.model_validate_json"] = lambda ex, p, args, kw, node: callee_fresh(ex, p)

        def callee_fresh(ex, p):
            ex.emit_raise(p, "ValidationError", None, extra=z3.Bool(fresh_name("invalid_json")))
            return [(p, Obj(aoef_mod + ".AOEFObject", {"data": Obj("verif.Data", {"collection_type": Str(t=z3.Const("ctype", __import__("pyvc.values", fromlist=["StrSort"]).StrSort))}),
                                                         "version": Str(t=z3.Const("version", __import__("pyvc.values", fromlist=["StrSort"]).StrSort))}))]
        ex = Exec(v.repo, v.repo.module(aoef_mod), handlers, v.inline | {"soundevent.io.utils.is_json"}, "R", True, 300, [], None, v.trace)
        A = audio_dir_value()
        m, fnode, _ = v.repo.function(f"{aoef_mod}:{fn_name}")
        pth = Opq("Path", z3.Const("file_path", PATH))
        env = {"obj": Obj("verif.Collection", {}), "path": pth, "audio_dir": A, "exclude": NONE, "type": NONE}
        env = {k: val for k, val in env.items() if k in [a.arg for a in fnode.args.args]}
        ex.run_body(fnode, Path([], env, None, {0: {}}))
        passed = len(calls) >= 1 and all(eq(kw.get("audio_dir", NONE), A) is not None for _, _, kw in calls)
        goal = z3.And([eq(kw["audio_dir"], A) for _, _, kw in calls if "audio_dir" in kw]) if calls and all("audio_dir" in kw for _, _, kw in calls) else z3.BoolVal(False)
        obls.append(Obligation(f"C18/{fn_name}/audio_dir-handed-to-{callee}-unchanged", "post", [z3.Not(goal)], meta=dict(calls=len(calls))))
        if fn_name == "save":
            bad = [o for o in ex.outcomes if o.kind == "raise" and (o.heap or {}).get(0, {}).get("written") is not None]
            good = [o for o in ex.outcomes if o.kind == "return" and (o.heap or {}).get(0, {}).get("written") is not None]
            obls.append(Obligation("C18/save/no-write-on-any-raising-path", "post", [z3.Not(z3.BoolVal(not bad and len(writes) >= 1))],
                                   meta=dict(raising_paths=len([o for o in ex.outcomes if o.kind == 'raise']), writes=len(writes))))
            obls.append(Obligation("C18/save/cover-normal-path-writes", "cover", [z3.BoolVal(bool(good))], expect="sat"))
        v.functions_under_contract[f"{aoef_mod}:{fn_name}"] = "executed"
    # saver.save / loader.load dispatch to the AOEF functions with the same audio_dir
    for modname, fn_name, callee_q in (("soundevent.io.saver", "save", "soundevent.io.aoef.save"), ("soundevent.io.loader", "load", "soundevent.io.aoef.load")):
        calls = []

        def callee_h(ex, p, args, kw, node, calls=calls):
            calls.append((args, kw))
            return [(p, NONE)]
        handlers = dict(v.handlers)
        handlers[callee_q] = callee_h
        ex = Exec(v.repo, v.repo.module(modname), handlers, v.inline, "R", True, 300, [], None, v.trace)
        A = audio_dir_value()
        m, fnode, _ = v.repo.function(f"{modname}:{fn_name}")
        env = {"obj": Obj("verif.Collection", {}), "path": Opq("Path", z3.Const("file_path", PATH)), "audio_dir": A,
               "format": Str("aoef"), "kwargs": Dct([]), "type": NONE}
        env = {k: val for k, val in env.items() if k in [a.arg for a in fnode.args.args] + ([fnode.args.kwarg.arg] if fnode.args.kwarg else [])}
        ex.run_body(fnode, Path([], env, None, {}))
        goal = z3.BoolVal(False)
        if len(calls) == 1:
            args, kw = calls[0]
            got = kw.get("audio_dir", args[2] if len(args) > 2 else None)
            if got is not None:
                goal = eq(got, A)
        obls.append(Obligation(f"C18/{modname.rsplit('.', 1)[1]}.{fn_name}/audio_dir-handed-on-unchanged", "post", [z3.Not(goal)], meta=dict(calls=len(calls))))
        v.functions_under_contract[f"{modname}:{fn_name}"] = "executed"
    return obls


def recording_adapter_prelude(v):
    """self = RecordingAdapter built by its real __init__ with sub-adapters and a symbolic audio_dir"""
    from pyvc.calls import instantiate

    def prelude(ex, p0, values):
        T = AOEF
        p = Path(p0.cond, p0.env, None, {})
        (p, ua), = instantiate(ex, T + "user.UserAdapter", [], {}, p, None)
        (p, ta), = instantiate(ex, T + "tag.TagAdapter", [], {}, p, None)
        (p, na), = instantiate(ex, T + "note.NoteAdapter", [ua], {}, p, None)
        (p, ra), = instantiate(ex, RECORDING_ADAPTER, [ua, ta, na, audio_dir_value()], {}, p, None)
        values["self"] = ra
        return p
    return prelude


def run(s):
    v = setup()
    s.ver = v
    tasks = [task(v, "init-dataflow", lambda: obligations_init_dataflow(v)),
             task(v, "entry-points", lambda: obligations_entry_points(v)),
             task(v, "assemble_aoef", lambda: v.verify("RecordingAssembleAoef", "C18", prelude=recording_adapter_prelude(v))),
             task(v, "assemble_soundevent", lambda: v.verify("RecordingAssembleSoundevent", "C18", prelude=recording_adapter_prelude(v)))]
    P = "Opq:Path"
    tasks.append(task(v, "lemma_relocate", lambda: v.lemma("save-under-A-load-under-B-maps-A/x-to-B/x", "contracts.aoef_paths", "lemma_relocate",
                                                             dict(A=P, B=P, x=P), "C18")))
    s.attempt_all(tasks)
    s.min_obligations = 20
    s.discharge_all()
    s.triage()
    s.standin("audio_paths")
    s.trusted |= {"pathlib algebra: p.relative_to(A) = x iff p = A / x (ValueError otherwise); str and Path denote the same path", "Path.write_text is the only write in aoef.save", "sub-adapter results inside RecordingAdapter are irrelevant to the path clauses (opaque)"}
