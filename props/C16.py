"""C16 — range dimensions and coordinate lookup are exact."""
import z3

from props.common import new_verifier, with_models, task
from pyvc.array_model import ARRAY_MODEL, make_dataarray, coords_getitem, DATUM
from pyvc.values import Str, Bool, Num, Opq, Dct, NONE


def setup():
    v = with_models(new_verifier())
    v.load_contracts("contracts.arrays")
    v.handlers.update(ARRAY_MODEL)
    v.handlers["getitem:xarray.Coords"] = coords_getitem
    v.handlers["dict.update#ignore"] = True
    def on_lattice(ex, p, args, kw, node):
        from pyvc.values import strip_opt
        c, start, step, i = [strip_opt(a) for a in args]
        return [(p, Bool(c.real() == start.real() + i.real() * step.real()))]
    v.handlers["contracts.arrays.on_lattice"] = on_lattice
    v.handlers["contracts.arrays.is_whole"] = lambda ex, p, args, kw, node: [(p, Bool(args[0].real() == z3.ToReal(z3.ToInt(args[0].real()))))]
    v.handlers["contracts.arrays.whole_part"] = lambda ex, p, args, kw, node: [(p, Num(z3.ToInt(args[0].real())))]
    v.handlers["contracts.arrays.is_fill"] = lambda ex, p, args, kw, node: [(p, Bool(args[0].t == z3.Const("fill_datum", DATUM)))]
    v.inline |= {"soundevent.arrays.dimensions." + f for f in ("get_dim_range", "get_dim_step", "create_range_dim")}

    def xr_variable(ex, node, suffix, ctx):
        """a fresh xarray.Variable: symbolic coordinate data and the standard attributes"""
        from pyvc.values import NDArr, Obj, StrSort
        n = z3.Int("var_n" + suffix)
        ex.bg.append(n >= 0)
        C = z3.Function("var_data" + suffix, z3.IntSort(), z3.RealSort())
        attrs = Dct([(Str("step"), Num(z3.Real("var_step" + suffix)))] + [(Str(k), Str(t=z3.Const(f"var_{k}{suffix}", StrSort))) for k in ("units", "standard_name", "long_name")])
        return Obj("xarray.Variable", {"data": NDArr(n, lambda i: Num(C(i)), "float64"), "attrs": attrs})
    v.result_builders["xr_variable"] = xr_variable
    return v


def arr_fixed(name="arr", with_step=None):
    def mk(sb):
        a, wf = make_dataarray(name, "time", with_step=with_step)
        sb.wf += wf
        return a
    return mk


def run(s):
    v = setup()
    s.ver = v
    T = Str("time")
    tasks = [task(v, "create_range_dim", lambda: v.verify("CreateRangeDim", "C16", fixed={"dtype": NONE, "attrs": Dct([])})),
             task(v, "create_time_range", lambda: v.verify("CreateTimeRange", "C16", fixed={"dtype": NONE, "name": T, "attrs": Dct([])})),
             task(v, "get_coord_index", lambda: v.verify("GetCoordIndex", "C16", fixed={"arr": arr_fixed(), "dim": T}))]
    s.attempt_all(tasks)
    s.min_obligations = 10
    s.discharge_all()
    s.triage()
    s.standin("range_dims")
