"""C16 — range dimensions and coordinate lookup are exact."""
import z3

from props.common import new_verifier, with_models, task
from pyvc.array_model import ARRAY_MODEL, make_dataarray, coords_getitem, DATUM
from pyvc.values import Str, Bool, Num, Opq, Dct, NONE


def setup():
    v = with_models(new_verifier())
    v.load_contracts("contracts.arrays")
    v.handlers.update(ARRAY_MODEL)
    v.handlers["getitem:xarray.Coords"] = coords_getitem
    v.handlers["dict.update#ignore"] = True
    v.handlers["contracts.arrays.on_lattice"] = lambda ex, p, args, kw, node: [(p, Bool(args[0].real() == args[1].real() + args[3].real() * args[2].real()))]
    v.handlers["contracts.arrays.is_fill"] = lambda ex, p, args, kw, node: [(p, Bool(args[0].t == z3.Const("fill_datum", DATUM)))]
    v.inline |= {"soundevent.arrays.dimensions." + f for f in ("get_dim_range", "get_dim_step", "create_range_dim")}
    return v


def arr_fixed(name="arr", with_step=None):
    def mk(sb):
        a, wf = make_dataarray(name, "time", with_step=with_step)
        sb.wf += wf
        return a
    return mk


def run(s):
    v = setup()
    s.ver = v
    T = Str("time")
    tasks = [task(v, "create_range_dim", lambda: v.verify("CreateRangeDim", "C16", fixed={"dtype": NONE, "attrs": Dct([])})),
             task(v, "create_time_range", lambda: v.verify("CreateTimeRange", "C16", fixed={"dtype": NONE, "name": T, "attrs": Dct([])})),
             task(v, "get_coord_index", lambda: v.verify("GetCoordIndex", "C16", fixed={"arr": arr_fixed(), "dim": T}))]
    s.attempt_all(tasks)
    s.min_obligations = 10
    s.discharge_all()
    s.triage()
    s.standin("range_dims")
