"""C12 — overlap predicates agree with exact interval arithmetic."""
import z3
from props.common import new_verifier, opaque_geometry_specs
from pyvc.ann import make_resolver
from pyvc.values import Tup, Num, opaque_sort

_B = [z3.Function(f"bounds_{k}", opaque_sort("Geometry"), z3.RealSort()) for k in range(4)]


def opaque_bounds(ex, p, args, kw, node):
    """bounds_of on an opaque geometry: four uninterpreted functions of the geometry."""
    g = args[0]
    return [(p, Tup([Num(f(g.t)) for f in _B]))]

T2 = "Tuple[float, float]"
OF = "Optional[float]"


def run(s):
    v = new_verifier()
    s.ver = v
    v.load_contracts("contracts.overlap")
    s.attempt("intervals_overlap", lambda: v.verify("IntervalsOverlap", "C12"))
    v.use("IntervalsOverlap")
    L = lambda name, types, **kw: s.attempt(name, lambda: v.lemma(name, "contracts.overlap", name, types, "C12", **kw))
    L("lemma_symmetric", dict(a=T2, b=T2, abs_=OF, rel=OF))
    L("lemma_antitone_abs", dict(a=T2, b=T2, t1="float", t2="float"))
    L("lemma_antitone_rel", dict(a=T2, b=T2, r1="float", r2="float"))
    L("lemma_touching_overlap_at_zero", dict(s1="float", m="float", e2="float"))
    L("lemma_disjoint_never", dict(a=T2, b=T2, abs_=OF, rel=OF))
    L("canary_always_false", dict(a=T2, b=T2), expect="sat")
    # geometry-level predicates: geometries opaque, compute_bounds under its C05 contract
    v.load_contracts("contracts.geometry")
    opaque_geometry_specs(v)
    v.ann_resolver = make_resolver(v.repo)
    v.use("ComputeBounds")
    for cn in ("HaveTemporalOverlap", "HaveFrequencyOverlap", "IsInClip"):
        s.attempt(cn, lambda cn=cn: v.verify(cn, "C12"))
    v.use("IsInClip")
    G, CL = "Opq:Geometry", "Obj:soundevent.data.clips.Clip"
    L("lemma_inside_is_in", dict(geometry=G, clip=CL))
    L("lemma_timestamp_strictly_inside_is_in", dict(geometry=G, clip=CL))
    L("lemma_touching_edge_is_out", dict(geometry=G, clip=CL, m="float"))
    s.trusted.add("compute_bounds contract (result == bounds_of(geometry), ordered) is proved in C05 against the shapely contract")
    s.min_obligations = 25
    s.discharge_all()
    s.triage()
    s.standin("overlap_lattice")
