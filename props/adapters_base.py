"""Verification of the DataAdapter base-class methods against contracts/adapters.py (used by C02)."""
import z3

from pyvc.values import Ref, Opq, DctL, Lst, opaque_sort, fresh_name
from pyvc.symex import Path

CLS = "soundevent.io.aoef.adapters.DataAdapter"
UUID = opaque_sort("UUID")
DOBJ = opaque_sort("DataObj")
AOBJ = opaque_sort("AoefObj")
UUID_OF_D = z3.Function("uuid_of_data_object", DOBJ, UUID)
UUID_OF_A = z3.Function("uuid_of_aoef_object", AOBJ, UUID)
ASM_A = z3.Function("assemble_aoef", DOBJ, UUID, AOBJ)
ASM_D = z3.Function("assemble_soundevent", AOBJ, DOBJ)

TAG_CLS = "soundevent.io.aoef.tag.TagAdapter"
METHODS = {"GetId": ("obj", "Opq:DataObj"), "ToAoef": ("obj", "Opq:DataObj"), "ToSoundEvent": ("obj", "Opq:AoefObj"),
           "FromId": ("obj_id", "Opq:UUID"), "Values": (None, None)}


def install(v):
    v.load_contracts("contracts.adapters")
    h = v.handlers
    h["attr:DataObj.uuid"] = lambda ex, p, args, kw, node: [(p, Opq("UUID", UUID_OF_D(args[0].t)))]
    h["attr:AoefObj.uuid"] = lambda ex, p, args, kw, node: [(p, Opq("UUID", UUID_OF_A(args[0].t)))]
    # the two abstract methods: some function of their arguments (each concrete adapter's bodies are C01's obligations)
    def assemble_aoef(ex, p, args, kw, node):
        # parents before children: while an object is being assembled (its dependencies are converted and stored by the concrete
        # adapters at this point) the object itself is not yet in the AOEF store, so it is listed after them
        selfv, obj, oid = args
        store = (p.heap or {}).get(selfv.ident, {}).get("_aoef_store")
        if not ex.module.name.startswith("contracts."):     # the code's call, not the specification's own mention of the function
            ex.side.append((f"object-not-stored-before-it-is-assembled@{ex.module.name}:{getattr(node, 'lineno', 0)}", list(p.cond),
                            z3.Not(ex.contains(store, oid, p, node))))
        return [(p, Opq("AoefObj", ASM_A(obj.t, oid.t)))]
    h[f"method:{CLS}.assemble_aoef"] = assemble_aoef
    h[f"method:{CLS}.assemble_soundevent"] = lambda ex, p, args, kw, node: [(p, Opq("DataObj", ASM_D(args[1].t)))]
    return v


def tag_obligations(v):
    """TagAdapter.get_id (the inherited body with TagAdapter's own key and id functions): ids are handed out in order"""
    ref = Ref(10_100, TAG_CLS)
    ghost = {"mapping0": "Dict[Tuple[str, str], int]", "sstore0": "Dict[int, Obj:soundevent.data.tags.Tag]",
             "astore0": "Dict[int, Opq:AoefObj]", "k": "Tuple[str, str]"}

    def prelude(ex, p0, values):
        heap = dict(p0.heap or {})
        heap[ref.ident] = {"_mapping": values["mapping0"], "_soundevent_store": values["sstore0"], "_aoef_store": values["astore0"]}
        return Path(p0.cond, p0.env, None, heap)
    return v.verify("TagGetId", "C02", tag="[TagAdapter]", types={"obj": "Obj:soundevent.data.tags.Tag"}, fixed={"self": ref}, ghost=ghost, prelude=prelude)


def obligations(v, cname):
    ref = Ref(10_000 + list(METHODS).index(cname), CLS)
    param, spec = METHODS[cname]
    ghost = {"mapping0": "Dict[Opq:UUID, Opq:UUID]", "sstore0": "Dict[Opq:UUID, Opq:DataObj]", "astore0": "Dict[Opq:UUID, Opq:AoefObj]",
             "k": "Opq:UUID"}

    def prelude(ex, p0, values):
        heap = dict(p0.heap or {})
        heap[ref.ident] = {"_mapping": values["mapping0"], "_soundevent_store": values["sstore0"], "_aoef_store": values["astore0"]}
        return Path(p0.cond, p0.env, None, heap)
    return v.verify(cname, "C02", types={param: spec} if param else {}, fixed={"self": ref}, ghost=ghost, prelude=prelude)
