"""Per-adapter, per-field AOEF round-trip obligations (C01 item 2, C02 closure / exactness).

For every DataAdapter subclass X (and NoteAdapter, inlined) the REAL `assemble_aoef` is executed on a symbolic data
object x, then the REAL `assemble_soundevent` on the AOEF object it built, with the adapter object graph built by the
real constructors.  Sub-adapter calls are replaced by the DataAdapter base-class contract:

  B.to_aoef(e)   returns an AOEF object whose key is key_B(e) and REGISTERS e           (ghost: not-missing_B(key_B(e)))
  B.get_id(e)    returns key_B(e) and registers nothing
  B.from_id(k)   returns None if missing_B(k), else the registered object with that key  (load-side hypothesis: the
                 objects of B were loaded before and are equal to the originals -- the induction hypothesis over the
                 adapter dependency DAG, established by the collection-level order obligations of props/aoef_flow.py)

Objects managed by an adapter are represented by their identity (uuid; tags by (label, value)); their content is the
round-trip obligation of their own adapter.  One obligation per declared field f of the data class: y.f == x.f, plus
`no exception on load` (nothing registered on save is missing on load) -- a reference written without going through
`to_aoef`, or a field never written / never read back, fails by construction.
"""
import ast

import z3

from pyvc.contract import Obligation
from pyvc.models import construct_model
from pyvc.repo import Unsupported
from pyvc.sym import SymBuilder
from pyvc.symex import Exec, Path
from pyvc.values import (Opq, Opt, Str, Bool, Num, NONE, Obj, Ref, Fn, Dct, Lst, Tup, DctL, eq, is_none, opaque_sort, StrSort,
                         fresh_name, distinct_list, truth)
from props.aoef_common import AOEF, install_pathlib

UUID = opaque_sort("UUID")
DATA = "soundevent.data."
# data classes managed by an adapter (represented by identity), and their adapters
MANAGED = {
    DATA + "users.User": AOEF + "user.UserAdapter",
    DATA + "recordings.Recording": AOEF + "recording.RecordingAdapter",
    DATA + "clips.Clip": AOEF + "clip.ClipAdapter",
    DATA + "sound_events.SoundEvent": AOEF + "sound_event.SoundEventAdapter",
    DATA + "sequences.Sequence": AOEF + "sequence.SequenceAdapter",
    DATA + "sound_event_annotations.SoundEventAnnotation": AOEF + "sound_event_annotation.SoundEventAnnotationAdapter",
    DATA + "sequence_annotations.SequenceAnnotation": AOEF + "sequence_annotation.SequenceAnnotationAdapter",
    DATA + "clip_annotations.ClipAnnotation": AOEF + "clip_annotations.ClipAnnotationsAdapter",
    DATA + "annotation_tasks.AnnotationTask": AOEF + "annotation_task.AnnotationTaskAdapter",
    DATA + "sound_event_predictions.SoundEventPrediction": AOEF + "sound_event_prediction.SoundEventPredictionAdapter",
    DATA + "sequence_predictions.SequencePrediction": AOEF + "sequence_prediction.SequencePredictionAdapter",
    DATA + "clip_predictions.ClipPrediction": AOEF + "clip_predictions.ClipPredictionsAdapter",
    DATA + "matches.Match": AOEF + "match.MatchAdapter",
    DATA + "clip_evaluations.ClipEvaluation": AOEF + "clip_evaluation.ClipEvaluationAdapter",
}
NO_VALIDATORS = {DATA + "clip_evaluations.ClipEvaluation"}
TAG = DATA + "tags.Tag"
TAG_ADAPTER = AOEF + "tag.TagAdapter"
ADAPTER_OF = dict(MANAGED)
ADAPTER_OF[TAG] = TAG_ADAPTER
DATA_OF = {a: d for d, a in ADAPTER_OF.items()}

TAGID = z3.Function("tag_id", StrSort, StrSort, z3.IntSort())
TAG_LABEL = z3.Function("tag_label_of_id", z3.IntSort(), StrSort)
TAG_VALUE = z3.Function("tag_value_of_id", z3.IntSort(), StrSort)


def missing_fn(adapter_cls, key_sort):
    return z3.Function("missing_" + adapter_cls.rsplit(".", 1)[1], key_sort, z3.BoolSort())


def stub_resolver(repo):
    """annotation -> type spec, with adapter-managed classes reduced to their identity"""
    from pyvc.ann import make_resolver
    base = make_resolver(repo, obj_depth=6)

    def resolve(module, ann):
        spec = base(module, ann)
        if spec is None:
            txt = ast.unparse(ann)
            if "Geometry" in txt:
                return "Opq:GeometryValue" if "Optional" not in txt else "Optional[Opq:GeometryValue]"
            if "AnnotationState" in txt:
                return "Opq:AnnotationState"
            if "EmailStr" in txt:
                return "Optional[str]"
            return None
        for d in MANAGED:
            spec = spec.replace("Obj:" + d, "Obj:stub." + d)
        return spec
    return resolve


class StubBuilder(SymBuilder):
    def make_obj(self, qual, name, idx):
        if qual.startswith("stub."):
            real = qual[5:]
            return Obj(real, {"uuid": Opq("UUID", self._sym(UUID, name + ".uuid", idx))})
        return super().make_obj(qual, name, idx)


def term_from_label(ex, v, label: Str, p):
    """the simple-label term for `label`, by the real term_from_key"""
    m = v.repo.module("soundevent.data.compat")
    r = ex.call_repo_function(m, m.defs["term_from_key"], [label], {}, p, qual="soundevent.data.compat.term_from_key")
    return r[0][1]


def install_adapter_contracts(v, ex_bg):
    """handlers for B.to_aoef / B.from_id / B.to_soundevent on adapter instances (DataAdapter base-class contract)"""
    def aoef_class_of(adapter_cls):
        m, c, q = v.repo.class_def(adapter_cls)
        for b in c.bases:
            if isinstance(b, ast.Subscript):
                elts = b.slice.elts if isinstance(b.slice, ast.Tuple) else [b.slice]
                return v.repo.resolve(v.repo.qualify(m, elts[1]))[3]
        raise Unsupported(f"no DataAdapter[...] base on {adapter_cls}")

    def guard_of(ex, p):
        # the branch decisions under which this call is reached; the generator's initial hypotheses (the first `guard_base`
        # conditions: preconditions asserted in every obligation it emits) are left out of the guard -- they hold anyway, and
        # repeating their nested quantifiers inside every ghost fact made the reachability covers undecidable in practice
        conds = p.cond[getattr(ex, "guard_base", 0):]
        return z3.And(*conds) if conds else z3.BoolVal(True)

    for dcls, acls in ADAPTER_OF.items():
        is_tag = dcls == TAG
        MISS = missing_fn(acls, z3.IntSort() if is_tag else UUID)

        def to_aoef(ex, p, args, kw, node, acls=acls, is_tag=is_tag, MISS=MISS):
            selfv, e = args
            if isinstance(e, Opt):
                p = ex.implicit(p, e.isnone, "AttributeError", node)
                e = e.val
            ocls = aoef_class_of(acls)
            if is_tag:
                label = e.fields["term"].fields["label"].t
                value = e.fields["value"].t
                key = TAGID(label, value)
                ex.bg_local(p, [z3.Implies(guard_of(ex, p), z3.And(z3.Not(MISS(key)), TAG_LABEL(key) == label, TAG_VALUE(key) == value))])
                return [(p, Obj(ocls, {"id": Num(key), "key": Str(t=label), "value": Str(t=value)}))]
            key = e.fields["uuid"].t
            ex.bg_local(p, [z3.Implies(guard_of(ex, p), z3.Not(MISS(key)))])
            return [(p, Obj(ocls, {"uuid": Opq("UUID", key)}))]

        def from_id(ex, p, args, kw, node, dcls=dcls, is_tag=is_tag, MISS=MISS):
            selfv, k = args
            if isinstance(k, Opt):
                k = k.val
            if is_tag:
                kt = k.t
                term = term_from_label(ex, v, Str(t=TAG_LABEL(kt)), p)
                return [(p, Opt(MISS(kt), Obj(TAG, {"term": term, "value": Str(t=TAG_VALUE(kt))})))]
            return [(p, Opt(MISS(k.t), Obj(dcls, {"uuid": Opq("UUID", k.t)})))]

        def get_id(ex, p, args, kw, node, is_tag=is_tag):
            """base-class contract of get_id: the key of the object; it does NOT put the object into the document
            (only to_aoef fills the store that values() emits), so nothing is known about `missing` afterwards"""
            selfv, e = args
            if isinstance(e, Opt):
                p = ex.implicit(p, e.isnone, "AttributeError", node)
                e = e.val
            if is_tag:
                return [(p, Num(TAGID(e.fields["term"].fields["label"].t, e.fields["value"].t)))]
            return [(p, Opq("UUID", e.fields["uuid"].t))]

        v.handlers[f"method:{acls}.to_aoef"] = to_aoef
        v.handlers[f"method:{acls}.from_id"] = from_id
        v.handlers[f"method:{acls}.get_id"] = get_id
    return v


def adapter_heap(v, ex):
    """adapter instances built by the real constructors: first instance of each class"""
    from pyvc.calls import instantiate
    p = Path([], {}, None, {})
    (p, _), = instantiate(ex, AOEF + "evaluation.EvaluationAdapter", [], {}, p, None)
    (p, _), = instantiate(ex, AOEF + "annotation_project.AnnotationProjectAdapter", [], {}, p, None)
    inst = {}
    for ident in sorted(p.heap):
        for val in p.heap[ident].values():
            if isinstance(val, Ref):
                inst.setdefault(val.cls, val)
    return p, inst


def simple_term_facts(ex, v, val, p, name, any_terms=False):
    """preconditions from the property's quantifier: terms are simple-label terms (unless any_terms: C09 compares metrics by
    label and value only); feature labels are distinct per list"""
    facts = []

    def term_ok(term):
        if any_terms:
            return z3.BoolVal(True)
        return eq(term, term_from_label(ex, v, term.fields["label"], p))

    def accepted(o):
        """the embedded object is a valid instance of its class (its own constructor accepts its fields)"""
        if len(o.fields) <= 1 or o.cls.endswith("terms.Term"):
            return None
        try:
            scratch = Exec(v.repo, ex.module, ex.handlers, v.inline, "R", True, 300, ex.bg, None, v.trace)
            scratch.index_ctx = list(ex.index_ctx)
            acc = construct_model(scratch, Path([], {}, None, p.heap), o.cls, dict(o.fields), None)
            return z3.Or([z3.And(*q_.cond) if q_.cond else z3.BoolVal(True) for q_, _ in acc]) if acc else None
        except Unsupported:
            return None

    def visit(x, top=False):
        if isinstance(x, Opt):
            visit(x.val)
        elif isinstance(x, Obj):
            if x.cls.endswith("terms.Term"):
                facts.append(term_ok(x))
                return
            if not top:
                a = accepted(x)
                if a is not None:
                    facts.append(a)
            for f in x.fields.values():
                visit(f)
        elif isinstance(x, Lst) and not x.concrete:
            i = z3.Int(fresh_name("pre_i"))
            el = x.at(i)
            sub = []
            old = list(facts)
            del facts[:]
            visit(el)
            inner = list(facts)
            del facts[:]
            facts.extend(old)
            if inner:
                facts.append(z3.ForAll([i], z3.Implies(z3.And(i >= 0, i < x.n), z3.And(inner))))
            if isinstance(el, Obj) and el.cls.endswith("features.Feature"):
                labels = Lst(n=x.n, at=lambda j, x=x: x.at(j).fields["term"].fields["label"])
                facts.append(distinct_list(labels))
    visit(val, top=True)
    return facts


def by_label(lst):
    """a list of Features seen as the list of (label, value) pairs -- what the label-keyed AOEF mapping can carry"""
    if lst.concrete:
        return Lst(items=[Tup([f.fields["term"].fields["label"], f.fields["value"]]) for f in lst.items])
    return Lst(n=lst.n, at=lambda i: Tup([lst.at(i).fields["term"].fields["label"], lst.at(i).fields["value"]]))


def roundtrip_obligations(v, adapter_cls, prop="C01", label_fields=()):
    """obligations y.f == x.f for every declared field f of the data class of `adapter_cls`
    (label_fields: only these fields, compared as (label, value) lists, with arbitrary terms -- C09's metrics clause)"""
    dcls = DATA_OF[adapter_cls]
    m_ad, c_ad, _ = v.repo.class_def(adapter_cls)
    bg = []
    ex = Exec(v.repo, m_ad, v.handlers, v.inline, "R", True, 300, bg, None, v.trace)
    p, inst = adapter_heap(v, ex)
    selfv = inst[adapter_cls]
    sb = StubBuilder(v.repo, stub_resolver(v.repo))
    x = SymBuilder.make_obj(sb, dcls, "x", ())          # the object itself in full; managed sub-objects as stubs
    bg += sb.wf
    pre = simple_term_facts(ex, v, x, p, "x", any_terms=bool(label_fields))
    # x is a valid object of its class: its own constructor accepts its fields (the C04 invariants)
    if dcls in NO_VALIDATORS:
        ex.handlers = dict(ex.handlers)
        ex.handlers[dcls] = lambda ex_, p_, args_, kw_, node_: construct_model(ex_, p_, dcls, kw_, node_, run_validators=False)
        v.trace["assumed"].add(f"{dcls}: relational validators not re-executed on load (the loaded object equals the original field by field; C04 proves the validators accept exactly the invariant)")
    if True:
        scratch = Exec(v.repo, m_ad, ex.handlers, v.inline, "R", True, 300, bg, None, v.trace)
        accepted = construct_model(scratch, Path(list(p.cond), {}, None, p.heap), dcls, dict(x.fields), None,
                                   run_validators=dcls not in NO_VALIDATORS)
        base_n = len(p.cond)
        pre.append(z3.Or([z3.And(*q_.cond[base_n:]) if q_.cond[base_n:] else z3.BoolVal(True) for q_, _ in accepted]) if accepted else z3.BoolVal(False))
    p = Path(list(p.cond) + pre, p.env, None, p.heap)
    ex.guard_base = len(p.cond)
    short = adapter_cls.rsplit(".", 1)[1]
    base = f"{prop}/roundtrip/{short}"
    obls = []
    # ---- save side: real assemble_aoef
    fm, fn_save, _, fq = v.repo.find_method(adapter_cls, "assemble_aoef")
    key = Num(TAGID(x.fields["term"].fields["label"].t, x.fields["value"].t)) if dcls == TAG else x.fields["uuid"]
    mark = len(ex.outcomes)
    saved = ex.call_repo_function(fm, fn_save, [selfv, x, key], {}, p, qual=fq + ".assemble_aoef", cls=fq)
    for o in ex.outcomes[mark:]:
        obls.append(Obligation(f"{base}/save-raises-{o.exc}@L{o.line}", "exc", list(ex.bg) + o.cond, meta=dict(exc=o.exc)))
    del ex.outcomes[mark:]
    fields = [f["name"] for f in v.repo.class_fields(dcls)]
    fm2, fn_load, _, fq2 = v.repo.find_method(adapter_cls, "assemble_soundevent")
    n_paths = 0
    for q, a in saved:
        mark = len(ex.outcomes)
        loaded = ex.call_repo_function(fm2, fn_load, [selfv, a], {}, q, qual=fq2 + ".assemble_soundevent", cls=fq2)
        for o in ex.outcomes[mark:]:
            # nothing that was registered on save may be missing on load; constructors must accept
            obls.append(Obligation(f"{base}/load-raises-{o.exc}@L{o.line}#{n_paths}", "exc", list(ex.bg) + o.cond, meta=dict(exc=o.exc)))
        del ex.outcomes[mark:]
        for q2, y in loaded:
            n_paths += 1
            if not isinstance(y, Obj) or y.cls != dcls:
                obls.append(Obligation(f"{base}/type#{n_paths}", "post", [z3.BoolVal(True)], meta=dict(got=str(type(y)))))
                continue
            for f in fields:
                if f not in x.fields or (label_fields and f not in label_fields):
                    continue  # field type outside the modelled subset (reported once below)
                if label_fields:
                    goal = eq(by_label(y.fields[f]), by_label(x.fields[f])) if f in y.fields else z3.BoolVal(False)
                else:
                    goal = eq(y.fields[f], x.fields[f]) if f in y.fields else z3.BoolVal(False)
                obls.append(Obligation(f"{base}/field-{f}#{n_paths}", "post", list(ex.bg) + q2.cond + [z3.Not(goal)],
                                       inputs={"x": x}, meta=dict(field=f, adapter=short)))
            if n_paths == 1:
                obls.append(Obligation(f"{base}/cover#{n_paths}", "cover", list(ex.bg) + q2.cond, expect="sat", inputs={"x": x}))
    unmodelled = [f for f in fields if f not in x.fields]
    for s_ in ex.side:
        label, cond, goal = s_
        obls.append(Obligation(f"{base}/{label}", "call-pre", list(ex.bg) + list(cond) + [z3.Not(goal)]))
    v.functions_under_contract[adapter_cls + ".assemble_aoef"] = "executed"
    v.functions_under_contract[adapter_cls + ".assemble_soundevent"] = "executed"
    return obls, unmodelled


def collection_roundtrip(v, tname, dcls, acls, prop="C01", label_fields=()):
    """y.f == x.f for the collection's OWN fields: the real to_aoef then the real to_soundevent of the collection adapter,
    sub-adapter calls under the base-class contract (objects by identity; their content is their adapters' obligation)."""
    from pyvc.calls import instantiate
    handlers = dict(v.handlers)
    m_ad, _, _ = v.repo.class_def(acls)
    direct = {}    # adapter ident -> the collection's own list whose elements a loop registers with it, in order
    xbox = []
    for d2, a2 in ADAPTER_OF.items():
        base_to_aoef = handlers[f"method:{a2}.to_aoef"]

        def to_aoef(ex, p, args, kw, node, base_to_aoef=base_to_aoef):
            selfv, e = args
            if ex.index_ctx and isinstance(e, Obj) and "uuid" in e.fields and xbox:
                i = ex.index_ctx[-1]
                for fname, fval in xbox[0].fields.items():
                    if isinstance(fval, Lst) and not fval.concrete:
                        el = fval.at(i)
                        if isinstance(el, Obj) and "uuid" in el.fields and el.fields["uuid"].t.eq(e.fields["uuid"].t):
                            direct.setdefault(selfv.ident, (fname, fval))
            return base_to_aoef(ex, p, args, kw, node)
        handlers[f"method:{a2}.to_aoef"] = to_aoef

        def to_soundevent(ex, p, args, kw, node, d2=d2, a2=a2):
            selfv, a = args
            if isinstance(a, Obj) and "uuid" in a.fields and d2 != TAG:
                return [(p, Obj(d2, {"uuid": a.fields["uuid"]}))]
            return [(p, Obj(d2, {"uuid": Opq("UUID", ex.fresh_sym(UUID, "loaded", node))}))]

        def values(ex, p, args, kw, node, a2=a2):
            if args[0].ident in direct:
                # base-class contract: values() lists the store in insertion order; the only registrations with this adapter
                # come from the loop over the collection's own list (distinct identifiers assumed), so it is that list's image
                fname, src = direct[args[0].ident]
                ex.trace["assumed"].add("top-level lists hold objects with pairwise distinct identifiers (values() de-duplicates)")
                return [(p, Lst(n=src.n, at=lambda i, src=src: Obj("verif.DocItem", {"uuid": src.at(i).fields["uuid"]})))]
            # otherwise the document's list for this adapter: opaque items (their content is not this obligation's subject)
            n = ex.fresh_sym(z3.IntSort(), "nvals", node)
            ex.bg.append(n >= 0)
            return [(p, Lst(n=n, at=lambda i: Obj("verif.DocItem", {"uuid": Opq("UUID", z3.Function("docitem_" + a2.rsplit(".", 1)[1], z3.IntSort(), UUID)(i))})))]
        handlers[f"method:{a2}.to_soundevent"] = to_soundevent
        handlers[f"method:{a2}.values"] = values
    for _, dq, _ in [(0, d, 0) for d in [c[1] for c in __import__("props.aoef_common", fromlist=["COLLECTIONS"]).COLLECTIONS]]:
        handlers[dq] = (lambda dq: (lambda ex_, p_, args_, kw_, node_: construct_model(ex_, p_, dq, kw_, node_, run_validators=False)))(dq)
    bg = []
    ex = Exec(v.repo, m_ad, handlers, v.inline, "R", True, 300, bg, None, v.trace)
    (p, top), = instantiate(ex, acls, [], {}, Path([], {}, None, {}), None)
    sb = StubBuilder(v.repo, stub_resolver(v.repo))
    x = SymBuilder.make_obj(sb, dcls, "x", ())
    xbox.append(x)
    bg += sb.wf
    p = Path(list(p.cond) + simple_term_facts(ex, v, x, p, "x", any_terms=bool(label_fields)), p.env, None, p.heap)
    ex.guard_base = len(p.cond)
    base = f"{prop}/collection/{tname}/own-fields"
    obls = []
    fm, fn_save, _, fq = v.repo.find_method(acls, "to_aoef")
    fm2, fn_load, _, fq2 = v.repo.find_method(acls, "to_soundevent")
    mark = len(ex.outcomes)
    saved = ex.call_repo_function(fm, fn_save, [top, x], {}, p, qual=fq + ".to_aoef", cls=fq)
    n_paths = 0
    fields = [f["name"] for f in v.repo.class_fields(dcls)]
    for q, doc in saved:
        loaded = ex.call_repo_function(fm2, fn_load, [top, doc], {}, q, qual=fq2 + ".to_soundevent", cls=fq2)
        for q2, y in loaded:
            n_paths += 1
            if n_paths == 1:
                obls.append(Obligation(f"{base}/cover#1", "cover", list(ex.bg) + q2.cond, expect="sat", inputs={"x": x}))
            for f in fields:
                if f not in x.fields or (label_fields and f not in label_fields):
                    continue
                if label_fields:
                    goal = eq(by_label(y.fields[f]), by_label(x.fields[f])) if isinstance(y, Obj) and f in y.fields else z3.BoolVal(False)
                else:
                    goal = eq(y.fields[f], x.fields[f]) if isinstance(y, Obj) and f in y.fields else z3.BoolVal(False)
                obls.append(Obligation(f"{base}/field-{f}#{n_paths}", "post", list(ex.bg) + q2.cond + [z3.Not(goal)], meta=dict(field=f)))
    for o in ex.outcomes[mark:]:
        if o.kind == "raise":
            obls.append(Obligation(f"{base}/raises-{o.exc}@L{o.line}", "exc", list(ex.bg) + o.cond))
    if n_paths == 0:
        obls.append(Obligation(f"{base}/returns", "post", [z3.BoolVal(True)]))
    return obls


def load_side_obligations(v, adapter_cls, aoef_cls, accepts, prop="C04"):
    """AOEF loading as a construction path: the REAL assemble_soundevent on an ARBITRARY stored object (nothing assumed about its
    numbers or references) -- every normal return must satisfy `accepts(ex, y, path)` (a z3 Bool: the class invariant), i.e. a stored
    object that violates the invariant cannot be loaded."""
    m_ad, c_ad, _ = v.repo.class_def(adapter_cls)
    bg = []
    ex = Exec(v.repo, m_ad, v.handlers, v.inline, "R", True, 300, bg, None, v.trace)
    p, inst = adapter_heap(v, ex)
    selfv = inst[adapter_cls]
    sb = StubBuilder(v.repo, stub_resolver(v.repo))
    a = SymBuilder.make_obj(sb, aoef_cls, "stored", ())
    bg += sb.wf
    short = adapter_cls.rsplit(".", 1)[1]
    base = f"{prop}/aoef-load/{short}"
    fm, fn_load, _, fq = v.repo.find_method(adapter_cls, "assemble_soundevent")
    loaded = ex.call_repo_function(fm, fn_load, [selfv, a], {}, p, qual=fq + ".assemble_soundevent", cls=fq)
    obls = []
    for k, (q, y) in enumerate(loaded):
        goal = accepts(ex, y, q)
        obls.append(Obligation(f"{base}/loaded-object-satisfies-the-invariant#{k + 1}", "post", list(ex.bg) + q.cond + [z3.Not(goal)],
                               inputs={"stored": a}, meta=dict(adapter=short)))
        obls.append(Obligation(f"{base}/cover-load#{k + 1}", "cover", list(ex.bg) + q.cond, expect="sat", inputs={"stored": a}))
    if not loaded:
        obls.append(Obligation(f"{base}/cover-load", "cover", [z3.BoolVal(False)], expect="sat"))
    v.functions_under_contract[adapter_cls + ".assemble_soundevent"] = "executed"
    return obls
