"""Shared driver helpers."""
from pyvc.contract import Verifier
from pyvc.calls import BUILTINS


def new_verifier(numeric=None):
    v = Verifier(numeric=numeric)
    for nm in ("forall", "exists", "implies", "distinct"):
        v.handlers["contracts._rt." + nm] = BUILTINS[nm]
    return v
