"""Shared driver helpers."""
from pyvc.contract import Verifier
from pyvc.calls import BUILTINS


def new_verifier(numeric=None):
    v = Verifier(numeric=numeric)
    for nm in ("forall", "exists", "implies", "distinct"):
        v.handlers["contracts._rt." + nm] = BUILTINS[nm]
    return v


def with_models(v):
    """pydantic construction contract + stdlib assumed contracts."""
    from pyvc.models import construct
    from pyvc.externals import STDLIB
    from pyvc.ann import make_resolver
    v.handlers["construct:*"] = construct
    v.handlers.update(STDLIB)
    v.ann_resolver = make_resolver(v.repo)
    return v
