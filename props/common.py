"""Shared driver helpers."""
from pyvc.contract import Verifier
from pyvc.calls import BUILTINS


def new_verifier(numeric=None):
    v = Verifier(numeric=numeric)
    for nm in ("forall", "exists", "implies", "distinct"):
        v.handlers["contracts._rt." + nm] = BUILTINS[nm]
    return v


def with_models(v):
    """pydantic construction contract + stdlib assumed contracts."""
    from pyvc.models import construct
    from pyvc.externals import STDLIB
    from pyvc.ann import make_resolver
    v.handlers["construct:*"] = construct
    v.handlers.update(STDLIB)
    v.ann_resolver = make_resolver(v.repo)
    return v


def task(v, label, f):
    """(label, fn) for Session.attempt_all; fn.ver lets the worker report which functions/assumptions it used"""
    f.ver = v
    return (label, f)


def opaque_geometry_specs(v):
    """Spec functions of contracts.geometry on *opaque* geometries (C12, C06, positions of C05): uninterpreted
    bounds / validity; on modelled geometry objects the real spec text is inlined."""
    import z3
    from pyvc.values import Tup, Num, Bool, Opq, opaque_sort
    GS = opaque_sort("Geometry")
    B = [z3.Function(f"bounds_{k}", GS, z3.RealSort()) for k in range(4)]
    VALID = z3.Function("valid_geometry", GS, z3.BoolSort())

    def inline(ex, name, args, p):
        m = v.repo.module("contracts.geometry")
        return ex.call_repo_function(m, m.defs[name], args, {}, p, qual="contracts.geometry." + name)

    def bounds_of(ex, p, args, kw, node):
        g = args[0]
        if isinstance(g, Opq):
            return [(p, Tup([Num(f(g.t)) for f in B]))]
        return v.handlers["contracts.geometry.bounds_of#obj"](ex, p, args, kw, node)

    def is_bounds(ex, p, args, kw, node):
        b, g = args
        if isinstance(g, Opq):
            return [(p, Bool(z3.And([b.items[k].real() == B[k](g.t) for k in range(4)])))]
        return inline(ex, "is_bounds", args, p)

    def valid_geometry(ex, p, args, kw, node):
        g = args[0]
        if isinstance(g, Opq):
            # assumed about opaque geometries (a consequence of C03 validity and the C05 bounds contract, not re-proved here):
            # the bounds of a valid geometry are ordered and lie in the time / frequency domain -- keeps counter-models realistic
            b = [f(g.t) for f in B]
            ex.bg_local(p, [z3.Implies(VALID(g.t), z3.And(b[0] >= 0, b[0] <= b[2], b[1] >= 0, b[1] <= b[3], b[3] <= 5_000_000))])
            ex.trace["assumed"].add("opaque geometries: a valid geometry's bounds are ordered and inside the domain (C03 + C05)")
            return [(p, Bool(VALID(g.t)))]
        return inline(ex, "valid_geometry", args, p)

    from pyvc.values import Str, StrSort
    TYPE = z3.Function("geometry_type", GS, StrSort)
    v.handlers["attr:Geometry.type"] = lambda ex, p, args, kw, node: [(p, Str(t=TYPE(args[0].t)))]
    v.handlers["contracts.geometry.bounds_of"] = bounds_of
    v.handlers["contracts.geometry.is_bounds"] = is_bounds
    v.handlers["contracts.geometry.valid_geometry"] = valid_geometry
    return v


def some_shape(ex, p, args, kw, node):
    """geometry_to_shapely at a call site where only the existence of the shapely object matters"""
    from pyvc.values import Opq
    from pyvc.shapely_model import SHAPE
    ex.trace["assumed"].add("geometry_to_shapely returns some shapely geometry (its view is not used at this call site)")
    return [(p, Opq("Shape", ex.fresh_sym(SHAPE, "shp", node), {}))]
