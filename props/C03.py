"""C03 — geometry validation accepts exactly the valid geometries and normalises them."""
from props.common import new_verifier, with_models

NAMES = ["NewTimeStamp", "NewTimeInterval", "NewPoint", "NewBoundingBox", "NewLineString", "NewPolygon",
         "NewMultiPoint", "NewMultiLineString", "NewMultiPolygon"]


def run(s):
    v = with_models(new_verifier())
    s.ver = v
    v.load_contracts("contracts.geometry")
    for cn in NAMES:
        s.attempt(cn, lambda cn=cn: v.verify(cn, "C03"))
    # geometry_validate: dict and attribute modes, per type tag (coordinates symbolic), plus an unknown tag
    from pyvc.values import Dct, Str, Obj
    for cn in NAMES:
        c = v.contracts[cn]
        tag = c.target.split(":")[1]
        spec = c.types["coordinates"]
        for mode in ("dict", "attributes"):
            def mk(sb, tag=tag, spec=spec, mode=mode):
                coords = sb.make(spec, "coordinates")
                if mode == "dict":
                    return Dct([(Str("type"), Str(tag)), (Str("coordinates"), coords)])
                return Obj("verif.AttributeObject", {"type": Str(tag), "coordinates": coords})
            s.attempt(f"geometry_validate[{tag},{mode}]", lambda mk=mk, mode=mode, tag=tag: v.verify(
                "GeometryValidate", "C03", fixed={"obj": mk, "mode": Str(mode)}, tag=f"[{tag},{mode}]"))
    bad = Dct([(Str("type"), Str("Circle")), (Str("coordinates"), Str("x"))])
    s.attempt("geometry_validate[unknown tag]", lambda: v.verify("GeometryValidate", "C03", fixed={"obj": bad, "mode": Str("dict")}, tag="[unknown-tag]"))
    s.attempt("tables", lambda: tables(s, v))
    s.min_obligations = 100
    s.discharge_all()
    s.triage()
    s.standin("geometry_entry_points")
    s.trusted |= {"pydantic v2 construction contract (DESIGN.md 4.3): field validators run in definition order on the "
                  "type-coerced value; ValueError/AssertionError become ValidationError; model_validate == constructor",
                  "json.loads / model_dump_json identity on numeric structures (checked by the stand-in only)"}


def tables(s, v):
    """type tags pairwise distinct; GEOMETRY_MAPPING sends each tag to the class declaring it (from the ASTs)"""
    from pyvc.symex import Exec, Path
    from pyvc.values import Dct, Str, Fn
    m = v.repo.module("soundevent.data.geometries")
    ex = Exec(v.repo, m, v.handlers, v.inline, "R", False)
    mapping = ex.global_name("GEOMETRY_MAPPING", None)
    ok = isinstance(mapping, Dct) and len(mapping.pairs) == 9
    tags = [k.c for k, _ in mapping.pairs] if ok else []
    s.table("nine-distinct-type-tags", ok and len(set(tags)) == 9, str(tags))
    for k, cls in (mapping.pairs if ok else []):
        own = {f["name"]: f for f in v.repo.class_fields(cls.data)}["type"]["default"].value
        s.table(f"mapping[{k.c}]", isinstance(cls, Fn) and cls.kind == "class" and own == k.c and cls.data.endswith("." + k.c), f"{k.c} -> {cls.data}")
    maxf = ex.global_name("MAX_FREQUENCY", None)
    cm = v.repo.module("contracts.geometry")
    import ast
    s.table("MAX_FREQUENCY-matches-spec", ast.literal_eval(cm.assigns["MAX_FREQUENCY"]) == ast.literal_eval(m.assigns["MAX_FREQUENCY"]), "")
    return []
