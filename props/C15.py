"""C15 — audio-derived arrays are sample-accurate and their axes tell the truth."""
import z3

from props.common import new_verifier, with_models, task
from props.C16 import setup as setup16, arr_fixed
from pyvc.array_model import make_dataarray, DATUM
from pyvc.contract import Obligation
from pyvc.repo import Unsupported
from pyvc.values import Opq, Obj, Str, Num, Bool, Tup, Lst, Dct, NDArr, NONE, opaque_sort, fresh_name, eq


def setup():
    v = setup16()
    v.load_contracts("contracts.audio")
    v.use("CreateTimeRange")
    calls = []
    v.audio_calls = calls

    def load_audio(ex, p, args, kw, node):
        """assumed (soundfile / libsndfile): seek(offset) then read(frames=samples, always_2d, fill_value=0) returns exactly
        `samples` rows x channels, the file's frames from `offset` on, zero-filled past the end"""
        offset, samples = kw.get("offset", Num(0)), kw.get("samples", NONE)
        calls.append((p, args, kw))
        ex.trace["assumed"].add("soundfile: read(frames=n, fill_value=0) returns exactly n frames from the seek position, zero-filled past EOF")
        rows = samples.t if isinstance(samples, Num) else z3.Int(fresh_name("file_frames"))
        data_ = Opq("Samples", z3.Const(fresh_name("samples"), opaque_sort("Samples")), dict(rows=rows, channels=z3.Int("channels"), offset=offset, samples=samples))
        return [(p, Tup([data_, Num(z3.Int("file_samplerate"))]))]

    def samples_shape(ex, p, args, kw, node):
        m = args[0].meta
        return [(p, Tup([Num(m["rows"]), Num(m["channels"])]))]

    def xr_dataarray(ex, p, args, kw, node):
        """assumed: xr.DataArray(data, dims, coords) raises unless each dimension's length equals its coordinate's length"""
        data_, dims, coords = kw["data"], kw["dims"], kw["coords"]
        ex.trace["assumed"].add("xarray.DataArray(data, dims, coords) raises unless every dimension's length equals its coordinate's")
        tcoord = ex.index(coords, Str("time"), p, node)[0][1]      # an xarray.Variable (Obj) with .data / .attrs
        tdata = tcoord.fields["data"]
        k = [d.c for d in dims.items].index("time")
        if isinstance(data_, Opq) and data_.kind == "Samples":
            rows = data_.meta["rows"]
        elif isinstance(data_, Opq) and "time_len" in data_.meta:
            rows = data_.meta["time_len"]
        else:
            raise Unsupported("DataArray data")
        ok = rows == tdata.n
        ex.emit_raise(p, "CoordinateValidationError", node, extra=z3.Not(ok))
        out_coords = [(Str("time"), Obj("xarray.Coord", {"data": tdata, "attrs": tcoord.fields["attrs"]}))]
        for d in dims.items:
            if d.c != "time":
                c = ex.index(coords, d, p, node)[0][1]
                out_coords.append((d, Obj("xarray.Coord", {"data": c.fields["data"], "attrs": c.fields["attrs"]}) if isinstance(c, Obj) and "data" in c.fields else Obj("xarray.Coord", {"data": NONE, "attrs": Dct([])})))
        return [(p.fork(ok), Obj("xarray.DataArray", {"dims": dims, "sizes": Dct([(Str("time"), Num(rows))]), "coords": Dct(out_coords), "data": data_}))]

    def np_floor(ex, p, args, kw, node):
        p, x = ex.as_num(args[0], p, node)
        ex.trace["assumed"].add("numpy.floor / math.floor: greatest integer <= x")
        return [(p, Num(z3.ToReal(z3.ToInt(x.real()))))]

    v.handlers["soundevent.audio.io.load_audio"] = load_audio
    v.handlers["attr:Samples.shape"] = samples_shape
    v.handlers["xarray.DataArray"] = xr_dataarray
    v.handlers["numpy.floor"] = np_floor
    v.handlers["str"] = lambda ex, p, args, kw, node: [(p, Str(t=z3.Const(fresh_name("strof"), __import__("pyvc.values", fromlist=["StrSort"]).StrSort)))]
    # ---- spectrogram side: scipy.signal.stft contract
    def stft(ex, p, args, kw, node):
        """assumed (confirmed in the installed scipy): frequencies f_k = k * fs / nperseg, k = 0..nperseg//2; times
        t_i = i * (nperseg - noverlap) / fs"""
        fs, nperseg, noverlap = kw["fs"], kw["nperseg"], kw["noverlap"]
        ex.trace["assumed"].add("scipy.signal.stft: f_k = k*fs/nperseg, t_i = i*(nperseg-noverlap)/fs")
        nt, nf = z3.Int(fresh_name("n_frames")), nperseg.t / 2 + 1
        ex.bg.append(nt >= 1)
        hop = (nperseg.real() - noverlap.real()) / fs.real()
        freqs = NDArr(nf, lambda k: Num(z3.ToReal(k) * fs.real() / nperseg.real()), "float64")
        times = NDArr(nt, lambda i: Num(z3.ToReal(i) * hop), "float64")
        spec = Opq("Spec", z3.Const(fresh_name("spec"), opaque_sort("Spec")), dict(time_len=nt))
        return [(p, Tup([freqs, times, spec]))]

    def passthrough(ex, p, args, kw, node):
        return [(p, args[0])]

    def da_attr(name):
        def h(ex, p, args, kw, node):
            m = args[0].meta
            if name == "time":
                return [(p, Obj("xarray.Coord", {"data": m["coords"], "attrs": m["attrs"]}))]
            if name == "attrs":
                return [(p, Dct([]))]
            if name == "channel":
                return [(p, Obj("xarray.Variable", {"data": NONE, "attrs": Dct([])}))]
            raise Unsupported(name)
        return h
    v.handlers["scipy.signal.stft"] = stft
    v.handlers["numpy.abs"] = passthrough
    v.handlers["numpy.swapaxes"] = passthrough
    v.handlers["op:**"] = lambda ex, p, args, kw, node: [(p, args[0])]
    v.handlers["method:DataArray.get_axis_num"] = lambda ex, p, args, kw, node: [(p, Num(0))]
    for nm in ("time", "attrs", "channel"):
        v.handlers["attr:DataArray." + nm] = da_attr(nm)
    v.inline |= {"soundevent.arrays.dimensions." + f for f in ("create_time_dim_from_array", "create_frequency_dim_from_array")}
    return v


def soundfile_model(v):
    """assumed contract of soundfile.SoundFile (libsndfile): .frames / .samplerate are functions of the file; seek(k) needs
    0 <= k <= frames (seeking past the end raises) and sets the read position; read(frames=n, always_2d=True, fill_value=0)
    returns the frames from the position on -- n of them zero-filled past the end, all remaining ones for n < 0"""
    from pyvc.values import Ref
    PATH = opaque_sort("AudioPath")
    NFR = z3.Function("file_frames", PATH, z3.IntSort())
    SR = z3.Function("file_samplerate", PATH, z3.IntSort())
    FR = z3.Function("file_frames_from", PATH, z3.IntSort(), z3.IntSort(), opaque_sort("Samples"))
    CLS = "soundfile.SoundFile"
    ids = __import__("itertools").count(50_000)

    def note(ex):
        ex.trace["assumed"].add("soundfile.SoundFile: frames / samplerate of the file; seek within [0, frames]; read(n, fill_value=0) = the frames from the position, zero-filled")

    def opened(ex, p, args, kw, node):
        note(ex)
        ref = Ref(next(ids), CLS)
        heap = dict(p.heap or {})
        heap[ref.ident] = {"_path": args[0], "_pos": Num(0), "frames": Num(NFR(args[0].t)), "samplerate": Num(SR(args[0].t))}
        ex.bg.append(NFR(args[0].t) >= 0)
        return [(p.with_heap(heap), ref)]

    def attr(which):
        def h(ex, p, args, kw, node):
            path = (p.heap or {})[args[0].ident]["_path"]
            return [(p, Num((NFR if which == "frames" else SR)(path.t)))]
        return h

    def seek(ex, p, args, kw, node):
        selfv, k = args[0], args[1]
        path = (p.heap or {})[selfv.ident]["_path"]
        p, kn = ex.as_num(k, p, node)
        ex.side.append((f"soundfile-seek-within-the-file@{ex.module.name}:{getattr(node, 'lineno', 0)}", list(p.cond),
                        z3.And(kn.t >= 0, kn.t <= NFR(path.t))))
        return [(p.heap_set(selfv.ident, "_pos", kn), kn)]

    def read(ex, p, args, kw, node):
        selfv = args[0]
        st = (p.heap or {})[selfv.ident]
        n = kw.get("frames", args[1] if len(args) > 1 else Num(-1))
        a2d, fill = kw.get("always_2d"), kw.get("fill_value")
        ok = (isinstance(a2d, Bool) and z3.is_true(z3.simplify(a2d.t)) and isinstance(fill, Num) and z3.is_true(z3.simplify(fill.real() == 0)))
        if not ok:
            raise Unsupported("SoundFile.read without always_2d=True, fill_value=0")
        return [(p, Opq("Samples", FR(st["_path"].t, st["_pos"].t, n.t), dict(rows=n.t, channels=z3.Int("channels"))))]
    v.handlers[CLS] = opened
    v.handlers[f"method:{CLS}.seek"] = seek
    v.handlers[f"method:{CLS}.read"] = read
    # the specification's own view of the file
    v.handlers["contracts.audio.frames_in_file"] = lambda ex, p, args, kw, node: [(p, Num(NFR(args[0].t)))]
    v.handlers["contracts.audio.samplerate_of_file"] = lambda ex, p, args, kw, node: [(p, Num(SR(args[0].t)))]
    v.handlers["contracts.audio.frames_from"] = lambda ex, p, args, kw, node: [(p, Opq("Samples", FR(args[0].t, ex.as_num(args[1], p, node)[1].t, ex.as_num(args[2], p, node)[1].t)))]
    v.handlers["contracts.audio.same_frames"] = lambda ex, p, args, kw, node: [(p, Bool(args[0].t == args[1].t))]
    return v


def load_audio_obligations():
    """the real load_audio against the soundfile contract (a separate verifier: in `setup` load_audio itself is replaced by its contract)"""
    v = with_models(new_verifier())
    v.load_contracts("contracts.audio")
    soundfile_model(v)
    return v, (lambda: v.verify("LoadAudio", "C15"))


def wiring_obligations(v):
    """load_clip hands load_audio offset = floor(start x samplerate) and samples = floor(duration x samplerate)"""
    from pyvc.symex import Exec, Path
    from pyvc.sym import SymBuilder
    m, fnode, _ = v.repo.function("soundevent.audio.io:load_clip")
    sb = SymBuilder(v.repo, v.ann_resolver)
    clip = sb.make("Obj:soundevent.data.clips.Clip", "clip")
    del v.audio_calls[:]
    ex = Exec(v.repo, m, v.handlers, v.inline, "R", True, 300, list(sb.wf), None, v.trace)
    sr = clip.fields["recording"].fields["samplerate"]
    pre = [sr.t >= 1, clip.fields["start_time"].t >= 0, clip.fields["start_time"].t <= clip.fields["end_time"].t]
    ex.run_body(fnode, Path(pre, {"clip": clip, "audio_dir": NONE}))
    obls = []
    goal = z3.BoolVal(False)
    if len(v.audio_calls) == 1:
        p, args, kw = v.audio_calls[0]
        off = z3.ToInt(clip.fields["start_time"].real() * sr.real())
        n = z3.ToInt((clip.fields["end_time"].real() - clip.fields["start_time"].real()) * sr.real())
        goal = z3.And(kw["offset"].t == off, kw["samples"].t == n, eq(args[0], clip.fields["recording"].fields["path"]))
        obls.append(Obligation("C15/audio.io.load_clip/reads-floor(start*sr)-for-floor(duration*sr)-frames-from-the-recording-path", "post",
                               list(ex.bg) + p.cond + [z3.Not(goal)]))
    else:
        obls.append(Obligation("C15/audio.io.load_clip/one-read", "post", [z3.BoolVal(True)]))
    return obls


def run(s):
    v = setup()
    s.ver = v
    T = Str("time")
    STEP = Num(z3.Real("audio_step"))
    tasks = [task(v, "load_clip", lambda: v.verify("LoadClip", "C15", fixed={"audio_dir": NONE})),
             task(v, "load_clip-wiring", lambda: wiring_obligations(v)),
             task(v, "lemma_resample_drift", lambda: v.lemma("resample-coordinates-within-one-advertised-step", "contracts.audio", "lemma_resample_drift",
                                                              dict(n="int", ratio="float", i="int"), "C15")),
             task(v, "compute_spectrogram", lambda: v.verify("ComputeSpectrogram", "C15", fixed={"audio": arr_fixed("audio", with_step=STEP), "window_type": Str("hann"),
                                                                                                  "detrend": NONE, "padded": NONE, "boundary": NONE},
                                                             extra_pre=lambda vals: STEP.t > 0))]
    va, gen = load_audio_obligations()
    tasks.append(task(va, "load_audio", gen))
    s.attempt_all(tasks)
    s.min_obligations = 8
    s.discharge_all()
    s.triage()
    s.standin("audio_files")
    s.level = "other"
    s.explanation = ("Proved (deductive, mode R, relative to the soundfile / scipy / xarray / numpy contracts): load_audio seeks to min(offset, frames) -- never "
                     "beyond the file -- and returns read(samples, zero fill) from there with the file's sample rate; load_clip reads floor(start x sr) "
                     "for floor(duration x sr) frames from the recording's path, its time axis has exactly that many points (else the xarray "
                     "constructor would raise) and frame i carries (offset + i)/sr with step 1/sr; the resample drift lemma (coordinates within one "
                     "advertised step for every i); compute_spectrogram's time axis starts at the source's start and equals first + i x the "
                     "advertised step, the frequency axis k x advertised step. Bounded (stand-in audio_files, the only evidence for the file-reading "
                     "part): frames equal the file's frames, zero fill past EOF, channels, time expansion, load_recording, real scipy axes.")
    s.trusted |= {"soundfile/libsndfile read contract", "scipy.signal.stft and resample time vectors", "xarray.DataArray size check", "numpy.floor; floats read as reals (mode R)"}
