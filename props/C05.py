"""C05 — bounds, geometric features and anchor points agree with the coordinates."""
import z3

from props.common import new_verifier, with_models, task, opaque_geometry_specs
from pyvc.shapely_model import SHAPELY
from pyvc.values import Tup, Num, Str, Obj, Opq

G = "soundevent.data.geometries."
TYPES = ["TimeStamp", "TimeInterval", "BoundingBox", "Point", "LineString", "Polygon", "MultiPoint", "MultiLineString", "MultiPolygon"]
CONV = ["time_stamp_to_shapely", "time_interval_to_shapely", "point_to_shapely", "linestring_to_shapely", "polygon_to_shapely",
        "bounding_box_to_shapely", "multipoint_to_shapely", "multilinestring_to_shapely", "multipolygon_to_shapely", "geometry_to_shapely"]
FEATS = ["_compute_time_stamp_features", "_compute_time_interval_features", "_compute_bounding_box_features", "_compute_point_features",
         "_compute_line_string_features", "_compute_polygon_features", "_compute_multi_point_features",
         "_compute_multi_linestring_features", "_compute_multi_polygon_features"]


def spec_bounds_handler(v):
    """bounds_of(geometry) in specs: a fresh b with is_bounds(b, geometry) (definitional for valid geometries)"""
    def h(ex, p, args, kw, node):
        g = args[0]
        b = Tup([Num(ex.fresh_sym(z3.RealSort(), f"specb{k}", node)) for k in range(4)])
        m = v.repo.module("contracts.geometry")
        from pyvc.symex import Path
        isb = v.pred_node(ex, m, m.defs["is_bounds"], dict(b=b, geometry=g), Path(p.cond))
        valid = v.pred_node(ex, m, m.defs["valid_geometry"], dict(geometry=g), Path(p.cond))
        ex.bg_local(p, [isb], guard=valid)
        return [(p, b)]
    return h


def setup(v):
    v.load_contracts("contracts.geometry")
    v.handlers.update(SHAPELY)
    v.inline |= {"soundevent.geometry.conversion." + f for f in CONV}
    v.inline |= {"soundevent.geometry.features." + f for f in FEATS}
    opaque_geometry_specs(v)
    v.handlers["contracts.geometry.bounds_of#obj"] = spec_bounds_handler(v)
    return v


def run(s):
    v = setup(with_models(new_verifier()))
    s.ver = v
    import ast
    cm = v.repo.module('contracts.geometry')
    ALL_POSITIONS = ast.literal_eval(cm.assigns['BOX_POSITIONS']) + ['centroid', 'point_on_surface']
    tasks = []
    for t in TYPES:
        ty = {"geometry": "Obj:" + G + t, "geom": "Obj:" + G + t}
        tasks.append(task(v, f"geometry_to_shapely[{t}]", lambda ty=ty, t=t: v.verify("GeometryToShapely", "C05", types=ty, tag=f"[{t}]")))
        tasks.append(task(v, f"compute_bounds[{t}]", lambda ty=ty, t=t: v.verify("ComputeBounds", "C05", types=ty, tag=f"[{t}]")))
    # features: the feature functions read `geometry_to_shapely(g).bounds`, which is literally the body of
    # compute_bounds; its proven postcondition (C05/compute_bounds[T]: the result is the unique b with
    # is_bounds(b, g)) and the proven view (C05/geometry_to_shapely[T]: members = len(coordinates)) are used here
    v3 = setup(with_models(new_verifier()))
    v3.inline -= {"soundevent.geometry.conversion.geometry_to_shapely"}
    cache = {}

    def origin_shape(ex, p, args, kw, node):
        from pyvc.shapely_model import SHAPE
        return [(p, Opq("Shape", ex.fresh_sym(SHAPE, "shp", node), {"origin": args[0]}))]

    def origin_bounds(ex, p, args, kw, node):
        g = args[0].meta["origin"]
        if id(g) not in cache:
            cache[id(g)] = v3.handlers["contracts.geometry.bounds_of#obj"](ex, p, [g], {}, node)[0][1]
        ex.trace["assumed"].add("lemma: geometry_to_shapely(g).bounds == bounds_of(g) (proved as C05/compute_bounds[T])")
        return [(p, cache[id(g)])]

    def origin_geoms(ex, p, args, kw, node):
        g = args[0].meta["origin"]
        ex.trace["assumed"].add("lemma: len(geometry_to_shapely(g).geoms) == len(g.coordinates) (from C05/geometry_to_shapely[T])")
        return [(p, g.fields["coordinates"])]

    def spec_bounds_cached(ex, p, args, kw, node):
        g = args[0]
        if id(g) not in cache:
            cache[id(g)] = spec_bounds_handler(v3)(ex, p, [g], {}, node)[0][1]
        return [(p, cache[id(g)])]
    v3.handlers["soundevent.geometry.conversion.geometry_to_shapely"] = origin_shape
    v3.handlers["attr:Shape.bounds"] = origin_bounds
    v3.handlers["attr:Shape.geoms"] = origin_geoms
    v3.handlers["contracts.geometry.bounds_of#obj"] = spec_bounds_cached
    for t in TYPES:
        ty = {"geometry": "Obj:" + G + t}
        tasks.append(task(v3, f"compute_geometric_features[{t}]", lambda ty=ty, t=t: v3.verify("ComputeGeometricFeatures", "C05", types=ty, tag=f"[{t}]")))
    # anchor points: the geometry stays opaque (compute_bounds / geometry_to_shapely through their contracts), so one
    # obligation family per named position covers all nine types
    v2 = setup(with_models(new_verifier()))
    v2.inline -= {"soundevent.geometry.conversion.geometry_to_shapely"}
    v2.use("ComputeBounds")

    def some_shape(ex, p, args, kw, node):
        from pyvc.values import Opq
        from pyvc.shapely_model import SHAPE
        return [(p, Opq("Shape", ex.fresh_sym(SHAPE, "shp", node), {}))]
    v2.handlers["soundevent.geometry.conversion.geometry_to_shapely"] = some_shape
    for pos in ALL_POSITIONS + ["middle"]:
        tasks.append(task(v2, f"get_geometry_point[{pos}]", lambda pos=pos: v2.verify(
            "GetGeometryPoint", "C05", fixed={"position": Str(pos)}, tag=f"[{pos}]")))
    s.attempt_all(tasks)
    s.attempt("tables", lambda: tables(s, v))
    s.min_obligations = 60
    s.discharge_all()
    s.triage()
    s.standin("geometry_measures")
    s.trusted |= {"shapely view contract (pyvc/shapely_model.py): constructors store coordinates; box corner order; rings closed; "
                  ".bounds = min/max over coordinates (polygon: shell); len(.geoms) = member count",
                  "centroid / point_on_surface inside the bounds: GEOS, bounded stand-in only"}


def tables(s, v):
    """_COMPUTE_FEATURES: the nine type tags, each mapped to its own feature function (from the ASTs)"""
    from pyvc.symex import Exec
    from pyvc.values import Dct, Fn
    m = v.repo.module("soundevent.geometry.features")
    ex = Exec(v.repo, m, v.handlers, v.inline, "R", False)
    table = ex.global_name("_COMPUTE_FEATURES", None)
    want = dict(TimeStamp="_compute_time_stamp_features", TimeInterval="_compute_time_interval_features",
                BoundingBox="_compute_bounding_box_features", Point="_compute_point_features",
                LineString="_compute_line_string_features", Polygon="_compute_polygon_features",
                MultiPoint="_compute_multi_point_features", MultiLineString="_compute_multi_linestring_features",
                MultiPolygon="_compute_multi_polygon_features")
    got = {k.c: f.data.rsplit(".", 1)[1] for k, f in table.pairs} if isinstance(table, Dct) else {}
    s.table("_COMPUTE_FEATURES-keys", set(got) == set(want), str(sorted(got)))
    for k, fn in want.items():
        s.table(f"_COMPUTE_FEATURES[{k}]", got.get(k) == fn, f"{k} -> {got.get(k)}")
    return []
