"""Collection-level AOEF obligations (C01 items 3-5, C02 emission / order / exactness).

The REAL `to_aoef` / `to_soundevent` of each of the eight collection adapters is executed on a symbolic collection,
with the adapter object graph built by the real constructors.  Calls on DataAdapter instances are replaced by the
base-class contract with ghost effects, logged in program order:

  X.to_aoef(e)        may register objects in X and in every adapter reachable from X      -> event (bump, closure(X))
  X.values()          a snapshot of X's store as it is at that moment                       -> value Snapshot(X, seq)
  X.to_soundevent(a)  loads one object into X                                               -> event (load, X, source field)

Obligations (finite facts about the executed paths, kind `post`):
  emission     every DataAdapter reachable from the collection adapter ends up in a top-level field of the document,
               either as a values() snapshot taken AFTER the last event that can add to it (so a `values()` argument
               evaluated before a sibling argument that still converts objects fails), or as the converted list itself
               when nothing else can add to that adapter;
  load-order   on load, each adapter is populated after every adapter its `assemble_soundevent` looks objects up in,
               and from the same top-level field its store was saved to;
  scalar fields of the collection survive (checked by props/aoef_rt-style equality on the executed paths).
"""
import ast

import z3

from pyvc.contract import Obligation
from pyvc.models import construct_model
from pyvc.repo import Unsupported
from pyvc.symex import Exec, Path
from pyvc.values import (Opq, Opt, Str, Bool, Num, NONE, Obj, Ref, Fn, Dct, Lst, Tup, eq, opaque_sort, fresh_name)
from props.aoef_common import AOEF, COLLECTIONS
from props.aoef_rt import ADAPTER_OF, DATA_OF, StubBuilder, stub_resolver

SNAP = opaque_sort("Snapshot")


def is_data_adapter(v, cls):
    try:
        return any(q.endswith("adapters.DataAdapter") for _, _, q in v.repo.mro(cls))
    except Unsupported:
        return False


def closure(heap, ref, seen=None):
    seen = seen if seen is not None else {}
    if ref.ident in seen:
        return seen
    seen[ref.ident] = ref
    for val in heap.get(ref.ident, {}).values():
        if isinstance(val, Ref):
            closure(heap, val, seen)
    return seen


def aoef_class_of(v, adapter_cls):
    m, c, q = v.repo.class_def(adapter_cls)
    for b in c.bases:
        if isinstance(b, ast.Subscript):
            elts = b.slice.elts if isinstance(b.slice, ast.Tuple) else [b.slice]
            return v.repo.resolve(v.repo.qualify(m, elts[1]))[3]
    return None


def flow_handlers(v, log):
    """ghost-effect handlers; `log` collects (seq, kind, adapter ident, path-condition ids, extra)"""
    h = dict(v.handlers)
    counter = [0]

    def ids(p):
        return CUR_EX[0].event_path(p)
    CUR_EX = [None]

    for acls in set(ADAPTER_OF.values()):
        ocls = aoef_class_of(v, acls)

        def to_aoef(ex, p, args, kw, node, acls=acls, ocls=ocls):
            CUR_EX[0] = ex
            selfv = args[0]
            if not ex.replay:
                counter[0] += 1
                log.append(dict(seq=counter[0], kind="bump", who=selfv.ident, closure=set(closure(p.heap, selfv)), path=ids(p), line=getattr(node, "lineno", 0)))
            key = Opq("UUID", ex.fresh_sym(opaque_sort("UUID"), "key", node))
            return [(p, Obj(ocls, {"uuid": key, "id": Num(ex.fresh_sym(z3.IntSort(), "tid", node)), "__from": Num(selfv.ident)}))]

        def values(ex, p, args, kw, node, acls=acls):
            CUR_EX[0] = ex
            selfv = args[0]
            counter[0] += 1
            log.append(dict(seq=counter[0], kind="snapshot", who=selfv.ident, path=ids(p), line=getattr(node, "lineno", 0)))
            snap = Opq("Snapshot", ex.fresh_sym(SNAP, "snap", node), dict(who=selfv.ident, seq=counter[0]))
            return [(p, snap)]   # the representative case: the store is non-empty (an empty store gives None: nothing to emit)

        def to_soundevent(ex, p, args, kw, node, acls=acls):
            CUR_EX[0] = ex
            selfv, a = args
            if ex.replay:
                return [(p, Obj(DATA_OF.get(acls, "verif.Loaded"), {"uuid": Opq("UUID", ex.fresh_sym(opaque_sort("UUID"), "lk", node)), "__from": Num(selfv.ident)}))]
            counter[0] += 1
            src = a.fields.get("__field") if isinstance(a, Obj) else None
            log.append(dict(seq=counter[0], kind="load", who=selfv.ident, cls=acls, path=ids(p), field=src.c if isinstance(src, Str) else None))
            return [(p, Obj(DATA_OF.get(acls, "verif.Loaded"), {"uuid": Opq("UUID", ex.fresh_sym(opaque_sort("UUID"), "lk", node)), "__from": Num(selfv.ident)}))]

        def from_id(ex, p, args, kw, node, acls=acls):
            return [(p, Opt(z3.Bool(fresh_name("missing")), Obj(DATA_OF.get(acls, "verif.Loaded"), {"uuid": Opq("UUID", ex.fresh_sym(opaque_sort("UUID"), "fk", node))})))]
        h[f"method:{acls}.to_aoef"] = to_aoef
        h[f"method:{acls}.values"] = values
        h[f"method:{acls}.to_soundevent"] = to_soundevent
        h[f"method:{acls}.from_id"] = from_id
    return h


def symbolic_collection(v, dcls, name="obj"):
    sb = StubBuilder(v.repo, stub_resolver(v.repo))
    from pyvc.sym import SymBuilder
    x = SymBuilder.make_obj(sb, dcls, name, ())
    return x, sb.wf


NONEMPTY = []


def symbolic_document(v, ocls):
    """an AOEF document object: every list field a (possibly absent) symbolic list whose elements remember their field"""
    fields = {}
    for f in v.repo.class_fields(ocls):
        txt = ast.unparse(f["ann"])
        nm = f["name"]
        if "List[" in txt:
            n = z3.Int(fresh_name(f"doc_{nm}_len"))
            lst = Lst(n=n, at=lambda i, nm=nm: Obj("verif.DocItem", {"__field": Str(nm), "uuid": Opq("UUID", z3.Function(f"doc_{nm}_uuid", z3.IntSort(), opaque_sort("UUID"))(i))}), tag=("field", nm))
            fields[nm] = lst
            NONEMPTY.append(n > 0)    # the representative document: every top-level list present and non-empty
        elif nm == "collection_type":
            fields[nm] = Str(f["default"].value) if isinstance(f["default"], ast.Constant) else Str("?")
        elif "Dict[" in txt:
            fields[nm] = NONE
        elif "float" in txt:
            fields[nm] = Opt(z3.Bool(fresh_name(f"doc_{nm}_absent")), Num(z3.Real(fresh_name(f"doc_{nm}"))))
        elif "str" in txt:
            from pyvc.values import StrSort
            s_ = Str(t=z3.Const(fresh_name(f"doc_{nm}"), StrSort))
            fields[nm] = Opt(z3.Bool(fresh_name(f"doc_{nm}_absent")), s_) if "Optional" in txt else s_
        else:
            kind = "UUID" if "UUID" in txt else "DateTime"
            val = Opq(kind, z3.Const(fresh_name(f"doc_{nm}"), opaque_sort(kind)))
            fields[nm] = Opt(z3.Bool(fresh_name(f"doc_{nm}_absent")), val) if "Optional" in txt else val
    return Obj(ocls, fields)


def load_dependencies(v, heap, inst):
    """adapter ident -> idents of the adapters its assemble_soundevent (and embedded NoteAdapter) looks objects up in"""
    deps = {}
    for ident, ref in inst.items():
        if not is_data_adapter(v, ref.cls):
            continue
        found = v.repo.find_method(ref.cls, "assemble_soundevent")
        if found is None:
            continue
        names = set()
        for n in ast.walk(found[1]):
            if isinstance(n, ast.Call) and isinstance(n.func, ast.Attribute) and n.func.attr in ("from_id", "to_soundevent"):
                tgt = n.func.value
                if isinstance(tgt, ast.Attribute) and isinstance(tgt.value, ast.Name) and tgt.value.id == "self":
                    names.add(tgt.attr)
                elif isinstance(tgt, ast.Name) and tgt.id == "self":
                    names.add("self")
        out = set()
        for nm in names:
            if nm == "self":
                continue  # self-dependency (sequence parents): discharged by parent-first order, see tables
            val = heap[ident].get(nm)
            if isinstance(val, Ref):
                if is_data_adapter(v, val.cls):
                    out.add(val.ident)
                else:  # NoteAdapter: depends on what it holds
                    out |= {r.ident for r in heap[val.ident].values() if isinstance(r, Ref) and is_data_adapter(v, r.cls)}
        deps[ident] = out
    return deps


def collection_obligations(v, tname, dcls, acls, prop="C01"):
    from pyvc.calls import instantiate
    obls = []
    base = f"{prop}/collection/{tname}"
    # ------------------------------------------------------------------ save side
    log = []
    handlers = flow_handlers(v, log)
    m_ad, _, _ = v.repo.class_def(acls)
    x, wf = symbolic_collection(v, dcls)
    ex = Exec(v.repo, m_ad, handlers, v.inline, "R", True, 300, list(wf), None, v.trace)
    (p, top), = instantiate(ex, acls, [], {}, Path([], {}, None, {}), None)
    inst = closure(p.heap, top)
    adapters = {i: r for i, r in inst.items() if is_data_adapter(v, r.cls)}
    fm, fnode, _, fq = v.repo.find_method(acls, "to_aoef")
    res = ex.call_repo_function(fm, fnode, [top, x], {}, p, qual=fq + ".to_aoef", cls=fq)
    for o in ex.outcomes:
        if o.kind == "raise":
            obls.append(Obligation(f"{base}/save-raises-{o.exc}@L{o.line}", "exc", list(ex.bg) + o.cond))
    if not res:
        obls.append(Obligation(f"{base}/save-returns", "post", [z3.BoolVal(True)]))
    saved_field_of = {}
    for k, (q, doc) in enumerate(res):
        if k == 0:   # the save path is reachable under the run's hypotheses (guards the `save-raises` obligations against vacuity)
            obls.append(Obligation(f"{base}/cover-save", "cover", list(ex.bg) + q.cond, expect="sat", inputs={"x": x}))
        pid = frozenset(c.get_id() for c in q.cond)
        events = [e for e in log if e["path"] <= pid]
        for ident, ref in adapters.items():
            short = ref.cls.rsplit(".", 1)[1]
            bumps = [e for e in events if e["kind"] == "bump" and ident in e["closure"]]
            snaps = [(f, Opt(z3.BoolVal(False), val)) for f, val in doc.fields.items() if isinstance(val, Opq) and val.kind == "Snapshot" and val.meta["who"] == ident]
            direct = [f for f, val in doc.fields.items() if _converted_by(val, ident)]
            ok, why = False, ""
            if snaps:
                f, val = snaps[0]
                late = [e for e in bumps if e["seq"] > val.val.meta["seq"]]
                ok = not late
                why = f"field {f}: snapshot #{val.val.meta['seq']}" + (f", but line {late[0]['line']} can still add to it afterwards" if late else "")
                saved_field_of[short] = f
            elif direct:
                others = [e for e in bumps if e["who"] != ident]
                ok = not others
                why = f"field {direct[0]}: the converted list itself" + (f", but {len(others)} other call(s) can add objects that list does not contain" if others else "")
                saved_field_of[short] = direct[0]
            elif not bumps:
                ok, why = True, "nothing can register an object with this adapter on this path"
            else:
                why = "never emitted: no top-level field receives this adapter's store"
            obls.append(Obligation(f"{base}/emission/{short}#{k}", "post", [z3.BoolVal(not ok)], meta=dict(detail=why)))
    # ------------------------------------------------------------------ load side
    log2 = []
    handlers2 = flow_handlers(v, log2)
    ocls = None
    ann = fnode.returns
    ocls = v.repo.resolve(v.repo.qualify(fm, ann))[3] if ann is not None else None
    if ocls is None:
        raise Unsupported(f"{acls}.to_aoef has no return annotation")
    del NONEMPTY[:]
    doc = symbolic_document(v, ocls)
    for _, dq, _ in COLLECTIONS:   # the collection's own relational validators are C04's subject; not re-executed here
        handlers2[dq] = (lambda dq: (lambda ex_, p_, args_, kw_, node_: construct_model(ex_, p_, dq, kw_, node_, run_validators=False)))(dq)
    ex2 = Exec(v.repo, m_ad, handlers2, v.inline, "R", True, 300, [], None, v.trace)
    (p2, top2), = instantiate(ex2, acls, [], {}, Path(list(NONEMPTY), {}, None, {}), None)
    inst2 = closure(p2.heap, top2)
    fm2, fnode2, _, fq2 = v.repo.find_method(acls, "to_soundevent")
    res2 = ex2.call_repo_function(fm2, fnode2, [top2, doc], {}, p2, qual=fq2 + ".to_soundevent", cls=fq2)
    deps = load_dependencies(v, p2.heap, inst2)
    # one representative path: all top-level lists present and non-empty
    full = [(q, y) for q, y in res2]
    if not full:
        obls.append(Obligation(f"{base}/load-returns", "post", [z3.BoolVal(True)]))
    checked = set()
    for q, y in full:
        pid = frozenset(c.get_id() for c in q.cond)
        loads = [e for e in log2 if e["kind"] == "load" and e["path"] <= pid]
        first = {}
        for e in loads:
            first.setdefault(e["who"], e)
        for ident, e in first.items():
            short = inst2[ident].cls.rsplit(".", 1)[1]
            for d in deps.get(ident, ()):
                dshort = inst2[d].cls.rsplit(".", 1)[1]
                key = (short, dshort)
                # the dependency must have been loaded (from its own list) before; if its list is absent on this path
                # there is nothing to load and nothing can reference it
                ok = d not in first or first[d]["seq"] < e["seq"]
                if key in checked and ok:
                    continue
                checked.add(key)
                obls.append(Obligation(f"{base}/load-order/{short}-after-{dshort}", "post", [z3.BoolVal(not ok)],
                                       meta=dict(detail=f"{short} loaded at #{e['seq']}, {dshort} at #{first[d]['seq'] if d in first else None}")))
            fld = e["field"]
            want = saved_field_of.get(short)
            if want is not None and ("field", short) not in checked:
                checked.add(("field", short))
                obls.append(Obligation(f"{base}/load-field/{short}", "post", [z3.BoolVal(fld != want)],
                                       meta=dict(detail=f"saved to {want!r}, loaded from {fld!r}")))
    # every adapter whose store is saved is also loaded (on the path where all lists are present)
    loaded_classes = {e["cls"].rsplit(".", 1)[1] for e in log2 if e["kind"] == "load"}
    for short in saved_field_of:
        obls.append(Obligation(f"{base}/loaded/{short}", "post", [z3.BoolVal(short not in loaded_classes)], meta=dict(detail=f"loaded adapters: {sorted(loaded_classes)}")))
    v.functions_under_contract[acls + ".to_aoef"] = "executed"
    v.functions_under_contract[acls + ".to_soundevent"] = "executed"
    return obls


def _converted_by(val, ident):
    """the value is the list of AOEF objects produced by X.to_aoef for the collection's own elements"""
    if isinstance(val, Opt):
        val = val.val
    if isinstance(val, Lst):
        try:
            el = val.at(z3.Int("conv_probe")) if not val.concrete else (val.items[0] if val.items else None)
        except Exception:
            return False
        while isinstance(el, Opt):
            el = el.val
        return isinstance(el, Obj) and isinstance(el.fields.get("__from"), Num) and z3.is_int_value(el.fields["__from"].t) and el.fields["__from"].t.as_long() == ident
    return False
