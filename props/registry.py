"""Which properties are claimed, at what level (feeds tools/gen_manifest.py)."""
TECH = "contract-based deductive verification: VCs generated from the real Python AST, discharged by z3/cvc5"
CLAIMED = {
    "C12": dict(
        level="proof",
        text="Every clause of the statement is a discharged obligation over the real bodies of intervals_overlap, "
             "have_temporal_overlap, have_frequency_overlap and is_in_clip (all paths, all inputs, two-sided raise "
             "conditions), plus lemmas over the contracts for symmetry, monotonicity, touching/disjoint cases.",
        note="Trusted: the pyvc engine and z3/cvc5; floats treated as mathematical reals (mode R) for the 'exactly when' "
             "clause; compute_bounds is used through its contract (proved in C05 against the shapely contract). "
             "The bounded stand-in overlap_lattice checks the same contracts natively on an exhaustive lattice.",
        technique=TECH + "; lemmas over functional contracts; exhaustive lattice stand-in (bounded, not counted)",
    ),
}
CLAIMED["C14"] = dict(
    level="proof",
    text="segment_clip's real body (generator with a for/break/yield loop, summarised by its first-exit index, no "
         "hand-written invariant) is proved against the lattice specification taken from the statement: soundness of "
         "every yielded window, completeness (window len(result) is inadmissible), same recording, deterministic ids; "
         "lemmas: full length unless truncated, coverage when hop <= duration, ids distinct; guards two-sided.",
    note="Trusted: engine, z3/cvc5, floats as reals (mode R), pydantic construction contract (Clip validator inlined "
         "from its real body), uuid5 and float formatting injective, math.ceil/floor. Stand-in segment_lattice is bounded.",
    technique=TECH + "; first-exit loop summarisation; lemmas over the contract",
)
CLAIMED["C03"] = dict(
    level="proof",
    text="For each of the nine geometry classes the construction contract is executed over the real validator bodies "
         "(loops summarised, unpacking arity as implicit ValueError) and proved equivalent, in both directions, to the "
         "validity spec written from the statement; stored coordinates equal the normal form, which is valid and a "
         "fixpoint; geometry_validate's real body is proved per tag for dict and attribute modes (class named by the tag, "
         "ValueError iff invalid or unknown tag); tag/mapping tables from the ASTs.",
    note="Trusted: engine, solvers, the pydantic v2 construction contract (type coercion to the annotated nesting, "
         "validator order, ValueError->ValidationError, model_validate == constructor) and json.loads; the JSON mode, wrong "
         "nesting and the four entry points' agreement are checked by the bounded stand-in geometry_entry_points only.",
    technique=TECH + "; quantified nested-list encoding (lists as functions of index tuples)",
)
CLAIMED["C05"] = dict(
    level="proof",
    text="Proved relative to the shapely view contract: for each of the nine types the real conversion functions produce "
         "the expected kind with every coordinate in place (boxes: vertices are exactly the corners); compute_bounds equals "
         "(min t, min f, max t, max f) over all coordinates (holes inside the shell's box as validity precondition); the nine "
         "feature functions and their dispatch table give duration/low/high/bandwidth(/parts) of those bounds with the right "
         "terms; each of the nine named anchor positions is the corresponding corner/midpoint/centre; invalid position raises.",
    note="Trusted: engine, solvers, pydantic construction contract, and the assumed shapely contract (constructors store "
         "coordinates, box corner order, rings closed, .bounds = coordinate min/max with polygon = shell, len(.geoms)). "
         "Sub-claim decided only by the bounded stand-in geometry_measures: centroid / point_on_surface lie inside the bounds "
         "(GEOS); the stand-in also checks the shapely contract on the installed version. Floats as reals (mode R).",
    technique=TECH + "; assumed external contracts as abstract shape views; per-type obligations",
)
CLAIMED["C11"] = dict(
    level="proof",
    text="Closed-form types (TimeStamp, TimeInterval, BoundingBox): the real bodies of buffer_timestamp, buffer_interval, "
         "buffer_bounding_box_geometry and the dispatch/guard of buffer_geometry are proved to return exactly the widened "
         "interval/box, accepted by the C03 constructor contracts (valid domain), with lemmas for containment, bounds growth "
         "clipped at the domain edges and monotonicity; negative buffers rejected two-sidedly. For the six GEOS-backed types "
         "only dispatch, guard and result validity are proved (relative to an assumed contract of buffer_shapely_geometry).",
    note="Containment, growth and monotonicity for Point/LineString/Polygon/Multi* live inside GEOS: decided by the bounded "
         "stand-in buffer_shapes only (two known findings there, see KNOWN_FINDINGS.txt). Trusted: engine, solvers, floats as "
         "reals, pydantic construction contract, assumed buffer_shapely_geometry contract.",
    technique=TECH + "; lemmas over contracts; bounded stand-in for the GEOS-backed types",
)
CLAIMED["C06"] = dict(
    level="proof",
    text="compute_affinity, compute_affinity_in_time and _prepare_geometry are proved against a functional contract: the "
         "result equals the 1-D IoU of the (buffered) time extents whenever either prepared geometry is time-only and the "
         "area IoU (bounded by 1) otherwise, and always lies in [0,1] -- under an honest shapely area contract that does not "
         "assume intersection <= area, so the bound must come from the code. Lemmas over the contract: symmetry, self = 1 for "
         "non-zero extent, 0 when time-disjoint, box pairs = area IoU, time-shift invariance of the 1-D IoU.",
    note="Relative to assumed contracts: shapely areas (symmetric, self, disjoint, boxes), buffer_geometry (C11), "
         "compute_bounds (C05). Area-branch symmetry / self / shift on the real library are GEOS facts: bounded stand-in "
         "affinity_pairs (tolerance 1e-9 relative for those, none for the [0,1] range). Floats as reals (mode R).",
    technique=TECH + "; functional (pure) contracts so multi-call lemmas are decided over contracts",
)
CLAIMED["C04"] = dict(
    level="proof",
    text="The construction contracts of ClipEvaluation, Match, AnnotationProject, Clip, PredictedTag, SoundEventPrediction and "
         "SequencePrediction are executed over the real validator bodies and Field bounds read from the class definitions and "
         "proved two-sidedly equivalent to the relational spec written from the statement (same clip; match targets/sources a "
         "duplicate-free enumeration of exactly the annotated/predicted ids; source or target present; every annotated clip has "
         "a task; start <= end; scores in [0,1]). AOEF loading as a construction path: the real assemble_soundevent of the Match, "
         "SoundEventPrediction and SequencePrediction adapters, run on an arbitrary stored object, returns only objects that satisfy "
         "their invariant.",
    note="Trusted: engine, solvers, pydantic construction contract, len(set(xs)) == len(xs) iff xs duplicate-free. That dict / "
         "JSON validation go through the same construction is the pydantic assumption, checked by the bounded stand-in schema_paths "
         "(constructor, dict, JSON), which also edits saved AOEF documents field by field and loads them (fourth path, end to end).",
    technique=TECH + "; symbolic sets as element lists; filter comprehensions with monotone source-index functions",
)
CLAIMED["C19"] = dict(
    level="proof",
    text="SimpleEncoder (real __init__, encode, decode), create_tag_encoder, classification_encoding, multilabel_encoding and "
         "prediction_encoding are executed symbolically over unbounded vocabularies and tag lists and proved against the "
         "statement: encode(t) = i iff t equals the i-th vocabulary tag (None otherwise), encode(decode(i)) = i, first "
         "in-vocabulary tag, indicator vector, score of the last predicted tag per position (float32) else 0. For each of the "
         "eight hashable data classes the real __hash__ body is proved congruent with structural equality.",
    note="Trusted: engine, solvers, Python dict semantics (last equal key wins), builtin hash congruent on str/UUID/float/tuple, "
         "numpy zeros/item assignment/float32 cast, pydantic structural __eq__. Bounded stand-in encoding_small (exhaustive "
         "vocabularies <= 3 over 5 tags) checks the same contracts and out-of-vocabulary independence natively.",
    technique=TECH + "; loop summaries with array-store accumulators; symbolic dicts (last-match lookup)",
)
CLAIMED["C13"] = dict(
    level="other",
    text="Deductive part: the similarity matrix built by the real _compute_similarity_matrix is proved n x n with an entry "
         "exactly at the off-diagonal positions whose events compare similar (symmetric), the comparison being called only on "
         "distinct input positions. The clause that carries the property's weight (sequences = connected components, partition, "
         "input order) is decided by the exhaustive-to-a-bound stand-in grouping_graphs: all graphs on <= 5 (quick) / <= 6 "
         "(thorough) nodes, exactly the enumeration the property's quantifier names, plus random graphs up to 30 nodes.",
    note="Component correctness lives in scipy.sparse.csgraph.connected_components (compiled): no contract within reach decides "
         "it; the group-by loop over a defaultdict of mutable Sequence objects is outside the verified subset. Trusted for the "
         "deductive part: engine, solvers, itertools.combinations and coo_array contracts.",
    technique=TECH + " for the matrix construction; exhaustive bounded enumeration (labelled bounded) for the components",
)
CLAIMED["C18"] = dict(
    level="proof",
    text="Data flow proved by executing the real code symbolically with a heap of adapter objects: each of the eight collection "
         "adapters' __init__ chains (including super().__init__(**kwargs)) hands the audio_dir it receives to its single "
         "RecordingAdapter; to_aeof / to_soundevent pick each collection's own adapter and build it with the caller's audio_dir; "
         "aoef.save/load and saver.save/loader.load pass audio_dir on unchanged; no path of aoef.save reaches write_text after a "
         "raise. RecordingAdapter.assemble_aoef stores path.relative_to(audio_dir) (ValueError iff outside, two-sided) and "
         "assemble_soundevent yields audio_dir / stored; lemma: saved under A, loaded under B maps A/x to B/x; None = identity.",
    note="Trusted: engine, solvers, the pathlib algebra (assumed contract), pydantic construction contract. The JSON text and the "
         "file system are exercised only by the bounded stand-in audio_paths (8 types x depths x names x str/Path x in/outside).",
    technique=TECH + "; heap of adapter instances built by the real constructors; uninterpreted path algebra",
)
_AOEF_NOTE = ("Trusted / not machine-checked: at sub-adapter CALL SITES the DataAdapter base-class contract is assumed (to_aoef registers and "
              "returns the stored object, get_id does not register, from_id returns what was registered, values() lists the store in "
              "insertion order); the generic method bodies of adapters.py and TagAdapter.get_id are verified against that contract by C02 "
              "(contracts/adapters.py), the identification of the call-site ghost predicate with store membership is not; the step from the per-adapter, per-field and collection-level obligations to `load(save(x)) == x` is a fixed "
              "structural induction over the adapter dependency DAG (written in DESIGN.md), exercised end to end by the bounded stand-in; "
              "pydantic construction contract; JSON layer identity (stand-in only); preconditions from the quantifier (simple-label terms, "
              "distinct feature labels, valid embedded objects, distinct identifiers in top-level lists).")
CLAIMED["C01"] = dict(
    level="proof",
    text="For each of the 15 DataAdapter subclasses (NoteAdapter inlined) the REAL assemble_aoef and then the REAL "
         "assemble_soundevent are executed on a symbolic object, with the adapter graph built by the real constructors and "
         "sub-adapter calls under the base-class contract: one obligation per declared field (y.f == x.f, incl. list order, "
         "elisions such as time_expansion == 1.0, feature dicts) and `nothing registered on save is missing on load`. Per "
         "collection adapter (8): every reachable adapter's store is emitted after the last call that can add to it, lists "
         "are loaded in dependency order from the field they were saved to, the collection's own fields round trip; dispatch "
         "tables pick each type's own adapter; a fresh adapter graph per call. Fixpoint follows (the round trip is the identity).",
    note=_AOEF_NOTE,
    technique=TECH + "; heap of adapter objects; per-field obligations generated from the class definitions",
)
CLAIMED["C02"] = dict(
    level="proof",
    text="Closure under reference: every reference an adapter writes is the key of an object passed through the target "
         "adapter's to_aoef (otherwise the load side, which assumes only registered objects present, fails its `load-raises` "
         "obligation); every adapter reachable from a collection adapter is emitted in a top-level field by a values() snapshot "
         "taken after the last call that can register with it, or as the converted list itself when nothing else can "
         "(emission obligations, 8 collection types); sequences convert their parent through their own to_aoef before being "
         "stored (parent-first); load order is a topological order of the look-up dependencies.",
    note=_AOEF_NOTE + " Uniqueness of identifiers within a list and exact reachability are consequences of the base-class "
         "contract (stores keyed by identifier, only to_aoef adds), whose method bodies are verified here with whole-store postconditions; the bounded stand-in aoef_document_closure checks them on the JSON text "
         "with an independent reachability walk.",
    technique=TECH + "; ghost-effect flow analysis of the real collection adapters (program-order event log)",
)
CLAIMED["C16"] = dict(
    level="proof",
    text="Relative to the numpy/pandas/xarray contracts (mode R: floats read as reals): the real create_range_dim / "
         "create_time_range bodies produce coordinates start + i*step, all inside [start, stop), exactly (stop-start)/step "
         "of them when that is a whole number (the trailing-element rule is part of the executed body), with the step "
         "recorded; ValueError iff neither step nor size / samplerate; get_coord_index returns the unique i with c[i] <= v < "
         "c[i+1] (last index at the upper edge), KeyError or clamping (0 / size) outside, on any strictly increasing axis.",
    note="The double-precision count claim (non-representable steps such as 0.1 or 1/44100), set_value_at_pos and "
         "create_frequency_range are decided by the bounded stand-in range_dims only (start x step x n grids, lattice "
         "tolerance n ulps). Trusted: engine, solvers, numpy.arange / pandas get_slice_bound / xarray.Variable contracts.",
    technique=TECH + "; assumed numpy/pandas contracts; bounded stand-in for double rounding",
)
CLAIMED["C17"] = dict(
    level="proof",
    text="Relative to the xarray/numpy/pandas contracts (mode R): crop_dim returns exactly the samples whose coordinate lies in the "
         "requested interval, open/closed per flag, data attached, ValueError iff start > stop or outside the axis (domain: no "
         "coordinate strictly within eps of an open end); crop_dim_width returns exactly `width` samples (first / last / centred "
         "block, data on its coordinates); extend_dim_width returns exactly `width` samples with the originals kept on their "
         "coordinates at the start / centre / end, the new cells on the axis' own lattice holding the fill value; adjust_dim_width "
         "dispatches and rejects width < 1 and invalid positions two-sidedly.",
    note="extend_dim and all double-precision effects (float arange lengths) are decided by the bounded stand-in crop_extend only "
         "(axes x widths x positions x closedness, every sample tagged with its coordinate); two defects it found were fixed in "
         "/repo (f27f1a9, 4d01a10), one is a known finding (crop_dim open end within eps of a coordinate).",
    technique=TECH + "; assumed xarray/numpy contracts; bounded stand-in for double rounding",
)
CLAIMED["C20"] = dict(
    level="proof",
    text="Relative to the rasterio / xarray contracts: the real rasterize body rejects a value list whose length differs from the "
         "geometry list (two-sided), broadcasts a scalar, and returns an array with dims (xdim, ydim) carrying the template's own "
         "coordinates for BOTH template dimension orders and any size -- the out_shape handed to rasterio must be (len y, len x) or "
         "the xarray constructor raises, which is the obligation `no CoordinateValidationError` (failed on the original tree for "
         "(time, frequency) templates; fixed). Lemma: with integer index-space corners the cell-centre rule gives bins [i0, i1).",
    note="Which cells are marked (centre inside the shape mapped to bin indices, overwrite order, fill, all_touched) is rasterio/GDAL "
         "behaviour: decided by the bounded stand-in raster_templates only (templates up to 8x8, both orders, boxes on/off edges, "
         "polygons, lists of 3), which also checks the assumed contract. The template's contents are never read (frame: no read of "
         "array.data on any executed path).",
    technique=TECH + "; assumed rasterio/xarray contracts; bounded stand-in for the burn rule",
)
CLAIMED["C15"] = dict(
    level="other",
    text="load_audio against the soundfile contract (seek to min(offset, frames), never past the end; read with zero fill; the file's sample rate). "
         "Deductive part (mode R, relative to library contracts): load_clip's offset/length arithmetic and call wiring into "
         "load_audio, the exact number of time coordinates (`no CoordinateValidationError`), frame times (offset+i)/sr, the resample "
         "drift lemma, and compute_spectrogram's advertised step == realised step for time and frequency axes (real body). The clause "
         "that carries the property's weight -- the frames returned are the file's frames, zero-filled past EOF, for every channel "
         "count and time expansion -- lives in libsndfile and is decided by the bounded stand-in audio_files (synthesised WAVs).",
    note="Three defects found by the stand-in were fixed in /repo (98b2179 seek past EOF, 6ee4a0d advertised spectrogram step, "
         "142d0fb empty range IndexError). Trusted: soundfile read contract, scipy stft / resample time vectors, xarray constructor.",
    technique=TECH + " for the arithmetic and axis claims; bounded stand-in (labelled bounded) for file I/O",
)
CLAIMED["C10"] = dict(
    level="other",
    text="Deductive part: the real label_to_tags is proved equal to the documented cascade (written out from its docstring) for all "
         "option combinations and unbounded mappings, outside one keyed known-finding region; the import conversions (segment / bbox "
         "to annotation: seconds or samples over samplerate/time_expansion, factor applied exactly once, frequencies multiplied, tags "
         "by the cascade) and the sample-index / bbox guard functions are proved from their real bodies. The export label cascade "
         "(string joins), sequence/annotation order and skipping, Nyquist cap and the round trip are decided by the bounded stand-in "
         "crowsetta_options on real crowsetta objects (full boolean option cube).",
    note="Two defects fixed in /repo (03ff919 explicit key lost on a key_mapping miss; ed18ce2 duplicate value_only keyword); the "
         "documented-vs-coded precedence of tag_mapping against an already-set term is a known finding (not repaired: it would change "
         "behaviour callers may rely on). String building is outside the solver-friendly subset (uninterpreted strings, equality only).",
    technique=TECH + "; symbolic dictionaries; known-finding regions excluded by sibling obligations",
)
CLAIMED["C07"] = dict(
    level="other",
    text="Bounded deductive check (labelled bounded, not counted as proved): the real match_geometries and _select_matches bodies "
         "are verified for all list lengths n, m <= 2 with symbolic affinities against the full statement (coverage exactly once, "
         "positive-affinity pairs reporting the pair's affinity, one-sided entries 0, sum = optimum over one-to-one pairings), "
         "relative to the scipy linear_sum_assignment contract; plus the exhaustive stand-in matching_small (all <= 3 x 3 box "
         "configurations on a lattice, random mixed geometries to 6 x 6, brute-force optimum) on the real scipy.",
    note="Unbounded list lengths would need set-difference iteration and product-loop matrix summaries that the engine does not have; "
         "the bound (n, m <= 2 symbolic; <= 3 x 3 / 6 x 6 concrete) is stated. One defect fixed in /repo (645b804: zero-affinity pairs).",
    technique=TECH + ", bounded in list length (n, m <= 2); exhaustive stand-in",
)
CLAIMED["C08"] = dict(
    level="other",
    text="Deductive, unbounded: iterate_over_valid_clips (exactly the predicted clips that are annotated, in order, paired by clip "
         "id), classification_score, evaluate_sound_event. Deductive but BOUNDED in list sizes (labelled bounded, not counted as "
         "proved): the real evaluate_clip for all numbers of annotated x predicted events up to 2 x 1 / 1 x 2 (quick) and 2 x 2 "
         "(thorough), geometry presence symbolic, against the full per-clip statement, with match_geometries, the encoders, "
         "compute_affinity, _mean and classification_score seen only through their contracts (C07, C19, C06, this property). "
         "The whole task (sound_event_detection, _evaluate_clips: exactly the clips in both inputs, each meeting the per-clip "
         "statement, overall score = mean of the clip scores) is verified for <= 2 predicted x <= 2 annotated clips with unbounded "
         "events per clip through the contracts of iterate_over_valid_clips and evaluate_clip, and run end to end by the bounded "
         "stand-in detection_small (clips <= 3, events <= 3 + 3, geometry-less and zero-extent events, vocabulary 3) against an "
         "independent reference.",
    note="Four defects found by the stand-in were fixed in /repo (14d1302 indices into the unfiltered lists / geometry-less events "
         "dropped, b13c0a8 constant affinity 1, 57f20ee IndexError with nothing to evaluate, 6a20f58 mean_average_precision on "
         "all-unlabelled input). Unbounded event counts would need a loop summary over a contract-given list of index triples; "
         "the bound is stated. The run metrics of the task are abstracted as some list of features (their values are C09).",
    technique=TECH + ", bounded in list length for evaluate_clip and in the number of clips for the whole task; callee contracts from C06/C07/C19; exhaustive stand-in",
)
CLAIMED["C09"] = dict(
    level="other",
    text="Deductive: tables read from the real ASTs of the four task modules and of soundevent.terms.metrics (each row pairs a term "
         "with the metric function of that name; terms of one table pairwise different; metric terms have pairwise different names "
         "and labels); true_class_probability against its definition; the per-item wiring of clip_classification and "
         "sound_event_classification (value under the term = that metric of the encoded truth and scores); the accuracy / "
         "balanced accuracy / top-3 accuracy wrappers against their statement (unlabelled items become the extra class index, "
         "the predicted class is the arg-max over the scores plus the remaining mass, top-3 over all classes incl. none, k=3), "
         "relative to uninterpreted numpy row-sum / arg-max and scikit-learn score functions; the three "
         "_compute_overall_score functions (bounded 0-3 clips); the metrics field of Evaluation / ClipEvaluation / Match through "
         "the real AOEF adapters as (label, value) lists. The numerical clauses -- accuracy, balanced accuracy, top-3 accuracy, mean "
         "average precision, average precision, Jaccard index with the extra 'none' class, order independence, the end-to-end "
         "save/load -- run inside scikit-learn and are decided by the bounded stand-in metric_values (4 tasks, vocabulary 2-4, "
         "1-8 items, empty clips) against references written from the definitions in plain numpy.",
    note="Three defects found by the stand-in were fixed in /repo (317d19c mean_average_precision micro-averaged multilabel input, "
         "018e3c6 three run metrics all labelled Balanced Accuracy in sound_event_classification, 303d270 NaN score for an empty "
         "clip). scikit-learn's metric functions are outside any contract within reach: the wrappers' numpy steps (np.c_, argmax, "
         "boolean masks) are checked by the stand-in only, so the level is `other`, not `proof`.",
    technique=TECH + " for tables, wiring, score means and the AOEF metrics mapping; bounded stand-in (labelled bounded) for the scikit-learn backed values",
)
ALL = [f"C{n:02d}" for n in range(1, 21)]
NOT_APPLICABLE = {p: "check not built yet in this session (work in progress; see DESIGN.md section 12 build order)"
                  for p in ALL if p not in CLAIMED}
