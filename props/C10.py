"""C10 — crowsetta conversions preserve times, frequencies, labels and order."""
import z3

from props.common import new_verifier, with_models, task, opaque_geometry_specs
from pyvc.values import Opq, Obj, Opt, Str, Num, Bool, Fn, Lst, Dct, NONE, StrSort, opaque_sort, fresh_name


def setup():
    v = with_models(new_verifier())
    v.load_contracts("contracts.geometry")
    v.load_contracts("contracts.crowsetta")
    opaque_geometry_specs(v)
    v.inline |= {"soundevent.data.compat.term_from_key", "soundevent.data.compat.key_from_term", "contracts.crowsetta.listify"}
    RAISES = z3.Function("tag_fn_raises", StrSort, z3.BoolSort())

    def tag_fn(ex, p, args, kw, node):
        """an arbitrary user function: may raise ValueError, otherwise returns a tag determined by the label"""
        lab = args[0]
        ex.emit_raise(p, "ValueError", node, extra=RAISES(lab.t))
        q = p.fork(z3.Not(RAISES(lab.t)))
        term = Obj("soundevent.data.terms.Term", {"label": Str(t=z3.Function("tag_fn_label", StrSort, StrSort)(lab.t)), "name": Str(t=z3.Function("tag_fn_name", StrSort, StrSort)(lab.t))})
        return [(q, Obj("soundevent.data.tags.Tag", {"term": term, "value": Str(t=z3.Function("tag_fn_value", StrSort, StrSort)(lab.t))}))]
    v.tag_fn = Fn("opaque", tag_fn)
    return v


def segment_value(name="segment"):
    R, I, B = z3.Real, z3.Int, z3.Bool
    return Obj("crowsetta.Segment", {"onset_s": Opt(B(name + ".onset_s.none"), Num(R(name + ".onset_s"))), "offset_s": Opt(B(name + ".offset_s.none"), Num(R(name + ".offset_s"))),
                                     "onset_sample": Opt(B(name + ".onset_sample.none"), Num(I(name + ".onset_sample"))),
                                     "offset_sample": Opt(B(name + ".offset_sample.none"), Num(I(name + ".offset_sample"))),
                                     "label": Str(t=z3.Const(name + ".label", StrSort))})


def bbox_value(name="bbox"):
    R = z3.Real
    return Obj("crowsetta.BBox", {k: Num(R(f"{name}.{k}")) for k in ("onset", "offset", "low_freq", "high_freq")} | {"label": Str(t=z3.Const(name + ".label", StrSort))})


def run(s):
    v = setup()
    s.ver = v
    tasks = [task(v, "label_to_tags[no tag_fn]", lambda: v.verify("LabelToTags", "C10", fixed={"tag_fn": NONE}, tag="[no-tag_fn]")),
             task(v, "label_to_tags[tag_fn]", lambda: v.verify("LabelToTags", "C10", fixed={"tag_fn": v.tag_fn}, tag="[tag_fn]")),
             task(v, "convert_time_to_sample", lambda: v.verify("ConvertTimeToSample", "C10"))]
    v2 = setup()
    v2.use("ComputeBounds", "NewTimeInterval", "NewBoundingBox")
    v2.inline |= {"soundevent.io.crowsetta.labels.label_to_tags"}
    tasks.append(task(v2, "segment_to_annotation", lambda: v2.verify("SegmentToAnnotation", "C10", fixed={"segment": segment_value(), "notes": NONE, "created_by": NONE})))
    tasks.append(task(v2, "bbox_to_annotation", lambda: v2.verify("BBoxToAnnotation", "C10", fixed={"bbox": bbox_value(), "notes": NONE, "created_by": NONE})))
    tasks.append(task(v2, "convert_geometry_to_bbox", lambda: v2.verify("ConvertGeometryToBBox", "C10")))
    s.attempt_all(tasks)
    s.min_obligations = 15
    s.discharge_all()
    s.triage()
    s.standin("crowsetta_options")
    s.level = "other"
    s.explanation = ("Proved (deductive): label_to_tags equals the documented cascade for every combination of tag_fn / tag_mapping / term_mapping / "
                     "key_mapping / key / term / fallback / empty_labels over unbounded mappings -- except inside one known-finding region (a "
                     "tag_mapping hit while a term is already set), which is excluded by a sibling obligation per path; segment_to_annotation and "
                     "bbox_to_annotation give the interval / box with seconds-or-samples onsets and the time-expansion factor applied exactly once, "
                     "accepted by the C03 constructors, with the cascade's tags; convert_time_to_sample is floor(time x samplerate); "
                     "convert_geometry_to_bbox raises exactly for non-boxes without casting / time geometries when asked and returns the bounds. "
                     "Bounded (stand-in crowsetta_options on real crowsetta objects): label_from_tag / label_from_tags option cube (string building), "
                     "segment_from_annotation / bbox_from_annotation incl. the Nyquist cap, sequences and annotations (order, ignore_errors), and the "
                     "export-after-import round trip.")
    s.trusted |= {"crowsetta Segment / BBox / Sequence store what they are given (their own validators define the domain)",
                  "compute_bounds contract (C05), C03 constructor contracts, floats as reals (mode R)"}
