"""C06 — affinity is a symmetric intersection-over-union in [0, 1]."""
import z3

from props.common import new_verifier, with_models, task, opaque_geometry_specs
from props.C05 import spec_bounds_handler
from pyvc.shapely_model import SHAPE
from pyvc.values import Opq, Num, Bool, Str, opaque_sort

GQ = "soundevent.data.geometries."
TYPES = ["TimeStamp", "TimeInterval", "BoundingBox", "Point", "LineString", "Polygon", "MultiPoint", "MultiLineString", "MultiPolygon"]
GS = opaque_sort("Geometry")
AREA = z3.Function("shp_area", GS, z3.RealSort())
INTER = z3.Function("shp_inter_area", GS, GS, z3.RealSort())
B = [z3.Function(f"bounds_{k}", GS, z3.RealSort()) for k in range(4)]


def area_model(v):
    """assumed shapely contract on opaque shapes: area >= 0; intersection area >= 0, symmetric, with itself = own area,
    zero when the bounds are disjoint in time; boxes: area = w*h, box-box intersection = overlap_w * overlap_h.
    NOT assumed: intersection.area <= area (GEOS violates it by rounding)."""
    from pyvc.values import StrSort, str_lit
    TYPE = z3.Function("geometry_type", GS, StrSort)

    def to_shape(ex, p, args, kw, node):
        g = args[0]
        if not isinstance(g, Opq):
            raise Exception("opaque geometry expected")
        ex.trace["assumed"].add("shapely area contract on opaque shapes (see props/C06.py area_model)")
        return [(p, Opq("Shape", ex.fresh_sym(SHAPE, "shp", node), {"origin": g}))]

    def box_area(g):
        return (B[2](g) - B[0](g)) * (B[3](g) - B[1](g))

    def mx(a, b):
        return z3.If(a >= b, a, b)

    def mn(a, b):
        return z3.If(a <= b, a, b)

    def area(ex, p, args, kw, node):
        m = args[0].meta
        if "origin" in m:
            g = m["origin"].t
            is_box = TYPE(g) == str_lit("BoundingBox")
            return [(p.assume(AREA(g) >= 0, z3.Implies(is_box, AREA(g) == box_area(g))), Num(AREA(g)))]
        g1, g2 = m["inter"][0].t, m["inter"][1].t
        facts = [INTER(g1, g2) >= 0, INTER(g1, g2) == INTER(g2, g1)]
        if g1.eq(g2):
            facts.append(INTER(g1, g2) == AREA(g1))
        disjoint = z3.Or(B[2](g1) < B[0](g2), B[2](g2) < B[0](g1))
        facts.append(z3.Implies(disjoint, INTER(g1, g2) == 0))
        both = z3.And(TYPE(g1) == str_lit("BoundingBox"), TYPE(g2) == str_lit("BoundingBox"))
        ow = mx(0, mn(B[2](g1), B[2](g2)) - mx(B[0](g1), B[0](g2)))
        oh = mx(0, mn(B[3](g1), B[3](g2)) - mx(B[1](g1), B[1](g2)))
        facts.append(z3.Implies(both, INTER(g1, g2) == ow * oh))
        return [(p.assume(*facts), Num(INTER(g1, g2)))]

    def intersection(ex, p, args, kw, node):
        s1, s2 = args
        return [(p, Opq("Shape", ex.fresh_sym(SHAPE, "shp", node), {"inter": (s1.meta["origin"], s2.meta["origin"])}))]

    for key in ("soundevent.geometry.conversion.geometry_to_shapely",):
        v.handlers[key] = to_shape
    v.handlers["attr:Shape.area"] = area
    v.handlers["method:Shape.intersection"] = intersection
    return v


def setup():
    v = with_models(new_verifier())
    for m in ("contracts.geometry", "contracts.buffer", "contracts.affinity"):
        v.load_contracts(m)
    opaque_geometry_specs(v)
    v.handlers["contracts.geometry.bounds_of#obj"] = spec_bounds_handler(v)
    area_model(v)
    return v


def run(s):
    v = setup()
    s.ver = v
    v.use("ComputeBounds", "BufferGeometryBounds")
    tasks = [task(v, "compute_affinity_in_time", lambda: v.verify("ComputeAffinityInTime", "C06"))]
    # _prepare_geometry against the buffer_geometry contract, one run per type (the type decides the branch)
    for t in TYPES:
        tasks.append(task(v, f"_prepare_geometry[{t}]", lambda t=t: v.verify(
            "PrepareGeometry", "C06", tag=f"[{t}]", extra_pre=lambda vals, t=t: v.handlers["attr:Geometry.type"](None, None, [vals["geometry"]], {}, None)[0][1].t == Str(t).t)))
    v2 = setup()
    v2.use("ComputeBounds", "BufferGeometryBounds", "PrepareGeometry", "ComputeAffinityInTime")
    tasks.append(task(v2, "compute_affinity", lambda: v2.verify("ComputeAffinity", "C06")))
    v3 = setup()
    v3.use("ComputeBounds", "BufferGeometryBounds", "ComputeAffinity")
    G, F = "Opq:Geometry", "float"
    for name, types in (("lemma_symmetric", dict(g1=G, g2=G, tb=F, fb=F)), ("lemma_self_is_one", dict(g=G, tb=F, fb=F)),
                        ("lemma_disjoint_in_time_is_zero", dict(g1=G, g2=G, tb=F, fb=F)),
                        ("lemma_boxes_area_iou", dict(g1=G, g2=G, tb=F, fb=F)),
                        ("lemma_iou_1d_shift", dict(s1=F, e1=F, s2=F, e2=F, d=F)),
                        ("lemma_iou_1d_range_and_symmetry", dict(s1=F, e1=F, s2=F, e2=F))):
        tasks.append(task(v3, name, lambda name=name, types=types: v3.lemma(name, "contracts.affinity", name, types, "C06")))
    tasks.append(task(v3, "canary", lambda: v3.lemma("canary_always_zero", "contracts.affinity", "canary_always_zero",
                                                    dict(g1=G, g2=G, tb=F, fb=F), "C06", expect="sat")))
    s.attempt_all(tasks)
    s.min_obligations = 20
    s.discharge_all()
    s.triage()
    s.standin("affinity_pairs")
    s.trusted |= {"shapely area contract on opaque shapes: area >= 0; intersection area >= 0, symmetric, equal to the area for identical arguments, zero for time-disjoint bounds; box area = w*h, box-box intersection = overlap_w*overlap_h (NOT assumed: intersection <= area)", "buffer_geometry contract BufferGeometryBounds (proved per type in C11)", "compute_bounds contract (proved in C05)"}
