"""C11 — buffering grows a geometry and never leaves the valid domain."""
from props.common import new_verifier, with_models, task, opaque_geometry_specs, some_shape
from props.C05 import spec_bounds_handler

G = "soundevent.data.geometries."
CLOSED = ["TimeStamp", "TimeInterval", "BoundingBox"]
GEOS = ["Point", "LineString", "Polygon", "MultiPoint", "MultiLineString", "MultiPolygon"]


def setup():
    v = with_models(new_verifier())
    v.load_contracts("contracts.geometry")
    v.load_contracts("contracts.buffer")
    opaque_geometry_specs(v)
    v.handlers["contracts.geometry.bounds_of#obj"] = spec_bounds_handler(v)
    v.use("NewTimeInterval", "NewBoundingBox")  # constructor calls are checked against the C03 contracts
    return v


def run(s):
    v = setup()
    s.ver = v
    tasks = [task(v, "buffer_timestamp", lambda: v.verify("BufferTimestamp", "C11")),
             task(v, "buffer_interval", lambda: v.verify("BufferInterval", "C11")),
             task(v, "buffer_bounding_box_geometry", lambda: v.verify("BufferBoundingBox", "C11"))]
    v2 = setup()
    v2.use("BufferTimestamp", "BufferInterval", "BufferBoundingBox", "BufferShapelyGeometry")
    v2.handlers["soundevent.geometry.conversion.geometry_to_shapely"] = some_shape
    for t in CLOSED + GEOS:
        ty = {"geometry": "Obj:" + G + t}
        tasks.append(task(v2, f"buffer_geometry[{t}]", lambda ty=ty, t=t: v2.verify("BufferGeometry", "C11", types=ty, tag=f"[{t}]")))
        tasks.append(task(v2, f"buffer_geometry/bounds[{t}]", lambda ty=ty, t=t: v2.verify("BufferGeometryBounds", "C11", types=ty, tag=f"/bounds[{t}]")))
    v3 = setup()
    v3.use("BufferGeometry")
    for t in CLOSED:
        gt = "Obj:" + G + t
        for name, types in (("lemma_contains_original", dict(geometry=gt, tb="float", fb="float")),
                            ("lemma_bounds_grow", dict(geometry=gt, tb="float", fb="float")),
                            ("lemma_monotone", dict(geometry=gt, tb1="float", fb1="float", tb2="float", fb2="float"))):
            tasks.append(task(v3, f"{name}[{t}]", lambda name=name, types=types, t=t: v3.lemma(f"{name}[{t}]", "contracts.buffer", name, types, "C11")))
    tasks.append(task(v3, "canary", lambda: v3.lemma("canary_never_grows", "contracts.buffer", "canary_never_grows",
                                                    dict(geometry="Obj:" + G + "TimeInterval", tb="float"), "C11", expect="sat")))
    s.attempt_all(tasks)
    s.min_obligations = 30
    s.discharge_all()
    s.triage()
    s.standin("buffer_shapes")
    s.trusted |= {"buffer_shapely_geometry (GEOS pipeline) is an assumed contract: its result went through the validating constructors; containment, growth and monotonicity for the six GEOS-backed types are decided by the bounded stand-in only"}
