"""C09 — evaluation metrics are what their terms say, in all four tasks."""
import ast

import z3

from props.common import new_verifier, with_models, task
from pyvc.values import Obj, Opt, Lst, Num

TASKS = ["clip_classification", "clip_multilabel_classification", "sound_event_classification", "sound_event_detection"]
TABLES = ["SOUNDEVENT_METRICS", "EXAMPLE_METRICS", "RUN_METRICS"]
# the metric function a term names (terms module attribute -> metrics module attribute)
FUNCTION_OF_TERM = {"accuracy": "accuracy", "balanced_accuracy": "balanced_accuracy", "top_3_accuracy": "top_3_accuracy",
                    "mean_average_precision": "mean_average_precision", "average_precision": "average_precision",
                    "jaccard_index": "jaccard", "true_class_probability": "true_class_probability"}
CE = "soundevent.data.clip_evaluations.ClipEvaluation"


def setup():
    import props.C08 as C08
    v = C08.setup()
    v.load_contracts("contracts.metrics")
    v.inline |= {"soundevent.evaluation.tasks.clip_classification._evaluate_example",
                 "soundevent.evaluation.tasks.sound_event_classification._evaluate_sound_event"}
    # the detection check sees true_class_probability inlined; here it is under its own contract
    v.inline.discard("soundevent.evaluation.metrics.true_class_probability")
    v.use("TrueClassProbability")
    from pyvc.array_model import SCORE_MATRIX_MODEL
    v.handlers.update(SCORE_MATRIX_MODEL)
    return v


def scored(n):
    return lambda sb: Lst(items=[Obj(CE, {"score": sb.make("Optional[float]", f"score{i}")}) for i in range(n)])


def obligations(v, name):
    if name == "true_class_probability":
        return v.verify("TrueClassProbability", "C09")
    if name.startswith("overall_score["):
        which, n = name[14:-1].split(",")
        cname = {"clip_classification": "OverallScoreClipClassification", "clip_multilabel_classification": "OverallScoreMultilabel",
                 "sound_event_classification": "OverallScoreSoundEventClassification"}[which]
        param = "evaluated_clip" if which == "sound_event_classification" else "evaluated_examples"
        return v.verify(cname, "C09", tag=f"[{n}]", fixed={param: scored(int(n))})
    if name in ("Accuracy", "BalancedAccuracy", "Top3Accuracy"):
        return v.verify(name, "C09")
    if name == "evaluate_example":
        return v.verify("EvaluateExample", "C09")
    if name == "evaluate_sound_event":
        import props.C08 as C08
        return v.verify("EvaluateClassifiedSoundEvent", "C09", fixed={
            "sound_event_prediction": lambda sb: C08.event(sb, "soundevent.data.sound_event_predictions.SoundEventPrediction", "q"),
            "sound_event_annotation": lambda sb: C08.event(sb, "soundevent.data.sound_event_annotations.SoundEventAnnotation", "a")})
    raise KeyError(name)


def aoef_metrics(v1, which):
    from props.aoef_rt import roundtrip_obligations, collection_roundtrip, AOEF
    if which == "evaluation":
        return collection_roundtrip(v1, "evaluation", "soundevent.data.evaluations.Evaluation", AOEF + "evaluation.EvaluationAdapter",
                                    prop="C09", label_fields=("metrics",))
    acls = {"clip_evaluation": AOEF + "clip_evaluation.ClipEvaluationAdapter", "match": AOEF + "match.MatchAdapter"}[which]
    return roundtrip_obligations(v1, acls, prop="C09", label_fields=("metrics",))[0]


NAMES = (["true_class_probability", "Accuracy", "BalancedAccuracy", "Top3Accuracy", "evaluate_example", "evaluate_sound_event"]
         + [f"overall_score[{w},{n}]" for w in TASKS[:3] for n in range(4)])


def run(s):
    v = setup()
    s.ver = v
    tasks = [task(v, nm, lambda nm=nm: obligations(v, nm)) for nm in NAMES]
    import props.C01 as C01
    v1 = C01.setup()
    for which in ("evaluation", "clip_evaluation", "match"):
        tasks.append(task(v1, f"aoef-metrics[{which}]", lambda which=which: aoef_metrics(v1, which)))
    s.attempt_all(tasks)
    s.attempt("tables", lambda: tables(s, v))
    s.min_obligations = 60
    s.discharge_all()
    s.triage()
    s.standin("metric_values")
    s.level = "other"
    s.explanation = ("Deductive: (1) tables read from the real module ASTs -- in each of the four task modules every (term, function) row of "
                     "SOUNDEVENT_METRICS / EXAMPLE_METRICS / RUN_METRICS pairs a term with the metric function of that name, rows of one "
                     "table carry pairwise different terms, and the terms of soundevent.terms.metrics have pairwise different names and "
                     "labels (so a label-keyed AOEF mapping cannot merge two of them); (2) true_class_probability against its definition, and the accuracy / "
                     "balanced accuracy / top-3 accuracy wrappers: what they hand to scikit-learn is the truth with unlabelled items as the extra "
                     "class index and the arg-max (resp. the full matrix, k = 3, labels 0..m) of the scores extended by the remaining mass -- numpy "
                     "row sums / arg-max and the scikit-learn scores are uninterpreted functions, so this proves the plumbing, not the numbers; "
                     "(3) the per-item wiring of clip_classification._evaluate_example and sound_event_classification._evaluate_sound_event "
                     "(the value stored under the term is that metric of the encoded truth and scores; score = the same probability), "
                     "encoders through their C19 contracts; (4) the three _compute_overall_score functions = mean of the scores present "
                     "(bounded: 0-3 clips); (5) AOEF: the metrics field of Evaluation, ClipEvaluation and Match survives the real "
                     "assemble_aoef / assemble_soundevent as a list of (label, value) pairs for arbitrary terms with distinct labels. "
                     "The numerical values of accuracy, balanced accuracy, top-3 accuracy, (mean) average precision and Jaccard index are "
                     "computed inside scikit-learn: they, order independence and the end-to-end save/load are decided by the bounded "
                     "stand-in metric_values against references written from the definitions in plain numpy.")
    s.trusted |= {"scikit-learn metric functions (values checked by the stand-in only)", "numpy c_, argmax, eye, isnan masks in the metric wrappers",
                  "encoder contracts (C19)", "DataAdapter base-class contract (C01)"}


FUNCTION_OF_LABEL = {"Accuracy": "accuracy", "Balanced Accuracy": "balanced_accuracy", "Top 3 Accuracy": "top_3_accuracy",
                     "Mean Average Precision": "mean_average_precision", "Average Precision": "average_precision",
                     "Jaccard Index": "jaccard", "True Class Probability": "true_class_probability"}


def tables(s, v):
    """the (term, function) tables, EVALUATED from the module sources (whatever the import style or layout of the literal)"""
    from pyvc.symex import Exec
    from pyvc.values import Tup, Lst, Obj, Fn, Str
    import ast as _ast
    terms_mod = v.repo.module("soundevent.terms.metrics")
    ext = Exec(v.repo, terms_mod, v.handlers, v.inline, "R", False)
    names, labels = {}, {}
    for attr, node in terms_mod.assigns.items():
        if isinstance(node, _ast.Call):
            val = ext.global_name(attr, None)
            if isinstance(val, Obj) and val.cls.endswith("terms.Term"):
                nm, lb = val.fields.get("name"), val.fields.get("label")
                names[attr] = nm.c if isinstance(nm, Str) and nm.concrete else None
                labels[attr] = lb.c if isinstance(lb, Str) and lb.concrete else None
    s.table("metric-terms-have-distinct-names", len(names) >= 7 and len(set(names.values())) == len(names) and None not in names.values(), str(names))
    s.table("metric-terms-have-distinct-labels", len(set(labels.values())) == len(labels) and None not in labels.values(), str(labels))
    for t in TASKS:
        m = v.repo.module("soundevent.evaluation.tasks." + t)
        ex = Exec(v.repo, m, v.handlers, v.inline, "R", False)
        for tb in TABLES:
            if tb not in m.assigns:
                continue
            val = ex.global_name(tb, None)
            rows_v = val.items if isinstance(val, (Tup, Lst)) and (isinstance(val, Tup) or val.concrete) else None
            rows, ok_shape = [], rows_v is not None
            for r in rows_v or []:
                if (isinstance(r, Tup) and len(r.items) == 2 and isinstance(r.items[0], Obj) and r.items[0].cls.endswith("terms.Term")
                        and isinstance(r.items[1], Fn) and isinstance(r.items[1].data, str)):
                    lb = r.items[0].fields.get("label")
                    rows.append((lb.c if isinstance(lb, Str) and lb.concrete else None, r.items[1].data))
                else:
                    ok_shape = False
            s.table(f"{t}.{tb}-is-a-table-of-(term,function)-rows", ok_shape, str(rows)[:200])
            s.table(f"{t}.{tb}-terms-pairwise-distinct", len({a for a, _ in rows}) == len(rows), str(rows))
            for a, b in rows:
                want = FUNCTION_OF_LABEL.get(a)
                s.table(f"{t}.{tb}-{a}-is-computed-by-its-own-function", want is not None and b == "soundevent.evaluation.metrics." + want, f"{a} -> {b}")
    return []
