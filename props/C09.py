"""C09 — evaluation metrics are what their terms say, in all four tasks."""
import ast

import z3

from props.common import new_verifier, with_models, task
from pyvc.values import Obj, Opt, Lst, Num

TASKS = ["clip_classification", "clip_multilabel_classification", "sound_event_classification", "sound_event_detection"]
TABLES = ["SOUNDEVENT_METRICS", "EXAMPLE_METRICS", "RUN_METRICS"]
# the metric function a term names (terms module attribute -> metrics module attribute)
FUNCTION_OF_TERM = {"accuracy": "accuracy", "balanced_accuracy": "balanced_accuracy", "top_3_accuracy": "top_3_accuracy",
                    "mean_average_precision": "mean_average_precision", "average_precision": "average_precision",
                    "jaccard_index": "jaccard", "true_class_probability": "true_class_probability"}
CE = "soundevent.data.clip_evaluations.ClipEvaluation"


def setup():
    import props.C08 as C08
    v = C08.setup()
    v.load_contracts("contracts.metrics")
    v.inline |= {"soundevent.evaluation.tasks.clip_classification._evaluate_example",
                 "soundevent.evaluation.tasks.sound_event_classification._evaluate_sound_event"}
    # the detection check sees true_class_probability inlined; here it is under its own contract
    v.inline.discard("soundevent.evaluation.metrics.true_class_probability")
    v.use("TrueClassProbability")
    from pyvc.array_model import SCORE_MATRIX_MODEL
    v.handlers.update(SCORE_MATRIX_MODEL)
    return v


def scored(n):
    return lambda sb: Lst(items=[Obj(CE, {"score": sb.make("Optional[float]", f"score{i}")}) for i in range(n)])


def obligations(v, name):
    if name == "true_class_probability":
        return v.verify("TrueClassProbability", "C09")
    if name.startswith("overall_score["):
        which, n = name[14:-1].split(",")
        cname = {"clip_classification": "OverallScoreClipClassification", "clip_multilabel_classification": "OverallScoreMultilabel",
                 "sound_event_classification": "OverallScoreSoundEventClassification"}[which]
        param = "evaluated_clip" if which == "sound_event_classification" else "evaluated_examples"
        return v.verify(cname, "C09", tag=f"[{n}]", fixed={param: scored(int(n))})
    if name in ("Accuracy", "BalancedAccuracy", "Top3Accuracy"):
        return v.verify(name, "C09")
    if name == "evaluate_example":
        return v.verify("EvaluateExample", "C09")
    if name == "evaluate_sound_event":
        import props.C08 as C08
        return v.verify("EvaluateClassifiedSoundEvent", "C09", fixed={
            "sound_event_prediction": lambda sb: C08.event(sb, "soundevent.data.sound_event_predictions.SoundEventPrediction", "q"),
            "sound_event_annotation": lambda sb: C08.event(sb, "soundevent.data.sound_event_annotations.SoundEventAnnotation", "a")})
    raise KeyError(name)


def aoef_metrics(v1, which):
    from props.aoef_rt import roundtrip_obligations, collection_roundtrip, AOEF
    if which == "evaluation":
        return collection_roundtrip(v1, "evaluation", "soundevent.data.evaluations.Evaluation", AOEF + "evaluation.EvaluationAdapter",
                                    prop="C09", label_fields=("metrics",))
    acls = {"clip_evaluation": AOEF + "clip_evaluation.ClipEvaluationAdapter", "match": AOEF + "match.MatchAdapter"}[which]
    return roundtrip_obligations(v1, acls, prop="C09", label_fields=("metrics",))[0]


NAMES = (["true_class_probability", "Accuracy", "BalancedAccuracy", "Top3Accuracy", "evaluate_example", "evaluate_sound_event"]
         + [f"overall_score[{w},{n}]" for w in TASKS[:3] for n in range(4)])


def run(s):
    v = setup()
    s.ver = v
    tasks = [task(v, nm, lambda nm=nm: obligations(v, nm)) for nm in NAMES]
    import props.C01 as C01
    v1 = C01.setup()
    for which in ("evaluation", "clip_evaluation", "match"):
        tasks.append(task(v1, f"aoef-metrics[{which}]", lambda which=which: aoef_metrics(v1, which)))
    s.attempt_all(tasks)
    s.attempt("tables", lambda: tables(s, v))
    s.min_obligations = 60
    s.discharge_all()
    s.triage()
    s.standin("metric_values")
    s.level = "other"
    s.explanation = ("Deductive: (1) tables read from the real module ASTs -- in each of the four task modules every (term, function) row of "
                     "SOUNDEVENT_METRICS / EXAMPLE_METRICS / RUN_METRICS pairs a term with the metric function of that name, rows of one "
                     "table carry pairwise different terms, and the terms of soundevent.terms.metrics have pairwise different names and "
                     "labels (so a label-keyed AOEF mapping cannot merge two of them); (2) true_class_probability against its definition, and the accuracy / "
                     "balanced accuracy / top-3 accuracy wrappers: what they hand to scikit-learn is the truth with unlabelled items as the extra "
                     "class index and the arg-max (resp. the full matrix, k = 3, labels 0..m) of the scores extended by the remaining mass -- numpy "
                     "row sums / arg-max and the scikit-learn scores are uninterpreted functions, so this proves the plumbing, not the numbers; "
                     "(3) the per-item wiring of clip_classification._evaluate_example and sound_event_classification._evaluate_sound_event "
                     "(the value stored under the term is that metric of the encoded truth and scores; score = the same probability), "
                     "encoders through their C19 contracts; (4) the three _compute_overall_score functions = mean of the scores present "
                     "(bounded: 0-3 clips); (5) AOEF: the metrics field of Evaluation, ClipEvaluation and Match survives the real "
                     "assemble_aoef / assemble_soundevent as a list of (label, value) pairs for arbitrary terms with distinct labels. "
                     "The numerical values of accuracy, balanced accuracy, top-3 accuracy, (mean) average precision and Jaccard index are "
                     "computed inside scikit-learn: they, order independence and the end-to-end save/load are decided by the bounded "
                     "stand-in metric_values against references written from the definitions in plain numpy.")
    s.trusted |= {"scikit-learn metric functions (values checked by the stand-in only)", "numpy c_, argmax, eye, isnan masks in the metric wrappers",
                  "encoder contracts (C19)", "DataAdapter base-class contract (C01)"}


def tables(s, v):
    terms_mod = v.repo.module("soundevent.terms.metrics")
    names, labels = {}, {}
    for attr, node in terms_mod.assigns.items():
        if isinstance(node, ast.Call) and getattr(node.func, "id", "") == "Term":
            kw = {k.arg: k.value.value for k in node.keywords if isinstance(k.value, ast.Constant)}
            names[attr], labels[attr] = kw.get("name"), kw.get("label")
    s.table("metric-terms-have-distinct-names", len(set(names.values())) == len(names) and None not in names.values(), str(names))
    s.table("metric-terms-have-distinct-labels", len(set(labels.values())) == len(labels) and None not in labels.values(), str(labels))
    for t in TASKS:
        m = v.repo.module("soundevent.evaluation.tasks." + t)
        t_alias = next((k for k, q in m.imports.items() if q == "soundevent.terms.metrics"), None)
        f_alias = next((k for k, q in m.imports.items() if q == "soundevent.evaluation.metrics"), None)
        s.table(f"{t}-imports-terms-and-metrics", t_alias is not None and f_alias is not None, f"{t_alias} {f_alias}")
        for tb in TABLES:
            node = m.assigns.get(tb)
            if node is None:
                continue
            rows = []
            ok_shape = isinstance(node, ast.Tuple)
            for r in (node.elts if ok_shape else []):
                if (isinstance(r, ast.Tuple) and len(r.elts) == 2 and all(isinstance(e, ast.Attribute) and isinstance(e.value, ast.Name) for e in r.elts)
                        and r.elts[0].value.id == t_alias and r.elts[1].value.id == f_alias):
                    rows.append((r.elts[0].attr, r.elts[1].attr))
                else:
                    ok_shape = False
            s.table(f"{t}.{tb}-is-a-literal-table-of-(term,function)-rows", ok_shape, ast.unparse(node)[:200])
            s.table(f"{t}.{tb}-terms-pairwise-distinct", len({a for a, _ in rows}) == len(rows), str(rows))
            for a, b in rows:
                s.table(f"{t}.{tb}-{a}-is-computed-by-its-own-function", FUNCTION_OF_TERM.get(a) == b and a in names, f"{a} -> {b}")
    return []
