"""C10 stand-in: real crowsetta objects; onset/offset/frequency lattices, samplerates {8000, 44100, 192000}, time
expansion {1, 2, 10, 0.5}, all nine geometry types, the boolean option cube x mapping hit/miss x explicit term/key
present/absent.  Import, export, and the export-after-import round trip."""
import itertools
import sys
import warnings

import crowsetta

from bounded.harness import StandIn
from bounded.geomgen import TYPES, random_geometry
from soundevent import data
from soundevent.data.compat import term_from_key, key_from_term
from soundevent.geometry import compute_bounds
from soundevent.io.crowsetta.labels import label_to_tags, label_from_tag, label_from_tags
from soundevent.io.crowsetta.segment import segment_from_annotation, segment_to_annotation, create_crowsetta_segment
from soundevent.io.crowsetta.bbox import bbox_from_annotation, bbox_to_annotation
from soundevent.io.crowsetta.sequence import sequence_from_annotations, sequence_to_annotations

EMPTY = "__empty__"


def cascade(label, tag_fn, tag_mapping, term_mapping, key_mapping, key, term, fallback, empty_labels):
    """the documented cascade (numbered algorithm of label_to_tags' docstring)"""
    if label in empty_labels:
        return []
    if tag_fn is not None:
        try:
            t = tag_fn(label)
            return t if isinstance(t, list) else [t]
        except ValueError:
            pass
    if term_mapping is not None and label in term_mapping:
        term = term_mapping[label]
    if tag_mapping is not None and label in tag_mapping:
        t = tag_mapping[label]
        return t if isinstance(t, list) else [t]
    if key_mapping is not None and label in key_mapping:
        key = key_mapping[label]
    if key is None:
        key = fallback
    if term is None:
        term = term_from_key(key)
    return [data.Tag(term=term, value=label)]


def main():
    warnings.simplefilter("ignore")
    s = StandIn("crowsetta_options", "labels {hit, miss, empty} x tag_fn {none, ok, raises} x 3 mappings {none, hit, miss} x term/key {none, given}; 9 geometry types x cast/ignore/raise flags; times x samplerates {8000,44100,192000} x time expansion {1,2,10,.5}")
    T = lambda k, v: data.Tag(term=term_from_key(k), value=v)
    tagA, tagB = T("species", "A"), [T("species", "B"), T("call", "x")]
    termX = term_from_key("explicit_term")

    def fn_ok(label):
        return T("fn", label)

    def fn_raises(label):
        raise ValueError("no")
    # ---------------- import: label -> tags
    for label in ("dog", "cat", EMPTY):
        for tag_fn, tm, trm, km, key, term in itertools.product(
                (None, fn_ok, fn_raises), (None, {"dog": tagA}, {"dog": tagB}, {"bat": tagA}), (None, {"dog": termX}, {"bat": termX}),
                (None, {"dog": "mapped_key"}, {"bat": "mapped_key"}), (None, "pet"), (None, term_from_key("given_term"))):
            args = dict(label=label, tag_fn=tag_fn, tag_mapping=tm, term_mapping=trm, key_mapping=km, key=key, term=term, fallback="crowsetta", empty_labels=(EMPTY,))
            want = cascade(**args)
            got = label_to_tags(**args)
            keyid = f"label={label}:fn={getattr(tag_fn, '__name__', None)}:tm={None if tm is None else 'hit' if label in tm else 'miss'}:trm={None if trm is None else 'hit' if label in trm else 'miss'}:km={None if km is None else 'hit' if label in km else 'miss'}:key={key}:term={'given' if term else None}"
            s.case(None, keyid, sample=dict(case=keyid))
            if got != want:
                klass = ("explicit-term-beats-tag-mapping" if term is not None and tm is not None and label in tm and (tag_fn is None or tag_fn is fn_raises)
                         else "term-mapping-beats-tag-mapping" if trm is not None and label in trm and tm is not None and label in tm
                         else "OTHER")
                s.fail(f"label_to_tags:{klass}:{keyid}", f"label_to_tags({keyid}) -> {[(key_from_term(t.term), t.value) for t in got]}, documented cascade gives {[(key_from_term(t.term), t.value) for t in want]}")
    # ---------------- export: tags -> label
    tags = [T("species", "A"), T("call", "x"), T("species", "B")]
    for lst, label_fn, mapping, vo, sep, sk, idx, seqfn in itertools.product(
            ([], tags[:1], tags), (None, lambda t: "F" + t.value), (None, {tags[0]: "MAPPED"}), (False, True), (":", "="),
            (None, "call", "nope", "species"), (None, 0, 4, -1), (None, lambda ts: "SEQ")):    # "species" occurs twice: the FIRST tag with the key is selected
        kw = dict(label_fn=label_fn, label_mapping=mapping, value_only=vo, separator=sep) if False else {}
        inner = {}
        if label_fn is not None:
            inner["label_fn"] = label_fn
        if mapping is not None:
            inner["label_mapping"] = mapping
        if vo:
            inner["value_only"] = True

        def one(t, value_only=vo):
            if label_fn is not None:
                return label_fn(t)
            if mapping is not None and t in mapping:
                return mapping[t]
            return t.value if value_only else f"{key_from_term(t.term)}:{t.value}"
        if seqfn is not None:
            want = "SEQ"
        elif not lst:
            want = EMPTY
        elif sk is not None:
            hit = next((t for t in lst if key_from_term(t.term) == sk), None)
            want = EMPTY if hit is None else one(hit, True)
        elif idx is not None:
            want = one(lst[idx % len(lst)])
        else:
            want = ",".join(one(t) for t in lst)
        keyid = f"n={len(lst)}:fn={label_fn is not None}:map={mapping is not None}:vo={vo}:sk={sk}:idx={idx}:seq={seqfn is not None}"
        s.case(None, keyid + sep)
        try:
            got = label_from_tags(lst, seq_label_fn=seqfn, select_by_key=sk, index=idx, **inner)
        except Exception as e:
            s.fail(f"label_from_tags_raises:{type(e).__name__}:sk={sk is not None}:vo={vo}", f"label_from_tags({keyid}) raised {type(e).__name__}: {e}")
            continue
        if got != want:
            s.fail(f"label_from_tags:{keyid}", f"label_from_tags({keyid}) = {got!r}, documented cascade gives {want!r}")
    # ---------------- segments / bboxes: times, samples, time expansion, Nyquist
    for sr, te in itertools.product((8000, 44100, 192000), (1.0, 2.0, 10.0, 0.5)):
        rec = data.Recording(path="a.wav", duration=100, channels=1, samplerate=sr, time_expansion=te)
        for on, off in ((0.0, 0.5), (0.125, 0.126), (1 / 3, 2 / 3), (12.5, 99.0)):
            for adjust, with_seconds in itertools.product((True, False), (True, False)):
                keyid = f"sr={sr}:te={te}:on={on:.4f}:adjust={adjust}:seconds={with_seconds}"
                s.case(None, ("seg", keyid))
                on_sample, off_sample = int(on * sr), int(off * sr) + 1
                seg = create_crowsetta_segment(onset_s=on if with_seconds else None, offset_s=off if with_seconds else None,
                                               onset_sample=on_sample, offset_sample=off_sample, label="dog")
                ann = segment_to_annotation(seg, rec, adjust_time_expansion=adjust)
                a, b = (on, off) if with_seconds else (on_sample / (sr / te), off_sample / (sr / te))
                if adjust and te != 1:
                    a, b = a / te, b / te
                got = ann.sound_event.geometry.coordinates
                if ann.sound_event.geometry.type != "TimeInterval" or abs(got[0] - a) > 1e-12 * max(1, a) or abs(got[1] - b) > 1e-12 * max(1, b):
                    s.fail(f"segment_to_annotation:{keyid}", f"interval {got}, expected {[a, b]}")
                if [(key_from_term(t.term), t.value) for t in ann.tags] != [("crowsetta", "dog")]:
                    s.fail(f"segment_tags:{keyid}", f"tags {ann.tags}")
                box = crowsetta.BBox(onset=on, offset=off, low_freq=100.0, high_freq=min(3000.0, sr / 2), label="dog")
                ab = bbox_to_annotation(box, rec, adjust_time_expansion=adjust)
                f = te if adjust and te != 1 else 1.0
                want = [on / f, 100.0 * f, off / f, min(3000.0, sr / 2) * f]
                gotb = ab.sound_event.geometry.coordinates
                if any(abs(x - y) > 1e-9 * max(1, abs(y)) for x, y in zip(gotb, want)):
                    s.fail(f"bbox_to_annotation:{keyid}", f"box {gotb}, expected {want}")
        # round trip: te = 1, value-only labels
        if te == 1.0:
            segs = [create_crowsetta_segment(onset_s=o, offset_s=o + 0.25, onset_sample=int(o * sr), offset_sample=int((o + 0.25) * sr), label=l)
                    for o, l in ((0.0, "a"), (0.5, "b"), (1.25, "a"))]
            anns = sequence_to_annotations(crowsetta.Sequence.from_segments(segs), rec)
            back = sequence_from_annotations(anns, value_only=True)
            s.case(None, ("roundtrip", sr))
            for x, y in zip(segs, back.segments):
                if (x.onset_s, x.offset_s, x.label, x.onset_sample, x.offset_sample) != (y.onset_s, y.offset_s, y.label, y.onset_sample, y.offset_sample):
                    s.fail(f"roundtrip:{sr}", f"export(import(segment)) changed {x} into {y}")
            if len(back.segments) != len(segs):
                s.fail(f"roundtrip_len:{sr}", "number of segments changed")
    # ---------------- export of all geometry types with the flag cube
    rec = data.Recording(path="a.wav", duration=100, channels=1, samplerate=8000)
    for kind in TYPES:
        g = random_geometry(s.rng, kind)
        ann = data.SoundEventAnnotation(sound_event=data.SoundEvent(recording=rec, geometry=g), tags=[T("species", "A")])
        b = compute_bounds(g)
        for cast in (True, False):
            s.case(None, ("seg-export", kind, cast))
            try:
                seg = segment_from_annotation(ann, cast_to_segment=cast, value_only=True)
                ok = (kind == "TimeInterval" or cast) and (seg.onset_s, seg.offset_s) == (b[0], b[2]) and seg.onset_sample == int(b[0] * 8000) and seg.offset_sample == int(b[2] * 8000) and seg.label == "A"
            except ValueError:
                ok = kind != "TimeInterval" and not cast
            if not ok:
                s.fail(f"segment_from_annotation:{kind}:cast={cast}", f"export of {kind} with cast_to_segment={cast} wrong")
            for rtg in (True, False):
                s.case(None, ("bbox-export", kind, cast, rtg))
                should_raise = (kind != "BoundingBox" and not cast) or (kind in ("TimeInterval", "TimeStamp") and rtg)
                try:
                    bx = bbox_from_annotation(ann, cast_to_bbox=cast, raise_on_time_geometries=rtg, value_only=True)
                    ok = not should_raise and (bx.onset, bx.offset, bx.low_freq) == (b[0], b[2], b[1]) and bx.high_freq == min(b[3], 4000.0)
                except ValueError:
                    ok = should_raise or b[0] >= b[2] or b[1] >= min(b[3], 4000.0)   # crowsetta's own validators reject empty boxes
                if not ok:
                    s.fail(f"bbox_from_annotation:{kind}:cast={cast}:rtg={rtg}", f"export of {kind} (cast={cast}, raise_on_time_geometries={rtg}) wrong")
    # ---------------- the Nyquist cap on exported boxes: odd and even samplerates, upper frequencies just below / at / above samplerate / 2
    for sr in (8000, 8001, 22025, 44101):
        rec_n = data.Recording(path="a.wav", duration=100, channels=1, samplerate=sr)
        for high in (sr / 2 - 0.75, sr / 2 - 0.25, sr / 2, sr / 2 + 0.25, sr / 2 + 1000.0):
            s.case(None, ("nyquist", sr, high))
            ann_n = data.SoundEventAnnotation(sound_event=data.SoundEvent(recording=rec_n, geometry=data.BoundingBox(coordinates=[1.0, 100.0, 2.0, high])), tags=[T("species", "A")])
            bx = bbox_from_annotation(ann_n, value_only=True)
            if bx.high_freq != min(high, sr / 2) or (bx.onset, bx.offset, bx.low_freq) != (1.0, 2.0, 100.0):
                s.fail(f"bbox_nyquist:sr={sr}", f"box with upper frequency {high} on a {sr} Hz recording exported with high_freq {bx.high_freq}, expected min(high, samplerate / 2) = {min(high, sr / 2)}")
    # ---------------- the clip-level wrapper: (cast_geometry, ignore_errors) x format on a clip with matching and non-matching geometries
    from soundevent.io.crowsetta.annotation import annotation_from_clip_annotation
    clip = data.Clip(recording=rec, start_time=0, end_time=10)
    mk = lambda g: data.SoundEventAnnotation(sound_event=data.SoundEvent(recording=rec, geometry=g), tags=[T("species", "A")])
    interval, box = data.TimeInterval(coordinates=[1.0, 2.0]), data.BoundingBox(coordinates=[3.0, 100.0, 4.0, 900.0])
    line = data.LineString(coordinates=[[5.0, 100.0], [6.0, 900.0]])
    for fmt, cast, ign in itertools.product(("seq", "bbox"), (True, False), (True, False)):
        s.case(None, ("clip-export", fmt, cast, ign))
        # one event whose geometry matches the format and one that can be cast to it (a time-only geometry cannot become a box)
        ca = data.ClipAnnotation(clip=clip, sound_events=[mk(interval), mk(box)] if fmt == "seq" else [mk(box), mk(line)])
        # with casting every event is exported; without it the non-matching one is skipped (ignore_errors) or the call raises
        want = 2 if cast else (1 if ign else "raise")
        try:
            out = annotation_from_clip_annotation(ca, "a.csv", fmt, ignore_errors=ign, cast_geometry=cast, value_only=True)
            got = len(out.seq.segments) if fmt == "seq" else len(out.bboxes)
        except ValueError:
            got = "raise"
        if got != want:
            s.fail(f"clip_export:{fmt}:cast={cast}:ignore={ign}", f"annotation_from_clip_annotation(fmt={fmt}, cast_geometry={cast}, ignore_errors={ign}) exported {got}, expected {want}")
    return s.finish("one case per option combination / (samplerate, time expansion, times) / geometry type x flags; distinct by inputs")


if __name__ == "__main__":
    sys.exit(main())
