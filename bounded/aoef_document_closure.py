"""C02 stand-in: parses the JSON written by the real save and checks closure under reference, uniqueness of
identifiers, parent-before-child for sequences, and that the objects defined are exactly those reachable from the
saved collection (independent reachability walk over the input graph)."""
import json
import os
import sys
import tempfile

from bounded.harness import StandIn
from bounded.aoefgen import Gen
from soundevent import data, io

# field name -> top-level list it refers to (by key 'uuid', or 'id' for tags)
REFS = {
    "recordings": {"tags": "tags", "owners": "users"},
    "clips": {"recording": "recordings"},
    "sound_events": {"recording": "recordings"},
    "sequences": {"sound_events": "sound_events", "parent": "sequences"},
    "sound_event_annotations": {"sound_event": "sound_events", "tags": "tags", "created_by": "users"},
    "sequence_annotations": {"sequence": "sequences", "tags": "tags", "created_by": "users"},
    "clip_annotations": {"clip": "clips", "sound_events": "sound_event_annotations", "sequences": "sequence_annotations", "tags": "tags"},
    "tasks": {"clip": "clips"},
    "sound_event_predictions": {"sound_event": "sound_events", "tags": "tags"},
    "sequence_predictions": {"sequence": "sequences", "tags": "tags"},
    "clip_predictions": {"clip": "clips", "sound_events": "sound_event_predictions", "sequences": "sequence_predictions", "tags": "tags"},
    "matches": {"source": "sound_event_predictions", "target": "sound_event_annotations"},
    "clip_evaluations": {"annotations": "clip_annotations", "predictions": "clip_predictions", "matches": "matches"},
}
TOP_REFS = {"project_tags": "tags", "evaluation_tags": "tags"}


def ident(o):
    return o["id"] if "id" in o and "uuid" not in o else o["uuid"]


def ref_ids(value):
    """ids mentioned by a reference-valued field: id | [id] | [[id, score]]"""
    if value is None:
        return []
    if isinstance(value, list):
        return [v[0] if isinstance(v, list) else v for v in value]
    return [value]


def reachable(obj):
    """independent walk: distinct objects of each class reachable from a data object"""
    seen = {}
    kinds = {data.User: "users", data.Tag: "tags", data.Recording: "recordings", data.Clip: "clips", data.SoundEvent: "sound_events",
             data.Sequence: "sequences", data.SoundEventAnnotation: "sound_event_annotations", data.SequenceAnnotation: "sequence_annotations",
             data.ClipAnnotation: "clip_annotations", data.AnnotationTask: "tasks", data.SoundEventPrediction: "sound_event_predictions",
             data.SequencePrediction: "sequence_predictions", data.ClipPrediction: "clip_predictions", data.Match: "matches",
             data.ClipEvaluation: "clip_evaluations"}

    def walk(x):
        if isinstance(x, (list, tuple)):
            for y in x:
                walk(y)
            return
        if not hasattr(x, "model_fields"):
            return
        k = kinds.get(type(x))
        if k is not None:
            key = (x.term.label, x.value) if k == "tags" else str(x.uuid)
            if key in seen.setdefault(k, set()):
                return
            seen[k].add(key)
        for f in type(x).model_fields:
            walk(getattr(x, f))
    walk(obj)
    return {k: v for k, v in seen.items()}


def check_document(s, key, doc, obj):
    d = doc["data"]
    lists = {k: v for k, v in d.items() if isinstance(v, list) and v and isinstance(v[0], dict)}
    ids = {}
    for name, items in lists.items():
        got = [ident(o) for o in items]
        if len(set(got)) != len(got):
            s.fail(f"closure_unique:{key.split(':')[0]}:{name}", f"{key}: duplicate identifiers in {name}")
        ids[name] = set(got)

    def check_refs(owner, o, refs):
        for field, target in refs.items():
            for r in ref_ids(o.get(field)):
                if r not in ids.get(target, set()):
                    s.fail(f"closure_dangling:{key.split(':')[0]}:{owner}.{field}", f"{key}: {owner}.{field} mentions {r}, not defined in {target}")
        for note in o.get("notes") or []:
            if note.get("created_by") is not None and note["created_by"] not in ids.get("users", set()):
                s.fail(f"closure_dangling:{key.split(':')[0]}:{owner}.notes.created_by", f"{key}: note author {note['created_by']} not defined")
        for badge in o.get("status_badges") or []:
            if badge.get("owner") is not None and badge["owner"] not in ids.get("users", set()):
                s.fail(f"closure_dangling:{key.split(':')[0]}:{owner}.status_badges.owner", f"{key}: badge owner not defined")
    for name, items in lists.items():
        for o in items:
            check_refs(name, o, REFS.get(name, {}))
    for field, target in TOP_REFS.items():
        for r in ref_ids(d.get(field)):
            if r not in ids.get(target, set()):
                s.fail(f"closure_dangling:{key.split(':')[0]}:{field}", f"{key}: {field} mentions tag {r}, not defined")
    seen = set()
    for o in lists.get("sequences", []):
        if o.get("parent") is not None and o["parent"] not in seen:
            s.fail(f"closure_parent_order:{key.split(':')[0]}", f"{key}: sequence {o['uuid']} listed before its parent")
        seen.add(o["uuid"])
    want = reachable(obj)
    for name in set(want) | set(lists):
        if name in ("tags",):
            n_doc, n_want = len(lists.get(name, [])), len(want.get(name, set()))
            if n_doc != n_want:
                s.fail(f"closure_exact:{key.split(':')[0]}:{name}", f"{key}: {n_doc} tags written, {n_want} distinct tags reachable")
        elif name in want or name in REFS:
            a, b = {str(i) for i in ids.get(name, set())}, want.get(name, set())
            if a != b:
                s.fail(f"closure_exact:{key.split(':')[0]}:{name}", f"{key}: {name} written {len(a)}, reachable {len(b)}; missing {sorted(b - a)[:2]}, extra {sorted(a - b)[:2]}")


def main():
    s = StandIn("aoef_document_closure", "same graphs as aoef_roundtrip: 41 one-bit masks + seeded random masks, 8 collection types")
    masks = [0, (1 << 40) - 1] + [1 << k for k in range(40)] + [s.rng.getrandbits(40) for _ in range(8 if s.tier == "quick" else 200)]
    tmpdir = tempfile.mkdtemp(prefix="verif_c02_")
    try:
        for mask in masks:
            g = Gen(s.rng, mask=mask).build()
            for tname, obj in g.collections().items():
                key = f"{tname}:mask={mask:x}"
                s.case(None, key, sample=dict(type=tname, mask=hex(mask)))
                path = os.path.join(tmpdir, "d.json")
                try:
                    io.save(obj, path)
                except Exception as e:   # a valid collection must be savable: a failing save is a finding, not a crash of this check
                    s.fail(f"save_raises:{tname}:{type(e).__name__}", f"{key}: io.save raised {type(e).__name__}: {str(e)[:200]}")
                    continue
                check_document(s, key, json.load(open(path)), obj)
    finally:
        for f in os.listdir(tmpdir):
            os.unlink(os.path.join(tmpdir, f))
        os.rmdir(tmpdir)
    return s.finish("one case per (collection type, optional-field mask); distinct by mask and type")


if __name__ == "__main__":
    sys.exit(main())
