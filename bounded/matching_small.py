"""C07 stand-in: all configurations of <= 3 x <= 3 boxes on a 4-position lattice (ties, all-disjoint, empty lists) and
random mixed geometries up to 6 x 6: every index exactly once, pairs only with positive affinity, reported affinity
= compute_affinity of that pair, sum = brute-force optimum over one-to-one pairings.  Also checks the scipy contract."""
import itertools
import sys

from bounded.harness import StandIn
from bounded.geomgen import TYPES, random_geometry
from soundevent import data
from soundevent.evaluation import compute_affinity, match_geometries


def best_sum(aff, n, m):
    best = 0.0
    cols = list(range(m))
    for k in range(0, min(n, m) + 1):
        for rows in itertools.combinations(range(n), k):
            for perm in itertools.permutations(cols, k):
                best = max(best, sum(aff[r][c] for r, c in zip(rows, perm)))
    return best


def check(s, key, src, tgt, buffers=None):
    n, m = len(src), len(tgt)
    kw = {} if buffers is None else dict(time_buffer=buffers[0], freq_buffer=buffers[1])
    try:
        res = list(match_geometries(src, tgt, **kw))
    except Exception as e:
        s.fail(f"match_raises:{type(e).__name__}:n={n}:m={m}", f"match_geometries raised {type(e).__name__}: {e} ({key})")
        return
    aff = [[compute_affinity(a, b, **kw) for b in tgt] for a in src]
    si = sorted(i for i, _, _ in res if i is not None)
    ti = sorted(j for _, j, _ in res if j is not None)
    if si != list(range(n)) or ti != list(range(m)):
        s.fail(f"match_coverage:n={n}:m={m}", f"{key}: source indices {si}, target indices {ti} (each must occur exactly once)")
        return
    for i, j, a in res:
        if i is not None and j is not None:
            if not aff[i][j] > 0:
                s.fail(f"match_zero_affinity_pair:n={n}:m={m}", f"{key}: pair ({i},{j}) has affinity {aff[i][j]} but was paired")
            if a != aff[i][j]:
                s.fail(f"match_reported:n={n}:m={m}", f"{key}: pair ({i},{j}) reports {a}, compute_affinity gives {aff[i][j]}")
        elif a != 0:
            s.fail(f"match_unpaired_affinity:n={n}:m={m}", f"{key}: unpaired entry reports affinity {a}")
    total = sum(a for _, _, a in res)
    if n <= 4 and m <= 4:
        best = best_sum(aff, n, m)
        if abs(total - best) > 1e-9:
            s.fail(f"match_optimum:n={n}:m={m}", f"{key}: reported sum {total}, optimum {best}")


def main():
    s = StandIn("matching_small", "all <=3 x <=3 box configurations on a 4-position time lattice; random mixed geometries up to 6 x 6")
    boxes = [data.BoundingBox(coordinates=[float(p), 100.0, float(p) + w, 1000.0]) for p in range(4) for w in (0.9, 1.6)]
    sizes = [(0, 0), (0, 2), (2, 0), (1, 1), (1, 2), (2, 1), (2, 2), (3, 2), (2, 3), (3, 3)]
    for n, m in sizes:
        combos = list(itertools.product(itertools.combinations_with_replacement(range(len(boxes)), n), itertools.combinations_with_replacement(range(len(boxes)), m)))
        if s.tier == "quick" and len(combos) > 300:
            combos = s.rng.sample(combos, 300)
        for a, b in combos:
            s.case(None, ("lattice", a, b), sample=dict(source=[boxes[i].coordinates for i in a], target=[boxes[j].coordinates for j in b]))
            check(s, f"boxes {a} vs {b}", [boxes[i] for i in a], [boxes[j] for j in b])
    # near misses of the buffered (zero-extent) types: gaps below, between and above one and two default buffers
    def near(kind, t, f):
        if kind == "TimeStamp":
            return data.TimeStamp(coordinates=t)
        if kind == "Point":
            return data.Point(coordinates=[t, f])
        if kind == "LineString":
            return data.LineString(coordinates=[[t, f], [t + 0.001, f + 10.0]])
        return data.MultiPoint(coordinates=[[t, f], [t + 0.001, f]])
    for ka, kb in itertools.product(("TimeStamp", "Point", "LineString", "MultiPoint"), repeat=2):
        for gap in (0.004, 0.009, 0.012, 0.015, 0.019, 0.025):
            for df in (0.0, 120.0, 190.0):
                src = [near(ka, 1.0, 1000.0), near(ka, 3.0, 1000.0)]
                tgt = [near(kb, 1.0 + gap + (0.001 if ka in ("LineString", "MultiPoint") else 0.0), 1000.0 + df)]
                s.case(None, ("near", ka, kb, gap, df), sample=dict(source=[g.coordinates for g in src], target=[g.coordinates for g in tgt]))
                check(s, f"near {ka} vs {kb} gap={gap} df={df}", src, tgt)
                check(s, f"near {kb} vs {ka} gap={gap} df={df} (swapped)", tgt, src)
    # non-default buffers: the affinities reported and optimised must be those of compute_affinity WITH these buffers
    for (ka, kb), bufs in itertools.product((("TimeStamp", "TimeStamp"), ("Point", "Point"), ("TimeStamp", "LineString"), ("MultiPoint", "Point")),
                                            ((0.001, 100.0), (0.5, 100.0), (0.01, 2000.0), (0.3, 1500.0))):
        for gap, df in ((0.004, 0.0), (0.05, 150.0), (0.4, 900.0), (0.8, 2500.0)):
            src = [near(ka, 1.0, 3000.0), near(ka, 1.0 + gap / 2, 3000.0 + df)]
            tgt = [near(kb, 1.0 + gap, 3000.0 + df), near(kb, 6.0, 3000.0)]
            s.case(None, ("buffers", ka, kb, bufs, gap, df), sample=dict(source=[g.coordinates for g in src], target=[g.coordinates for g in tgt], buffers=bufs))
            check(s, f"buffers={bufs} {ka} vs {kb} gap={gap} df={df}", src, tgt, buffers=bufs)
    # near ties: two pairings whose totals differ by less than 1e-6 (the optimum is over the exact affinities)
    def iv(end):
        return data.TimeInterval(coordinates=[0.0, end])
    check(s, "near tie (fixed)", [iv(1.0), iv(0.8999985)], [iv(0.9000017), iv(0.9000021)])
    steps = range(-3, 4) if s.tier == "quick" else range(-6, 7)
    for i, j, k in itertools.product(steps, repeat=3):
        a, b, c = 0.9 + i * 3.3e-7, 0.9 + j * 4.1e-7, 0.9 + k * 2.9e-7
        s.case(None, ("near-tie", i, j, k), sample=dict(source=[[0.0, 1.0], [0.0, a]], target=[[0.0, b], [0.0, c]]))
        check(s, f"near tie {i},{j},{k}", [iv(1.0), iv(a)], [iv(b), iv(c)])
    for k in range(60 if s.tier == "quick" else 600):
        n, m = s.rng.randint(0, 6), s.rng.randint(0, 6)
        src = [random_geometry(s.rng, s.rng.choice(TYPES), tmax=4.0) for _ in range(n)]
        tgt = [random_geometry(s.rng, s.rng.choice(TYPES), tmax=4.0) for _ in range(m)]
        s.case(None, ("random", k))
        check(s, f"random#{k} ({[g.type for g in src]} vs {[g.type for g in tgt]})", src, tgt)
    return s.finish("one case per (source list, target list); distinct by configuration")


if __name__ == "__main__":
    sys.exit(main())
