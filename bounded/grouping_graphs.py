"""C13 stand-in: ALL symmetric relations on <= 5 nodes (quick) / <= 6 nodes (thorough: 2^15 graphs at n = 6) plus random
graphs of 7..30 nodes, against an independent union-find; records every call of the comparison function."""
import itertools
import sys

from bounded.harness import StandIn
from soundevent import data
from soundevent.geometry import group_sound_events


def components(n, edges):
    parent = list(range(n))

    def find(x):
        while parent[x] != x:
            parent[x] = parent[parent[x]]
            x = parent[x]
        return x
    for a, b in edges:
        parent[find(a)] = find(b)
    groups = {}
    for i in range(n):
        groups.setdefault(find(i), []).append(i)
    return sorted(groups.values())


def run_case(s, events, edges, key):
    n = len(events)
    index = {id(e): i for i, e in enumerate(events)}
    calls = []

    def cmp(a, b):
        i, j = index[id(a)], index[id(b)]
        calls.append((i, j))
        return (min(i, j), max(i, j)) in edges
    try:
        seqs = group_sound_events(events, cmp)
    except Exception as e:
        s.fail(f"group_raises:{type(e).__name__}:n={n}", f"group_sound_events raised {type(e).__name__}: {e} for {key}")
        return
    got = sorted(sorted(index[id(e)] for e in q.sound_events) for q in seqs)
    want = components(n, edges)
    if got != want:
        s.fail(f"group_components:n={n}:{key}", f"n={n} edges={sorted(edges)}: sequences {got}, connected components {want}")
    for q in seqs:
        pos = [index[id(e)] for e in q.sound_events]
        if pos != sorted(pos):
            s.fail(f"group_order:n={n}:{key}", f"input order not kept inside a sequence: {pos}")
    flat = [index[id(e)] for q in seqs for e in q.sound_events]
    if sorted(flat) != list(range(n)):
        s.fail(f"group_partition:n={n}:{key}", f"not a partition: {flat}")
    if any(i == j for i, j in calls) or len(set(map(frozenset, calls))) != len(calls):
        s.fail(f"group_calls:n={n}:{key}", f"comparison called on identical or repeated pairs: {calls}")
    if n == 0 and seqs != []:
        s.fail("group_empty", f"empty input gives {seqs}")


def main():
    s = StandIn("grouping_graphs", "all graphs on <= 5 nodes (quick) / <= 6 nodes (thorough), random graphs on 7..30 nodes")
    rec = data.Recording(path="a.wav", duration=100, channels=1, samplerate=8000)
    pool = [data.SoundEvent(recording=rec, geometry=data.TimeStamp(coordinates=float(i))) for i in range(30)]
    nmax = 5 if s.tier == "quick" else 6
    for n in range(0, nmax + 1):
        pairs = list(itertools.combinations(range(n), 2))
        for mask in range(2 ** len(pairs)):
            edges = {p for k, p in enumerate(pairs) if mask >> k & 1}
            s.case(None, (n, mask), sample=dict(n=n, edges=sorted(edges)) if mask % 97 == 1 else None)
            run_case(s, pool[:n], edges, f"mask={mask}")
    for k in range(300 if s.tier == "quick" else 3000):
        n = s.rng.randint(7, 30)
        pr = s.rng.choice([0.02, 0.08, 0.2, 0.5])
        edges = {(i, j) for i in range(n) for j in range(i + 1, n) if s.rng.random() < pr}
        s.case(None, ("rand", k))
        run_case(s, pool[:n], edges, f"random#{k}")
    return s.finish("one case per graph (exhaustive enumeration of edge sets for small n, seeded random beyond); all distinct")


if __name__ == "__main__":
    sys.exit(main())
