"""C01 stand-in: real io.save / io.load through a temporary file with a fresh call, field-by-field comparison; every
optional-field mask (one-at-a-time, then seeded random), all 8 collection types, with/without audio_dir, n = 1..3 cycles.
Also exercises the JSON-layer assumption (model_dump_json / model_validate_json identity)."""
import os
import sys
import tempfile

from bounded.harness import StandIn
from bounded.aoefgen import Gen, diff
from soundevent import io


def main():
    s = StandIn("aoef_roundtrip", "graphs of <= 3 clips / 9 sound events / 3 nested sequences / 3 users / 4 tags; 41 one-bit masks + seeded random masks; 8 collection types; <= 3 cycles")
    masks = [0, (1 << 40) - 1] + [1 << k for k in range(40)]
    masks += [s.rng.getrandbits(40) for _ in range(8 if s.tier == "quick" else 200)]
    tmpdir = tempfile.mkdtemp(prefix="verif_c01_")
    try:
        for mi, mask in enumerate(masks):
            audio_dir = "/abs/audio" if mi % 2 else None
            g = Gen(s.rng, mask=mask, audio_dir=audio_dir).build()
            for tname, obj in g.collections().items():
                key = f"{tname}:mask={mask:x}:audio_dir={audio_dir}"
                s.case(None, key, sample=dict(type=tname, mask=hex(mask), audio_dir=audio_dir))
                cur = obj
                for cycle in range(1, 4 if mi % 5 == 0 else 2):
                    path = os.path.join(tmpdir, "c.json")
                    try:
                        io.save(cur, path, audio_dir=audio_dir)
                        back = io.load(path, audio_dir=audio_dir)
                    except Exception as e:
                        s.fail(f"roundtrip_raises:{tname}:{type(e).__name__}", f"{key}: {type(e).__name__}: {str(e)[:300]}")
                        break
                    if type(back) is not type(obj) or back != obj:
                        d = diff(obj, back)
                        field = d[0].split(":")[0].split(".")[-1].split("[")[0] if d else "?"
                        s.fail(f"roundtrip:{tname}:{field}", f"{key} cycle {cycle}: {d[:3]}", mask=hex(mask))
                        break
                    cur = back
    finally:
        for f in os.listdir(tmpdir):
            os.unlink(os.path.join(tmpdir, f))
        os.rmdir(tmpdir)
    return s.finish("one case per (collection type, optional-field mask, audio_dir); distinct by mask and type")


if __name__ == "__main__":
    sys.exit(main())
