"""Object-graph generator for the AOEF stand-ins (C01, C02, C09): every optional field present/absent, shared and
distinct sub-objects, empty and non-empty lists, all nine geometry types, nested sequence parents."""
import datetime
import uuid
from pathlib import Path

from soundevent import data
from soundevent.data.compat import term_from_key

GEOMS = [
    lambda: data.TimeStamp(coordinates=0.5),
    lambda: data.TimeInterval(coordinates=[0.25, 0.75]),
    lambda: data.BoundingBox(coordinates=[0.1, 1000.0, 0.4, 2000.0]),
    lambda: data.Point(coordinates=[0.3, 1500.0]),
    lambda: data.LineString(coordinates=[[0.1, 100.0], [0.2, 300.0], [0.3, 200.0]]),
    lambda: data.Polygon(coordinates=[[[0.1, 100.0], [0.4, 100.0], [0.4, 900.0], [0.1, 900.0]], [[0.2, 300.0], [0.3, 300.0], [0.3, 500.0]]]),
    lambda: data.MultiPoint(coordinates=[[0.1, 100.0], [0.2, 200.0]]),
    lambda: data.MultiLineString(coordinates=[[[0.1, 100.0], [0.2, 300.0]], [[0.5, 100.0], [0.6, 50.0]]]),
    lambda: data.MultiPolygon(coordinates=[[[[0.1, 100.0], [0.2, 100.0], [0.2, 900.0]]], [[[0.5, 100.0], [0.6, 100.0], [0.6, 900.0]]]]),
]


class Gen:
    """`on(k)` decides whether the k-th optional feature is present (driven by a bit mask / rng)."""

    def __init__(self, rng, mask=None, audio_dir=None, size=2):
        self.rng, self.mask, self.k, self.size = rng, mask, 0, size
        self.audio_dir = Path(audio_dir) if audio_dir else None
        self.t = datetime.datetime(2021, 5, 4, 3, 2, 1)
        self.users = [data.User(username=f"u{i}", name=f"User {i}" if i else None, email=f"u{i}@x.org" if i % 2 else None,
                                institution="Inst" if i == 0 else None) for i in range(3)]
        self.tags = [data.Tag(term=term_from_key(k), value=v) for k, v in (("species", "a"), ("species", "b"), ("call", "a"), ("quality", "good"))]

    def on(self):
        self.k += 1
        if self.mask is None:
            return self.rng.random() < 0.6
        return bool(self.mask >> (self.k % 40) & 1)

    def some(self, xs, lo=0):
        n = self.rng.randint(lo, min(len(xs), self.size))
        return self.rng.sample(xs, n)

    def when(self):
        self.t += datetime.timedelta(seconds=61)
        return self.t

    def features(self):
        labels = self.some(["snr", "duration", "peak"])
        return [data.Feature(term=term_from_key(l), value=self.rng.choice([0.0, 1.5, -2.25, 1e-9, 12345.678])) for l in labels]

    def note(self):
        return data.Note(message=f"note {self.rng.randint(0, 99)}", created_by=self.rng.choice(self.users) if self.on() else None,
                         is_issue=self.on(), created_on=self.when())

    def recording(self, i):
        base = self.audio_dir or Path("/abs/audio")
        return data.Recording(
            path=base / f"sub{i % 2}" / f"rec {i}.wav", duration=10.0 + i, channels=1 + i % 2, samplerate=44100,
            time_expansion=10.0 if self.on() else 1.0, hash="abc" if self.on() else None,
            date=datetime.date(2020, 1, 2) if self.on() else None, time=datetime.time(3, 4, 5) if self.on() else None,
            latitude=12.5 if self.on() else None, longitude=-3.25 if self.on() else None,
            license="CC-BY" if self.on() else None, rights="all" if self.on() else None,
            owners=self.some(self.users), tags=self.some(self.tags), features=self.features(), notes=[self.note() for _ in range(self.rng.randint(0, 2))])

    def build(self):
        g = self
        g.recordings = [g.recording(i) for i in range(3)]   # the third is used by no clip, only by sound events
        g.clips = [data.Clip(recording=g.rng.choice(g.recordings[:2]), start_time=float(i), end_time=float(i) + 1.5, features=g.features()) for i in range(3)]
        g.sound_events = [data.SoundEvent(geometry=GEOMS[i % 9](), recording=g.recordings[i % 3] if g.on() else g.clips[0].recording, features=g.features())
                          for i in range(9)]
        seq0 = data.Sequence(sound_events=g.sound_events[:2], features=g.features())
        seq1 = data.Sequence(sound_events=g.sound_events[2:4], parent=seq0)
        seq2 = data.Sequence(sound_events=[], parent=seq1, features=g.features())
        g.sequences = [seq2, seq0, seq1] if g.on() else [seq0, seq1, seq2]
        g.se_annotations = [data.SoundEventAnnotation(sound_event=se, notes=[g.note()] if g.on() else [], tags=g.some(g.tags),
                                                      created_by=g.rng.choice(g.users) if g.on() else None, created_on=g.when()) for se in g.sound_events]
        g.seq_annotations = [data.SequenceAnnotation(sequence=sq, notes=[g.note()] if g.on() else [], tags=g.some(g.tags),
                                                     created_by=g.users[2] if g.on() else None, created_on=g.when()) for sq in g.sequences]
        g.clip_annotations = []
        for i, clip in enumerate(g.clips):
            g.clip_annotations.append(data.ClipAnnotation(
                clip=clip, sound_events=g.se_annotations[3 * i: 3 * i + 3] if g.on() or i == 0 else [], sequences=[g.seq_annotations[i]] if g.on() else [],
                tags=g.some(g.tags), notes=[g.note()] if g.on() else [], created_on=g.when()))
        ptag = lambda: [data.PredictedTag(tag=t, score=g.rng.choice([0.0, 0.25, 1.0])) for t in g.some(g.tags)]
        g.se_predictions = [data.SoundEventPrediction(sound_event=se, score=g.rng.choice([0.0, 0.5, 1.0]), tags=ptag()) for se in g.sound_events]
        g.seq_predictions = [data.SequencePrediction(sequence=sq, score=0.75, tags=ptag()) for sq in g.sequences]
        g.clip_predictions = []
        for i, clip in enumerate(g.clips):
            g.clip_predictions.append(data.ClipPrediction(
                clip=clip, sound_events=g.se_predictions[3 * i: 3 * i + 3] if g.on() or i == 0 else [], sequences=[g.seq_predictions[i]] if g.on() else [],
                tags=ptag(), features=g.features()))
        g.tasks = [data.AnnotationTask(clip=clip, created_on=g.when(), status_badges=[
            data.StatusBadge(state=st, owner=g.rng.choice(g.users) if g.on() else None, created_on=g.when())
            for st in g.some([data.AnnotationState.assigned, data.AnnotationState.completed, data.AnnotationState.verified])]) for clip in g.clips]
        g.clip_evaluations = []
        for ca, cp in zip(g.clip_annotations, g.clip_predictions):
            ms = [data.Match(source=p, target=a, affinity=0.5, score=0.25 if g.on() else None, metrics=g.features()) for a, p in zip(ca.sound_events, cp.sound_events)]
            ms += [data.Match(target=a) for a in ca.sound_events[len(cp.sound_events):]] + [data.Match(source=p, affinity=0.0) for p in cp.sound_events[len(ca.sound_events):]]
            g.clip_evaluations.append(data.ClipEvaluation(annotations=ca, predictions=cp, matches=ms, metrics=g.features(), score=0.5 if g.on() else None))
        return g

    def collections(self):
        g = self
        opt = lambda v: v if g.on() else None
        return {
            "recording_set": data.RecordingSet(recordings=g.recordings, created_on=g.when()),
            "dataset": data.Dataset(name="ds", description=opt("descr"), recordings=g.recordings, created_on=g.when()),
            "annotation_set": data.AnnotationSet(clip_annotations=g.clip_annotations, created_on=g.when()),
            "annotation_project": data.AnnotationProject(name="proj", description=opt("d"), instructions=opt("i"), clip_annotations=g.clip_annotations,
                                                         annotation_tags=g.tags[-2:] if g.on() else [], tasks=g.tasks, created_on=g.when()),
            "evaluation_set": data.EvaluationSet(name="es", description=opt("d"), clip_annotations=g.clip_annotations,
                                                 evaluation_tags=[data.Tag(term=term_from_key("only_here"), value="z")] + g.tags[:1], created_on=g.when()),
            "prediction_set": data.PredictionSet(clip_predictions=g.clip_predictions, created_on=g.when()),
            "model_run": data.ModelRun(name="run", version=opt("1.0"), description=opt("d"), clip_predictions=g.clip_predictions, created_on=g.when()),
            "evaluation": data.Evaluation(evaluation_task="sound_event_detection", clip_evaluations=g.clip_evaluations, metrics=g.features(),
                                          score=opt(0.5), created_on=g.when()),
        }


def diff(a, b, path="", out=None, limit=6):
    """field paths where two object graphs differ"""
    out = [] if out is None else out
    if len(out) >= limit:
        return out
    if hasattr(a, "model_fields") and type(a) is type(b):
        for f in type(a).model_fields:
            diff(getattr(a, f), getattr(b, f), f"{path}.{f}", out, limit)
    elif isinstance(a, (list, tuple)) and isinstance(b, (list, tuple)):
        if len(a) != len(b):
            out.append(f"{path}: {len(a)} element(s) became {len(b)}")
        else:
            for i, (x, y) in enumerate(zip(a, b)):
                diff(x, y, f"{path}[{i}]", out, limit)
    elif a != b:
        out.append(f"{path}: {a!r} became {b!r}"[:200])
    return out
