"""C19 stand-in: exhaustive vocabularies <= 3 over 5 candidate tags (terms sharing name or label but differing
elsewhere included), tag lists <= 3 with repeats; hash/eq over generated pairs of the eight hashable classes."""
import copy
import itertools
import sys

from bounded.harness import StandIn, check_contract
from contracts import encoding as C
from soundevent import data
from soundevent.evaluation.encoding import create_tag_encoder, classification_encoding, multilabel_encoding, prediction_encoding


def main():
    s = StandIn("encoding_small", "vocabularies: all duplicate-free sequences of <=3 out of 5 candidate tags; tag lists: all sequences of <=3 (quick: <=2 for predictions) candidates")
    t1 = data.Term(name="x:species", label="Species", definition="d")
    t2 = data.Term(name="x:species", label="Species", definition="another definition")   # same name and label, different term
    t3 = data.Term(name="x:call", label="Species", definition="d")                         # same label only
    cands = [data.Tag(term=t1, value="a"), data.Tag(term=t1, value="b"), data.Tag(term=t2, value="a"),
             data.Tag(term=t3, value="a"), data.Tag(term=t3, value="c")]
    vocabs = [list(v) for k in range(0, 4) for v in itertools.permutations(cands, k)]
    lists = [list(t) for k in range(0, 4 if s.tier != "quick" else 3) for t in itertools.product(cands, repeat=k)]
    for vocab in vocabs:
        enc = create_tag_encoder(vocab)
        for tag in cands:
            ok, obs, exp = check_contract(C.Encode, C.encode_with, dict(vocab=vocab, tag=copy.deepcopy(tag)))
            s.case(None, ("enc", tuple(map(id, vocab)), id(tag)))
            if not ok:
                s.fail(f"encode:{[cands.index(t) for t in vocab]}:{cands.index(tag)}", f"encode -> {obs}")
        for i in range(len(vocab)):
            if enc.encode(enc.decode(i)) != i:
                s.fail(f"decode_encode:{[cands.index(t) for t in vocab]}:{i}", "encode(decode(i)) != i")
        for tags in lists:
            key = f"{[cands.index(t) for t in vocab]}:{[cands.index(t) for t in tags]}"
            s.case(None, key, sample=dict(vocab=[cands.index(t) for t in vocab], tags=[cands.index(t) for t in tags]))
            for contract, fn in ((C.Classification, C.classify_with), (C.Multilabel, C.multilabel_with)):
                ok, obs, exp = check_contract(contract, fn, dict(vocab=vocab, tags=tags))
                if not ok:
                    s.fail(f"{fn.__name__}:{key}", f"{fn.__name__}({key}) -> {obs}")
            # out-of-vocabulary tags never influence a result
            inv = [t for t in tags if any(C.same_tag(u, t) for u in vocab)]
            if classification_encoding(tags, enc) != classification_encoding(inv, enc) or list(multilabel_encoding(tags, enc)) != list(multilabel_encoding(inv, enc)):
                s.fail(f"oov:{key}", "an out-of-vocabulary tag influenced the encoding")
            if len(tags) <= 2:
                for scores in itertools.product((0.25, 0.7), repeat=len(tags)):
                    ptags = [data.PredictedTag(tag=t, score=sc) for t, sc in zip(tags, scores)]
                    ok, obs, exp = check_contract(C.Prediction, C.prediction_with, dict(vocab=vocab, tags=ptags))
                    s.case(None, key + str(scores))
                    if not ok:
                        s.fail(f"prediction:{key}:{scores}", f"prediction_encoding -> {obs}")
    # equal objects hash equally
    rec = data.Recording(path="a.wav", duration=1, channels=1, samplerate=8000)
    se = data.SoundEvent(recording=rec, geometry=data.TimeStamp(coordinates=0.5))
    clip = data.Clip(recording=rec, start_time=0, end_time=1)
    objs = [t1, t2, t3] + cands + [data.Feature(term=t1, value=1.0), data.Feature(term=t1, value=1), data.Feature(term=t2, value=1.0),
                                  data.Note(message="m"), se, data.SoundEventAnnotation(sound_event=se),
                                  data.SoundEventPrediction(sound_event=se), data.ClipPrediction(clip=clip)]
    objs += [copy.deepcopy(o) for o in objs]
    # equal twins built differently: defaults passed explicitly, re-validated from a dump, rebuilt from JSON
    t1x = data.Term(name="x:species", label="Species", definition="d", uri=None, type_of_term="property", comment=None)
    objs += [t1x, data.Term.model_validate(t1.model_dump()), data.Term.model_validate_json(t1.model_dump_json()),
             data.Tag(term=t1x, value="a"), data.Tag.model_validate(cands[0].model_dump()), data.Feature(term=t1x, value=1.0),
             data.Note.model_validate(objs[11].model_dump()) if isinstance(objs[11], data.Note) else data.Note(message="m")]
    # objects that were hashed and then derived (model_copy(update=...)) or changed by assignment, next to a freshly built equal twin
    alt = dict(Term=("label", "Other"), Tag=("value", "zz"), Feature=("value", 7.5), Note=("message", "other"),
               SoundEvent=("geometry", data.TimeStamp(coordinates=0.75)), SoundEventAnnotation=("tags", [cands[0]]),
               SoundEventPrediction=("score", 0.5), ClipPrediction=("tags", [data.PredictedTag(tag=cands[0], score=0.5)]))
    for o in list(objs):
        field, new = alt[type(o).__name__]
        hash(o)
        derived = o.model_copy(update={field: new})
        changed = o.model_copy()
        hash(changed)
        try:
            setattr(changed, field, new)
        except Exception:   # frozen models (Term) cannot be changed by assignment
            changed = derived
        objs += [derived, changed, type(o).model_validate(derived.model_dump())]
    # an equal tag built differently must be encoded like the vocabulary's own tag
    enc = create_tag_encoder([cands[0], cands[4]])
    for twin in (data.Tag(term=t1x, value="a"), data.Tag.model_validate(cands[0].model_dump()), data.Tag.model_validate_json(cands[0].model_dump_json())):
        s.case(None, ("twin", id(twin)))
        if twin == cands[0] and enc.encode(twin) != 0:
            s.fail("encode_twin", f"a tag equal to vocabulary tag 0 but built differently encodes to {enc.encode(twin)}")
    for a, b in itertools.combinations(objs, 2):
        s.case(None, ("hash", id(a), id(b)))
        if not C.lemma_hash(a, b):
            s.fail(f"hash:{type(a).__name__}", f"{a!r} == {b!r} but hashes differ")
    return s.finish("one case per (vocabulary, tag list[, scores]) and per object pair; distinct by construction")


if __name__ == "__main__":
    sys.exit(main())
