"""C18 stand-in: all 8 collection types x directory depth 0-3 x file names (unicode, spaces, dots) x str/Path audio
directory x recordings inside/outside; checks the JSON text written by the real save, the loaded objects, and that
no file exists after a failed save."""
import json
import os
import sys
import tempfile
import uuid
from pathlib import Path

from bounded.harness import StandIn
from soundevent import data, io

NAMES = ["a.wav", "with space.wav", "únicode-ß.wav", "dots.in.name.v2.wav", "nested/dir/x.wav", " leading space dir/x.wav", "trailing space.wav "]


def collections(rec):
    clip = data.Clip(recording=rec, start_time=0, end_time=1)
    ca = data.ClipAnnotation(clip=clip)
    cp = data.ClipPrediction(clip=clip)
    return {
        "recording_set": data.RecordingSet(recordings=[rec]),
        "dataset": data.Dataset(name="d", recordings=[rec]),
        "annotation_set": data.AnnotationSet(clip_annotations=[ca]),
        "annotation_project": data.AnnotationProject(name="p", clip_annotations=[ca], tasks=[data.AnnotationTask(clip=clip)]),
        "evaluation_set": data.EvaluationSet(name="e", clip_annotations=[ca]),
        "prediction_set": data.PredictionSet(clip_predictions=[cp]),
        "model_run": data.ModelRun(name="m", clip_predictions=[cp]),
        "evaluation": data.Evaluation(evaluation_task="t", clip_evaluations=[data.ClipEvaluation(annotations=ca, predictions=cp)]),
    }


def recordings_of(obj):
    if hasattr(obj, "recordings"):
        return list(obj.recordings)
    if hasattr(obj, "clip_annotations"):
        return [c.clip.recording for c in obj.clip_annotations]
    if hasattr(obj, "clip_predictions"):
        return [c.clip.recording for c in obj.clip_predictions]
    return [c.annotations.clip.recording for c in obj.clip_evaluations]


def main():
    s = StandIn("audio_paths", "8 collection types x depth 0..3 x 5 file names x audio_dir as str/Path x inside/outside")
    tmp = Path(tempfile.mkdtemp(prefix="verif_c18_"))
    try:
        for depth in range(4):
            A = Path("/data") if depth == 0 else Path("/data").joinpath(*[f"d{k}" for k in range(depth)])
            B = Path("/mnt/other")
            for name in (NAMES[:3] if s.tier == "quick" and depth > 1 else NAMES):
                for as_str in (False, True):
                    for kind in (True, False, "sibling-with-prefix", "parent"):
                        # outside: unrelated tree; a sibling whose name merely starts with the directory's name; the parent
                        path = {True: A / name, False: Path("/elsewhere") / name, "sibling-with-prefix": Path(str(A) + "_backup") / name,
                                "parent": A.parent / ("up-" + name)}[kind]
                        inside = kind is True
                        rec = data.Recording(path=path, duration=1, channels=1, samplerate=8000)
                        for tname, obj in collections(rec).items():
                            key = f"{tname}:depth={depth}:{name}:str={as_str}:inside={kind}"
                            s.case(None, key, sample=dict(type=tname, audio_dir=str(A), path=str(path)))
                            out = tmp / f"{uuid.uuid4().hex}.json"
                            ad = str(A) if as_str else A
                            try:
                                io.save(obj, out, audio_dir=ad)
                            except ValueError:
                                if inside:
                                    s.fail("save_raises:" + key, "save raised although the recording is inside the audio directory")
                                elif out.exists():
                                    s.fail("save_wrote:" + key, "a failed save left a file behind")
                                continue
                            if not inside:
                                s.fail("save_accepts_outside:" + key, "save succeeded for a recording outside the audio directory")
                                continue
                            doc = json.loads(out.read_text())
                            stored = [r["path"] for r in doc["data"]["recordings"]]
                            if stored != [str(Path(name))]:
                                s.fail("stored_path:" + key, f"document stores {stored}, expected {[name]}")
                            for ld, want in ((B, B / name), (str(B), B / name), (None, Path(name))):
                                loaded = io.load(out, audio_dir=ld)
                                got = [r.path for r in recordings_of(loaded)]
                                if got != [want]:
                                    s.fail("loaded_path:" + key, f"loaded under {ld!r}: {got}, expected {[want]}")
                            # no audio directory: paths pass through unchanged
                            out2 = tmp / f"{uuid.uuid4().hex}.json"
                            io.save(obj, out2)
                            if [r.path for r in recordings_of(io.load(out2))] != [path]:
                                s.fail("passthrough:" + key, "path changed without an audio directory")
                            out.unlink()
                            out2.unlink()
        # ---- relative audio directories (as given by a caller working from the project root): stored and re-joined as given,
        #      never made absolute behind the caller's back
        for A, B in ((Path("audio A"), Path("other")), (Path("rel/dir"), Path("else/where/deep"))):
            for name in NAMES[:3]:
                for as_str in (False, True):
                    rec = data.Recording(path=A / name, duration=1, channels=1, samplerate=8000)
                    for tname, obj in collections(rec).items():
                        key = f"{tname}:relative={A}:{name}:str={as_str}"
                        s.case(None, key, sample=dict(type=tname, audio_dir=str(A), path=str(A / name)))
                        out = tmp / f"{uuid.uuid4().hex}.json"
                        try:
                            io.save(obj, out, audio_dir=str(A) if as_str else A)
                        except Exception as e:
                            s.fail("save_raises_relative:" + key, f"save with the relative audio directory {str(A)!r} raised {type(e).__name__}: {str(e)[:120]} although the recording is inside it")
                            continue
                        stored = [r["path"] for r in json.loads(out.read_text())["data"]["recordings"]]
                        if stored != [str(Path(name))]:
                            s.fail("stored_path_relative:" + key, f"document stores {stored}, expected {[name]}")
                        for ld in (B, str(B)):
                            got = [r.path for r in recordings_of(io.load(out, audio_dir=ld))]
                            if got != [B / name]:
                                s.fail("loaded_path_relative:" + key, f"loaded under the relative directory {str(B)!r}: {got}, expected {[B / name]}")
                        out.unlink()
        # ---- several recordings in one document, two of them copies of the same file (equal content hash) in different
        #      sub-folders: every recording keeps its OWN path through save under A and load under B
        A, B = Path("/data/proj"), Path("/mnt/other")
        for hashes in (("h1", "h1", None), ("h1", "h2", "h1"), (None, None, None)):
            rels = ["site1/x.wav", "site2/x.wav", "y.wav"]
            recs = [data.Recording(path=A / r, duration=1, channels=1, samplerate=8000, hash=h) for r, h in zip(rels, hashes)]
            clips = [data.Clip(recording=r, start_time=0, end_time=1) for r in recs]
            objs = {"recording_set": data.RecordingSet(recordings=recs), "dataset": data.Dataset(name="d", recordings=recs),
                    "annotation_set": data.AnnotationSet(clip_annotations=[data.ClipAnnotation(clip=c) for c in clips]),
                    "prediction_set": data.PredictionSet(clip_predictions=[data.ClipPrediction(clip=c) for c in clips])}
            for tname, obj in objs.items():
                key = f"{tname}:hashes={hashes}"
                s.case(None, key, sample=dict(type=tname, audio_dir=str(A), paths=rels, hashes=list(hashes)))
                out = tmp / f"{uuid.uuid4().hex}.json"
                io.save(obj, out, audio_dir=A)
                got = sorted(str(r.path) for r in recordings_of(io.load(out, audio_dir=B)))
                if got != sorted(str(B / r) for r in rels):
                    s.fail("several_recordings:" + tname, f"{key}: loaded under {B}: {got}, expected {sorted(str(B / r) for r in rels)}")
                out.unlink()
    finally:
        for f in tmp.glob("*"):
            f.unlink()
        tmp.rmdir()
    return s.finish("one case per (collection type, directory depth, file name, str/Path, inside/outside); all distinct")


if __name__ == "__main__":
    sys.exit(main())
