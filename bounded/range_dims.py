"""C16 stand-in: create_range_dim / create_time_range / create_frequency_range over start x step (incl. decimals that
are not representable) x n; get_coord_index on, between, at and beyond coordinates; set_value_at_pos on 1-3-D arrays."""
import itertools
import sys

import numpy as np
import xarray as xr

from bounded.harness import StandIn
from soundevent.arrays import create_range_dim, create_time_range, create_frequency_range, get_coord_index
from soundevent.arrays.operations import set_value_at_pos

STEPS = [1.0, 0.5, 0.1, 0.01, 1 / 3, 0.3, 1 / 44100, 1 / 192000, 2, 7]
STARTS = [0.0, 0.5, 100.0, 1e6, -3.0, 1 / 3]


def main():
    s = StandIn("range_dims", "start in {0,.5,100,1e6,-3,1/3} x step in {1,.5,.1,.01,1/3,.3,1/44100,1/192000,2,7} x n <= 5000 (sampled); query values on/between/at/beyond coordinates; arrays up to 3-D")
    ns = [1, 2, 3, 7, 10, 100, 999, 1000, 4410, 5000] if s.tier == "quick" else list(range(1, 200)) + [441, 999, 1000, 4410, 5000, 44100]
    for start, step, n in itertools.product(STARTS, STEPS, ns):
        key = f"{start}:{step}:{n}"
        for how in ("n*step", "sum"):
            stop = start + n * step if how == "n*step" else float(np.float64(start) + np.float64(n) * np.float64(step))
            v = create_range_dim("time", start=start, stop=stop, step=step)
            c = v.data
            s.case(None, (start, step, n, how), sample=dict(start=start, step=step, n=n, stop=stop, got=len(c)))
            if len(c) != n:
                s.fail(f"range_count:{step}:{key}", f"create_range_dim(start={start}, stop=start+{n}*{step}={stop!r}, step={step}) has {len(c)} coordinates, expected {n}")
                continue
            # numpy fills start + i*((start+step)-start): the deviation from the exact lattice is at most i ulps of the
            # largest coordinate (assumed arange contract); stated tolerance, far below one step in the claimed domain
            tol = (n + 2) * np.spacing(max(abs(start), abs(stop), 1.0)) + 1e-9 * abs(step)
            if n and (abs(c - (start + np.arange(n) * step)).max() > tol or c[0] != start):
                s.fail(f"range_lattice:{step}:{key}", f"coordinates deviate from start + i*step by {abs(c - (start + np.arange(n) * step)).max():.3g}")
            if n and not (c[0] >= start and c[-1] < stop):
                s.fail(f"range_inside:{step}:{key}", f"coordinates not inside [start, stop): first {c[0]!r}, last {c[-1]!r}, stop {stop!r}")
            if v.attrs.get("step") != step:
                s.fail(f"range_step_attr:{key}", f"step attribute {v.attrs.get('step')!r} != {step!r}")
        # non-whole quotient: coordinates still on the lattice and inside [start, stop)
        stop = start + (n + 0.4) * step
        c = create_range_dim("time", start=start, stop=stop, step=step).data
        s.case(None, (start, step, n, "frac"))
        if len(c) not in (n, n + 1) or (len(c) and not (c[-1] < stop and c[0] == start)):
            s.fail(f"range_frac:{step}:{key}", f"stop=start+{n + .4}*step: {len(c)} coordinates, last {c[-1] if len(c) else None!r}, stop {stop!r}")
    for sr in (8000, 22050, 44100, 96000, 7919):
        for n in (1, 100, sr, 3 * sr + 17):
            v = create_time_range(0.25, 0.25 + n / sr, samplerate=sr)
            s.case(None, ("time", sr, n))
            if len(v.data) != n or v.attrs.get("step") != 1.0 / sr or v.attrs.get("units") != "s":
                s.fail(f"time_range:{sr}:{n}", f"create_time_range(0.25, 0.25+{n}/{sr}, samplerate={sr}): {len(v.data)} samples, attrs {dict(v.attrs)}")
        v = create_frequency_range(0, sr / 2, step=sr / 512)
        s.case(None, ("freq", sr))
        if len(v.data) != 256 or v.attrs.get("units") != "Hz":
            s.fail(f"freq_range:{sr}", f"create_frequency_range(0, {sr / 2}, {sr / 512}): {len(v.data)} bins")
    # get_coord_index / set_value_at_pos
    for start, step, n in itertools.product([0.0, 0.5, 100.0], [1.0, 0.1, 1 / 3, 1 / 44100], [1, 2, 5, 64]):
        coords = create_range_dim("time", start=start, stop=start + n * step, step=step)
        if len(coords.data) != n:
            continue
        arr = xr.DataArray(np.zeros((n, 3)), dims=("time", "frequency"), coords={"time": coords, "frequency": [0, 1, 2]})
        c = coords.data
        queries = list(c) + [(c[i] + c[i + 1]) / 2 for i in range(n - 1)] + [c[-1] + step / 2, c[0] - step / 2, c[-1] + 10 * step]
        for q in queries:
            exp_in = c[0] <= q <= c[-1]
            s.case(None, ("idx", start, step, n, float(q)))
            try:
                i = get_coord_index(arr, "time", q)
                ok = exp_in and c[i] <= q and (i == n - 1 or q < c[i + 1])
            except KeyError:
                ok = not exp_in
            if not ok:
                s.fail(f"coord_index:{step}:{n}", f"get_coord_index(start={start}, step={step}, n={n}, value={q!r}) wrong")
            j = get_coord_index(arr, "time", q, raise_error=False)
            want = (0 if q < c[0] else n) if not exp_in else max(k for k in range(n) if c[k] <= q)
            if j != want:
                s.fail(f"coord_clamp:{step}:{n}", f"get_coord_index(..., {q!r}, raise_error=False) = {j}, expected {want}")
    # the clamped lookup on EVERY axis of non-square arrays, in both dimension orders (the queried axis need not be the first)
    for (nt, nf), order in itertools.product([(3, 7), (7, 3), (4, 4), (1, 5)], [("time", "frequency"), ("frequency", "time")]):
        tc, fc = np.arange(nt) * 0.5 + 1.0, np.arange(nf) * 100.0 + 50.0
        shape = (nt, nf) if order[0] == "time" else (nf, nt)
        arr = xr.DataArray(np.zeros(shape), dims=order, coords={"time": tc, "frequency": fc})
        for dim, c in (("time", tc), ("frequency", fc)):
            for q in (c[0] - 1.0, c[0], c[-1], c[-1] + 0.25, c[-1] + 1e6):
                want = 0 if q < c[0] else len(c) if q > c[-1] else max(k for k in range(len(c)) if c[k] <= q)
                s.case(None, ("clamp2d", nt, nf, order[0], dim, float(q)))
                got = get_coord_index(arr, dim, q, raise_error=False)
                if got != want:
                    s.fail(f"coord_clamp_2d:{order[0]}-first:{dim}", f"get_coord_index on a {nt}x{nf} array with dims {order}, dim={dim}, value={q!r}, raise_error=False = {got}, expected {want}")
    for shape, dims in (((5,), ("time",)), ((5, 4), ("time", "frequency")), ((3, 5, 4), ("channel", "time", "frequency"))):
        coords = {"time": np.arange(5) * 0.5, "frequency": np.arange(4) * 100.0, "channel": np.arange(3)}
        for t, f in itertools.product((0.0, 0.7, 2.0), (None, 0.0, 250.0)):
            arr = xr.DataArray(np.zeros(shape), dims=dims, coords={d: coords[d] for d in dims})
            q = {"time": t}
            if f is not None and "frequency" in dims:
                q["frequency"] = f
            out = set_value_at_pos(arr, 7.0, **q)
            ti = int(t // 0.5)
            exp = np.zeros(shape)
            idx = [slice(None)] * len(shape)
            idx[dims.index("time")] = ti
            if "frequency" in q:
                idx[dims.index("frequency")] = int(f // 100.0)
            exp[tuple(idx)] = 7.0
            s.case(None, ("set", shape, t, f))
            if not np.array_equal(out.data, exp):
                s.fail(f"set_value:{shape}:{t}:{f}", f"set_value_at_pos on shape {shape} with {q} changed the wrong cells")
    # arrays whose coordinate order differs from their dimension order (transposed; coords given in another order; an extra
    # scalar coordinate): the position is looked up per NAMED dimension
    tcs, fcs = np.arange(5) * 0.5, np.arange(4) * 100.0
    base = xr.DataArray(np.zeros((5, 4)), dims=("time", "frequency"), coords={"time": tcs, "frequency": fcs})
    variants = {"transposed": base.transpose("frequency", "time"),
                "coords-reversed": xr.DataArray(np.zeros((5, 4)), dims=("time", "frequency"), coords={"frequency": fcs, "time": tcs}),
                "scalar-coord-first": xr.DataArray(np.zeros((5, 4)), dims=("time", "frequency"), coords={"channel": 0, "time": tcs, "frequency": fcs})}
    for vname, arr in variants.items():
        for q in ({"time": 0.7}, {"frequency": 250.0}, {"time": 2.0, "frequency": 0.0}, {"time": 0.0, "frequency": 300.0}):
            s.case(None, ("set-order", vname, tuple(sorted(q.items()))))
            try:
                out = set_value_at_pos(arr.copy(deep=True), 7.0, **q)     # the function writes in place: a fresh copy per query
            except Exception as e:
                s.fail(f"set_value_raises:{vname}:{type(e).__name__}", f"set_value_at_pos on the {vname} array with {q} raised {type(e).__name__}: {str(e)[:120]}")
                continue
            exp = xr.zeros_like(arr)
            sel = {}
            if "time" in q:
                sel["time"] = int(q["time"] // 0.5)
            if "frequency" in q:
                sel["frequency"] = int(q["frequency"] // 100.0)
            exp[sel] = 7.0
            if out.dims != arr.dims or not np.array_equal(out.data, exp.data):
                s.fail(f"set_value_order:{vname}", f"set_value_at_pos on the {vname} array with {q} changed the wrong cells")
    return s.finish("one case per (start, step, n, construction of stop) and per query; distinct by inputs")


if __name__ == "__main__":
    sys.exit(main())
