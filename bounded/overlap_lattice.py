"""C12 stand-in: exhaustive endpoint/threshold lattice for intervals_overlap against Fraction
arithmetic, and the geometry-level predicates on boxes/intervals/stamps (bounded; not a proof)."""
import itertools
import sys
from fractions import Fraction as F

from bounded.harness import StandIn, check_contract
from contracts import overlap as C
from soundevent import data
from soundevent.geometry.operations import intervals_overlap, have_temporal_overlap, have_frequency_overlap, is_in_clip


def main():
    s = StandIn("overlap_lattice", "endpoints on a 5-point lattice {0,1,2,3,4}/2; thresholds in {None,-1/4,0,1/4,1/2,1,5/4}; geometry pairs on the same lattice")
    pts = [F(k, 2) for k in range(5)] if s.tier == "quick" else [F(k, 3) for k in range(7)]
    ths = [None, F(-1, 4), F(0), F(1, 4), F(1, 2), F(1), F(5, 4)]
    ivs = [(a, b) for a in pts for b in pts if a <= b]
    for i1, i2 in itertools.product(ivs, ivs):
        for a, r in itertools.product(ths, ths):
            if a is not None and r is not None and (a, r) != (F(0), F(0)):
                continue  # both given: one representative suffices for the guard
            args = dict(interval1=tuple(map(float, i1)), interval2=tuple(map(float, i2)),
                        min_absolute_overlap=None if a is None else float(a), min_relative_overlap=None if r is None else float(r))
            ok, obs, exp = check_contract(C.IntervalsOverlap, intervals_overlap, args)
            # independent exact reference -- only where the inputs are exactly representable (dyadic): for thirds the doubles
            # handed to the function are not the rationals, and a comparison that is an equality in exact arithmetic may fall
            # either way; there the executable contract, evaluated in the same double arithmetic, is the oracle
            dyadic = all(x is None or (x.denominator & (x.denominator - 1)) == 0 for x in (*i1, *i2, a, r))
            if dyadic and not C.bad_thresholds(a, r):
                thr = F(0) if a is None and r is None else (a if r is None else r * min(i1[1] - i1[0], i2[1] - i2[0]))
                ref = (min(i1[1], i2[1]) - max(i1[0], i2[0])) >= thr
                if obs != repr(ref):
                    ok = False
                    exp = f"exact reference {ref}"
            kind = ("touch" if i1[1] == i2[0] or i2[1] == i1[0] else "disj" if i1[1] < i2[0] or i2[1] < i1[0] else "ovl", a is None, r is None)
            s.case(None, (i1, i2, a, r), sample=dict(call="intervals_overlap", args=args, observed=obs))
            if not ok:
                s.fail(f"intervals_overlap:{i1}:{i2}:{a}:{r}", f"intervals_overlap{tuple(args.values())} -> {obs}, expected {exp}", args=args)
            # symmetry on the real function
            if not C.bad_thresholds(a, r):
                if intervals_overlap(args["interval1"], args["interval2"], args["min_absolute_overlap"], args["min_relative_overlap"]) != \
                        intervals_overlap(args["interval2"], args["interval1"], args["min_absolute_overlap"], args["min_relative_overlap"]):
                    s.fail(f"symmetry:{i1}:{i2}:{a}:{r}", "intervals_overlap not symmetric", args=args)
    # geometry-level predicates on concrete geometries
    rec = data.Recording(path="a.wav", duration=10, channels=1, samplerate=8000)
    geoms = []
    for a, b in ivs[:: 2 if s.tier == "quick" else 1]:
        geoms.append(data.TimeInterval(coordinates=[float(a), float(b)]))
        geoms.append(data.BoundingBox(coordinates=[float(a), 100.0 * float(a), float(b), 100.0 * float(b) + 50]))
    geoms += [data.TimeStamp(coordinates=float(p)) for p in pts]
    # lines whose time extent is reached at an INTERIOR vertex (end points in order, an excursion beyond them in between)
    geoms += [data.LineString(coordinates=[[0.5, 200.0], [2.0, 800.0], [1.0, 500.0]]),
              data.LineString(coordinates=[[1.0, 300.0], [0.0, 100.0], [1.5, 900.0]]),
              data.MultiLineString(coordinates=[[[0.5, 100.0], [1.75, 50.0], [1.0, 400.0]]])]
    for g1, g2 in itertools.product(geoms, geoms):
        for a, r in ((None, None), (0.25, None), (None, 0.5)):
            args = dict(geom1=g1, geom2=g2, min_absolute_overlap=a, min_relative_overlap=r)
            for contract, fn in ((C.HaveTemporalOverlap, have_temporal_overlap), (C.HaveFrequencyOverlap, have_frequency_overlap)):
                ok, obs, exp = check_contract(contract, fn, args)
                s.case(None, (fn.__name__, g1.type, g2.type, str(g1.coordinates), str(g2.coordinates), a, r))
                if not ok:
                    s.fail(f"{fn.__name__}:{g1.type}:{g1.coordinates}:{g2.type}:{g2.coordinates}:{a}:{r}", f"{fn.__name__} -> {obs}, expected {exp}")
    for g in geoms:
        for cs, ce in ivs[::3]:
            clip = data.Clip(recording=rec, start_time=float(cs), end_time=float(ce))
            for m in (0, 0.25, -0.5):
                args = dict(geometry=g, clip=clip, minimum_overlap=m)
                ok, obs, exp = check_contract(C.IsInClip, is_in_clip, args)
                s.case(None, ("is_in_clip", g.type, str(g.coordinates), cs, ce, m))
                if not ok:
                    s.fail(f"is_in_clip:{g.type}:{g.coordinates}:{cs}:{ce}:{m}", f"is_in_clip -> {obs}, expected {exp}")
    return s.finish("every lattice combination is one case; distinct = distinct (function, inputs) tuples; all are non-trivial "
                    "(each exercises the threshold comparison or a guard)")


if __name__ == "__main__":
    sys.exit(main())
