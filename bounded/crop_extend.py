"""C17 stand-in: crop_dim / extend_dim / crop_dim_width / extend_dim_width / adjust_dim_width on axes with
start in {0, .5, 100}, step in {1, .5, .1, .01, 1/3, 1/44100}, n <= 64; ranges / widths smaller, equal, larger;
positions; closedness flags; step from attrs or estimated.  Every sample is tagged with its original coordinate."""
import itertools
import sys

import numpy as np
import xarray as xr

from bounded.harness import StandIn
from soundevent.arrays import create_range_dim
from soundevent.arrays.operations import crop_dim, extend_dim, adjust_dim_width, crop_dim_width, extend_dim_width

STARTS = [0.0, 0.5, 100.0]
STEPS = [1.0, 0.5, 0.1, 0.01, 1 / 3, 1 / 44100]
FILL = -7.0


def axis(start, step, n, with_attr=True):
    coords = create_range_dim("time", start=start, stop=start + n * step, step=step)
    if len(coords.data) != n:
        return None
    if not with_attr:
        coords = xr.Variable("time", coords.data)
    return xr.DataArray(np.array(coords.data, dtype=float).copy(), dims=("time",), coords={"time": coords})  # value = own coordinate


def main():
    s = StandIn("crop_extend", "axes start in {0,.5,100} x step in {1,.5,.1,.01,1/3,1/44100} x n in {1..64 sampled}; widths n-8..n+64; 3 positions; 4 closedness combinations")
    ns = [1, 2, 3, 5, 8, 16, 33, 64] if s.tier == "quick" else list(range(1, 65))
    for start, step, n, attr in itertools.product(STARTS, STEPS, ns, (True, False)):
        arr = axis(start, step, n, attr)
        if arr is None or (not attr and n < 3):
            continue
        c = arr.coords["time"].data
        # ---- widths
        for width in sorted({1, max(1, n - 8), max(1, n - 1), n, n + 1, n + 2, n + 7, n + 64}):
            for pos in ("start", "center", "end"):
                key = f"{start}:{step}:{n}:{width}:{pos}:{attr}"
                s.case(None, key, sample=dict(start=start, step=step, n=n, width=width, position=pos))
                try:
                    out = adjust_dim_width(arr, "time", width, fill_value=FILL, position=pos)
                except Exception as e:
                    s.fail(f"width_raises:{step}:{pos}:{type(e).__name__}", f"adjust_dim_width(n={n}, step={step}, start={start}, width={width}, {pos}) raised {type(e).__name__}: {e}")
                    continue
                if out.sizes["time"] != width:
                    s.fail(f"width_size:{step}:{pos}:{'grow' if width > n else 'shrink'}", f"adjust_dim_width(n={n}, start={start}, step={step}, width={width}, position={pos}) returned {out.sizes['time']} samples")
                    continue
                oc, od = out.coords["time"].data, out.data
                keep = od != FILL
                if not np.array_equal(od[keep], oc[keep]):
                    s.fail(f"width_data:{step}:{pos}", f"n={n} width={width} {pos}: data moved off its coordinate")
                if width >= n and not np.array_equal(od[keep], c):
                    s.fail(f"width_lost:{step}:{pos}", f"n={n} width={width} {pos}: original samples lost or reordered")
                if width > n:
                    i0 = int(np.argmax(keep))
                    exp0 = {"start": 0, "end": width - n, "center": (width - n) // 2}[pos]
                    if i0 != exp0:
                        s.fail(f"width_place:{step}:{pos}", f"n={n} width={width} {pos}: original block starts at {i0}, expected {exp0}")
                    if np.abs(np.diff(oc) - step).max() > 1e-6 * step + 4 * np.spacing(abs(oc).max()) * width:
                        s.fail(f"width_lattice:{step}:{pos}", f"n={n} width={width} {pos}: extended axis is not regular")
        if step < 0.01:
            continue  # the crop / extend interval logic uses eps = 1e-5: only steps large compared with it are in the domain
        # ---- crop: every interval between lattice-ish cut points, all closedness combinations
        cuts = sorted(x for x in {c[0], c[-1], c[n // 2], c[n // 3], (c[0] + c[-1]) / 2, c[n // 2] + step / 4} if c[0] <= x <= c[-1])
        for a, b in itertools.combinations_with_replacement(cuts, 2):
            for lc, rc in itertools.product((True, False), repeat=2):
                s.case(None, ("crop", start, step, n, a, b, lc, rc, attr))
                out = crop_dim(arr, "time", start=a, stop=b, left_closed=lc, right_closed=rc)
                want = c[((c >= a) if lc else (c > a)) & ((c <= b) if rc else (c < b))]
                if not np.array_equal(out.coords["time"].data, want) or not np.array_equal(out.data, want):
                    s.fail(f"crop:{step}:lc={lc}:rc={rc}", f"crop_dim(start={a!r}, stop={b!r}, left_closed={lc}, right_closed={rc}) on start={start}, step={step}, n={n}: got {out.coords['time'].data[:3]}..{out.coords['time'].data[-3:] if out.sizes['time'] else []} ({out.sizes['time']}), expected {len(want)} samples")
        # an OPEN end that lies strictly within eps above/below a coordinate (documented eps mechanism of crop_dim)
        if n >= 3:
            stop_q = c[n // 2] + 4e-6
            out = crop_dim(arr, "time", start=c[0], stop=stop_q, right_closed=False)
            want = c[(c >= c[0]) & (c < stop_q)]
            s.case(None, ("crop-eps", start, step, n, attr))
            if not np.array_equal(out.coords["time"].data, want):
                s.fail(f"crop_open_end_within_eps:{step}", f"crop_dim(stop=c[{n // 2}]+4e-6, right_closed=False) on start={start}, step={step}, n={n} drops the coordinate {c[n // 2]!r} that lies inside the requested interval")
        # ---- extend: requested interval contains the axis
        for kl, kr in ((0, 0), (3, 0), (0, 4), (2, 5)):
            for lc, rc in itertools.product((True, False), repeat=2):
                a = c[0] - kl * step
                b = c[-1] + kr * step
                if (not lc and kl == 0) or (not rc and kr == 0):
                    continue  # an open end on the first / last coordinate does not contain the axis: outside the domain
                s.case(None, ("extend", start, step, n, kl, kr, lc, rc, attr))
                try:
                    out = extend_dim(arr, "time", start=a, stop=b, fill_value=FILL, left_closed=lc, right_closed=rc)
                except Exception as e:
                    s.fail(f"extend_raises:{step}:{type(e).__name__}", f"extend_dim raised {type(e).__name__}: {e}")
                    continue
                nl = kl if lc else kl - 1 if kl else 0
                nr = kr if rc else kr - 1 if kr else 0
                oc, od = out.coords["time"].data, out.data
                if out.sizes["time"] != n + nl + nr:
                    s.fail(f"extend_count:{step}:lc={lc}:rc={rc}", f"extend_dim(start=c0-{kl}*step, stop=c_last+{kr}*step, left_closed={lc}, right_closed={rc}) on start={start}, step={step}, n={n}: {out.sizes['time']} samples, expected {n + nl + nr}")
                    continue
                if not np.array_equal(od[nl:nl + n], c) or (od[:nl] != FILL).any() or (od[nl + n:] != FILL).any():
                    s.fail(f"extend_data:{step}", f"extend_dim moved or overwrote original samples (n={n}, kl={kl}, kr={kr})")
    # ---- a requested bound of exactly 0 is a bound like any other
    for first, n, step in ((3.0, 5, 1.0), (0.5, 4, 0.5), (2.0, 3, 0.25)):
        arr0 = axis(first, step, n)
        if arr0 is not None:
            s.case(None, ("extend-to-zero", first, n, step))
            out = extend_dim(arr0, "time", start=0.0, stop=first + n * step, fill_value=FILL, left_closed=True, right_closed=False)
            want_n = n + int(round(first / step))
            if out.sizes["time"] != want_n or abs(float(out.coords["time"].data[0])) > 1e-9:
                s.fail(f"extend_zero_start:{step}", f"extend_dim(start=0.0) on an axis starting at {first} (step {step}, n={n}): {out.sizes['time']} samples from {out.coords['time'].data[0]}, expected {want_n} from 0.0")
        neg = xr.DataArray(np.arange(n, dtype=float) * step - first - n * step, dims=("time",),
                           coords={"time": create_range_dim("time", start=-first - n * step, stop=-first, step=step)})
        if neg.sizes["time"] == n:
            s.case(None, ("extend-to-zero-stop", first, n, step))
            out = extend_dim(neg, "time", start=-first - n * step, stop=0.0, fill_value=FILL, left_closed=True, right_closed=True)
            want_n = n + int(round(first / step)) + 1
            if out.sizes["time"] != want_n or abs(float(out.coords["time"].data[-1])) > 1e-9:
                s.fail(f"extend_zero_stop:{step}", f"extend_dim(stop=0.0, right_closed=True) on an axis ending at {-first - step}: {out.sizes['time']} samples up to {out.coords['time'].data[-1]}, expected {want_n} up to 0.0")
    # ---- arrays with a second dimension: widths are counted along the named dimension, whatever the total number of elements
    for n, nf, order in itertools.product([4, 9, 10], [1, 2, 4], [("time", "frequency"), ("frequency", "time")]):
        tc = np.arange(n) * 0.5 + 1.0
        vals = np.repeat(tc[:, None], nf, axis=1) if order[0] == "time" else np.repeat(tc[None, :], nf, axis=0)
        arr2 = xr.DataArray(vals.astype(float), dims=order, coords={"time": create_range_dim("time", start=1.0, stop=1.0 + n * 0.5, step=0.5), "frequency": np.arange(nf) * 100.0})
        for width in sorted({1, 2, n - 3, n - 1, n, n + 2}):
            if width < 1:
                continue
            for pos in ("start", "center", "end"):
                s.case(None, ("2d", n, nf, order[0], width, pos))
                try:
                    out = adjust_dim_width(arr2, "time", width, fill_value=FILL, position=pos)
                except Exception as e:
                    s.fail(f"width_2d_raises:{pos}:{type(e).__name__}", f"adjust_dim_width on a {n} x {nf} array (dims {order}), width={width}, {pos} raised {type(e).__name__}: {str(e)[:120]}")
                    continue
                if out.sizes["time"] != width or out.sizes["frequency"] != nf:
                    s.fail(f"width_2d_size:{pos}:{'grow' if width > n else 'shrink'}", f"adjust_dim_width on a {n} x {nf} array (dims {order}), width={width}, position={pos}: sizes {dict(out.sizes)}")
                    continue
                col = out.isel(frequency=0)
                oc, od = col.coords["time"].data, col.data
                keep = od != FILL
                if not np.array_equal(od[keep], oc[keep]):
                    s.fail(f"width_2d_data:{pos}", f"{n} x {nf} array, width={width}, {pos}: data moved off its coordinate")
                if width < n:
                    exp0 = {"start": 0, "end": n - width, "center": n // 2 - width // 2}[pos]
                    if oc[0] != tc[max(0, exp0)]:
                        s.fail(f"width_2d_place:{pos}", f"{n} x {nf} array, width={width}, {pos}: cropped block starts at coordinate {oc[0]}, expected {tc[max(0, exp0)]}")
    # ---- sequences: the result of one operation is a legitimate input of the next (attributes written by a step must
    #      not mislead the following one)
    for start, step, n in itertools.product(STARTS, [1.0, 0.5, 0.1], [3, 6]):
        arr = axis(start, step, n)
        if arr is None:
            continue
        c = arr.coords["time"].data

        def lattice(k):
            return start + k * step
        s.case(None, ("seq", start, step, n))
        try:
            e1 = extend_dim(arr, "time", start=lattice(-2), stop=lattice(n + 1), fill_value=FILL, left_closed=True, right_closed=True)
            e2 = extend_dim(e1, "time", start=lattice(-4), stop=lattice(n + 3), fill_value=FILL, left_closed=True, right_closed=True)
            oc = e2.coords["time"].data
            want = np.array([lattice(k) for k in range(-4, n + 4)])
            if len(oc) != len(want) or np.abs(oc - want).max() > 1e-9 * max(1.0, abs(want).max()):
                s.fail(f"sequence_extend_extend:{step}", f"extend_dim twice (start={start}, step={step}, n={n}): coordinates {oc[:3]}..{oc[-2:]} ({len(oc)}), expected the lattice {want[:3]}..{want[-2:]} ({len(want)})")
            elif not np.array_equal(e2.data[4:4 + n], c):
                s.fail(f"sequence_extend_extend_data:{step}", "extend_dim twice moved the original samples")
            cr = crop_dim(e1, "time", start=lattice(0), stop=lattice(n - 1), left_closed=True, right_closed=True)
            if not np.allclose(cr.coords["time"].data, c, rtol=0, atol=1e-9) or not np.array_equal(cr.data, c):
                s.fail(f"sequence_extend_crop:{step}", f"extend_dim then crop_dim back to the original closed range (start={start}, step={step}, n={n}) gives {cr.coords['time'].data}, expected {c}")
            back = extend_dim(cr, "time", start=lattice(-2), stop=lattice(n + 1), fill_value=FILL, left_closed=True, right_closed=True)
            if back.sizes["time"] != n + 4 or not np.array_equal(back.data[2:2 + n], c):
                s.fail(f"sequence_extend_crop_extend:{step}", f"extend, crop, extend again (start={start}, step={step}, n={n}): {back.sizes['time']} samples, expected {n + 4}")
        except Exception as e:
            s.fail(f"sequence_raises:{step}:{type(e).__name__}", f"a sequence of extend_dim / crop_dim calls raised {type(e).__name__}: {str(e)[:160]} (start={start}, step={step}, n={n})")
    return s.finish("one case per (axis, width, position) / (axis, interval, closedness) / operation sequence; distinct by inputs")


if __name__ == "__main__":
    sys.exit(main())
