"""C03 stand-in: coordinate-structure lattice x {constructor, dict, attributes, JSON}; the real outcome
must equal the executable spec valid_T and the four entry points must agree. Also checks the pydantic
assumptions (mode independence, JSON dump re-validation)."""
import itertools
import json
import sys
import types

from bounded.harness import StandIn
from contracts import geometry as G
from soundevent import data
from soundevent.data.geometries import geometry_validate, MAX_FREQUENCY, GEOMETRY_MAPPING

EPS = 1e-9
TV = [-EPS, 0.0, 1.5, 3.0]
FV = [-EPS, 0.0, 440.0, float(MAX_FREQUENCY), MAX_FREQUENCY + 1e-3]


def points(rng, n, good=True):
    return [[rng.choice(TV[1:]) if good else rng.choice(TV), rng.choice(FV[1:4]) if good else rng.choice(FV)] for _ in range(n)]


def structures(tag, rng, many):
    """candidate coordinate structures for a type: valid, boundary, out of range, wrong arity, wrong length, reversed"""
    out = []
    if tag == "TimeStamp":
        return TV + [5, 1e9]
    if tag == "TimeInterval":
        out = [[a, b] for a in TV for b in TV] + [[], [1.0], [1.0, 2.0, 3.0]]
    elif tag == "Point":
        out = [[t, f] for t in TV for f in FV] + [[], [1.0], [1.0, 2.0, 3.0]]
    elif tag == "BoundingBox":
        out = [[a, f1, b, f2] for a in TV for b in TV for f1 in FV[::2] for f2 in FV[1::2]] + [[], [0, 0, 1], [0, 0, 1, 1, 1]]
    elif tag in ("LineString", "MultiPoint"):
        for n in range(0, 4):
            for _ in range(many):
                out.append(points(rng, n, good=rng.random() < 0.6))
        out += [[[1.0, 2.0], [3.0]], [[1.0, 2.0, 3.0], [2.0, 3.0]], [[3.0, 1.0], [1.0, 2.0]], [[1.0, 1.0], [1.0, 2.0]]]
    elif tag in ("Polygon", "MultiLineString"):
        for nr in range(0, 3):
            for _ in range(many):
                out.append([points(rng, rng.randint(0, 4), good=rng.random() < 0.7) for _ in range(nr)])
        out += [[[[0.0, 1.0], [0.0, 2.0]]], [[[1.0, 1.0], [0.0, 2.0]]], [[[0.0, 1.0], [1.0, 2.0], [2.0]]]]
    elif tag == "MultiPolygon":
        for npoly in range(0, 3):
            for _ in range(many):
                out.append([[points(rng, rng.randint(2, 4), good=rng.random() < 0.8) for _ in range(rng.randint(0, 2))] for _ in range(npoly)])
    return out


SPEC = dict(TimeStamp=G.valid_timestamp, TimeInterval=G.valid_timeinterval, Point=G.valid_point, BoundingBox=G.valid_boundingbox,
            LineString=G.valid_linestring, Polygon=G.valid_polygon, MultiPoint=G.valid_multipoint,
            MultiLineString=G.valid_multilinestring, MultiPolygon=G.valid_multipolygon)


def safe_spec(tag, c):
    try:
        return bool(SPEC[tag](c))
    except (TypeError, IndexError):
        return False


def main():
    s = StandIn("geometry_entry_points", "coordinate values in {-eps,0,mid,MAX,MAX+eps}; arity 0..3; lengths around each minimum; 4 entry points")
    many = 40 if s.tier == "quick" else 400
    for tag, cls in GEOMETRY_MAPPING.items():
        for c in structures(tag, s.rng, many):
            exp = safe_spec(tag, c)
            outcomes = []
            objs = []
            for mode in ("ctor", "dict", "attributes", "json"):
                try:
                    if mode == "ctor":
                        g = cls(coordinates=c)
                    elif mode == "dict":
                        g = geometry_validate({"type": tag, "coordinates": c}, mode="dict")
                    elif mode == "attributes":
                        g = geometry_validate(types.SimpleNamespace(type=tag, coordinates=c), mode="attributes")
                    else:
                        g = geometry_validate(json.dumps({"type": tag, "coordinates": c}), mode="json")
                    outcomes.append(True)
                    objs.append(g)
                except ValueError:
                    outcomes.append(False)
            key = f"{tag}:{json.dumps(c)}"
            s.case(None, key, sample=dict(type=tag, coordinates=c, accepted=outcomes))
            if any(o != exp for o in outcomes):
                s.fail("entry:" + key, f"{tag}{c}: accepted by [ctor,dict,attributes,json]={outcomes}, spec says {exp}")
                continue
            if exp:
                g = objs[0]
                if not all(type(o) is cls and o == g for o in objs):
                    s.fail("agree:" + key, f"{tag}{c}: entry points disagree or wrong class")
                if not safe_spec(tag, g.coordinates) or g.coordinates != G.normal_by_tag(tag, c):
                    s.fail("normal:" + key, f"{tag}{c}: stored {g.coordinates} not the normal form")
                again = geometry_validate(g.model_dump_json(), mode="json")
                if again != g:
                    s.fail("dump:" + key, f"{tag}{c}: re-validating the JSON dump gives {again}")
    # type tags distinct, mapping hits own class
    tags = [cls.model_fields["type"].default for cls in GEOMETRY_MAPPING.values()]
    s.case(None, "table")
    if len(set(tags)) != 9 or any(GEOMETRY_MAPPING[t].model_fields["type"].default != t for t in tags):
        s.fail("table", "type tags not distinct or mapping wrong")
    for bad in ({"coordinates": 1.0}, {"type": "Circle", "coordinates": 1.0}, [1, 2], "not json", '{"type": 5}'):
        for mode in ("dict", "json", "attributes"):
            s.case(None, f"bad:{bad}:{mode}")
            try:
                geometry_validate(bad, mode=mode)
                s.fail(f"bad:{bad}:{mode}", f"geometry_validate({bad!r}, {mode}) accepted")
            except ValueError:
                pass
            except Exception as e:
                s.fail(f"bad:{bad}:{mode}", f"geometry_validate({bad!r}, {mode}) raised {type(e).__name__} instead of ValueError")
    return s.finish("one case per (type, coordinate structure), each tried through 4 entry points; distinct by structure")


if __name__ == "__main__":
    sys.exit(main())
