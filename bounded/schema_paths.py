"""C04 stand-in: arrangements of <=3 annotations x <=3 predictions x matches drawn from {missing, duplicated, foreign,
one-sided, exact}, clip pairings, task membership patterns, start/end orderings, scores around 0 and 1 -- each
through the constructor, dict validation and JSON validation; the outcome must equal the executable spec."""
import itertools
import sys

from pydantic import ValidationError

from bounded.harness import StandIn
from contracts import schema as C
from soundevent import data

EPS = 1e-9
SCORES = [-EPS, 0.0, 0.5, 1.0, 1.0 + EPS]


def build_paths(cls, kwargs):
    """-> list of (path name, accepted?)"""
    out = []
    for name in ("ctor", "dict", "json"):
        try:
            if name == "ctor":
                cls(**kwargs)
            else:
                dumped = {k: (v.model_dump(mode="json") if hasattr(v, "model_dump") else
                              [x.model_dump(mode="json") for x in v] if isinstance(v, list) and v and hasattr(v[0], "model_dump") else v)
                          for k, v in kwargs.items()}
                if name == "dict":
                    cls.model_validate(dumped)
                else:
                    import json
                    cls.model_validate_json(json.dumps(dumped))
            out.append((name, True))
        except ValidationError:
            out.append((name, False))
    return out


def main():
    s = StandIn("schema_paths", "<=3 annotations, <=3 predictions, matches from {missing,duplicated,foreign,one-sided,exact}; scores in {-eps,0,.5,1,1+eps}; 3 construction paths")
    rec = data.Recording(path="a.wav", duration=10, channels=1, samplerate=8000)
    clipA = data.Clip(recording=rec, start_time=0, end_time=1)
    clipB = data.Clip(recording=rec, start_time=1, end_time=2)
    se = lambda: data.SoundEvent(recording=rec, geometry=data.TimeInterval(coordinates=[0.1, 0.2]))
    anns = [data.SoundEventAnnotation(sound_event=se()) for _ in range(3)]
    preds = [data.SoundEventPrediction(sound_event=se()) for _ in range(3)]
    foreign_a, foreign_p = data.SoundEventAnnotation(sound_event=se()), data.SoundEventPrediction(sound_event=se())

    def check(cls, kwargs, expected, key):
        res = build_paths(cls, kwargs)
        s.case(None, key, sample=dict(cls=cls.__name__, key=key, expected=expected, outcome=res))
        if any(ok != expected for _, ok in res):
            s.fail(f"{cls.__name__}:{key}", f"{cls.__name__} {key}: accepted by {res}, spec says {expected}")

    # ClipEvaluation
    for na, np_ in itertools.product(range(3 if s.tier == "quick" else 4), repeat=2):
        A, P = anns[:na], preds[:np_]
        ca = data.ClipAnnotation(clip=clipA, sound_events=A)
        for pclip in (clipA, clipB):
            cp = data.ClipPrediction(clip=pclip, sound_events=P)
            exact = [data.Match(source=p, target=a, affinity=0.5) for a, p in zip(A, P)]
            exact += [data.Match(target=a) for a in A[len(P):]] + [data.Match(source=p) for p in P[len(A):]]
            variants = {"exact": exact, "missing": exact[:-1] if exact else None,
                        "duplicated": exact + exact[:1] if exact else None,
                        "foreign-target": exact + [data.Match(target=foreign_a)],
                        "foreign-source": exact + [data.Match(source=foreign_p)],
                        "all-one-sided": [data.Match(target=a) for a in A] + [data.Match(source=p) for p in P]}
            for vname, ms in variants.items():
                if ms is None:
                    continue
                for score in (None, 0.0, 1.0, 1.0 + EPS, -EPS):
                    exp = C.clip_evaluation_ok(ca, cp, ms, score)
                    check(data.ClipEvaluation, dict(annotations=ca, predictions=cp, matches=ms, score=score), exp,
                          f"na={na}:np={np_}:sameclip={pclip is clipA}:{vname}:score={score}")
    # Match
    for src, tgt, aff, sc in itertools.product((None, preds[0]), (None, anns[0]), SCORES, (None,) + tuple(SCORES)):
        check(data.Match, dict(source=src, target=tgt, affinity=aff, score=sc), C.match_ok(src, tgt, aff, sc),
              f"src={src is not None}:tgt={tgt is not None}:aff={aff}:score={sc}")
    # AnnotationProject
    clips = [clipA, clipB, data.Clip(recording=rec, start_time=2, end_time=3)]
    for mask_t in itertools.product((0, 1), repeat=3):
        for mask_a in itertools.product((0, 1), repeat=3):
            tasks = [data.AnnotationTask(clip=c) for c, m in zip(clips, mask_t) if m]
            cas = [data.ClipAnnotation(clip=c) for c, m in zip(clips, mask_a) if m]
            check(data.AnnotationProject, dict(name="p", clip_annotations=cas, tasks=tasks), C.project_ok(cas, tasks), f"tasks={mask_t}:annotated={mask_a}")
    # Clip ordering, score bounds
    for a, b in itertools.product((0.0, 1.0, 1.0 + EPS, 2.0), repeat=2):
        check(data.Clip, dict(recording=rec, start_time=a, end_time=b), not (a > b), f"start={a}:end={b}")
    tag = data.Tag(key="species", value="x")
    for sc in SCORES:
        ok = 0 <= sc <= 1
        check(data.PredictedTag, dict(tag=tag, score=sc), ok, f"score={sc}")
        check(data.SoundEventPrediction, dict(sound_event=se(), score=sc), ok, f"score={sc}")
        check(data.SequencePrediction, dict(sequence=data.Sequence(), score=sc), ok, f"score={sc}")
    aoef_path(s, rec)
    return s.finish("one case per arrangement, each through constructor / dict / JSON; AOEF documents edited field by field; distinct by arrangement")


def aoef_path(s, rec):
    """the fourth construction path: AOEF loading.  A valid collection is saved, ONE field of the JSON text is edited to the
    value under test, and io.load must accept the document exactly when the invariant holds for the edited value."""
    import copy
    import json
    import os
    import tempfile
    from soundevent import io
    tmp = tempfile.mkdtemp(prefix="verif_c04_")
    path = os.path.join(tmp, "doc.json")
    clip = data.Clip(recording=rec, start_time=0, end_time=1)
    clip2 = data.Clip(recording=rec, start_time=1, end_time=2)
    se = lambda: data.SoundEvent(recording=rec, geometry=data.TimeInterval(coordinates=[0.1, 0.2]))
    tag = data.Tag(key="species", value="x")
    a0, a1 = data.SoundEventAnnotation(sound_event=se()), data.SoundEventAnnotation(sound_event=se())
    p0 = data.SoundEventPrediction(sound_event=se(), score=0.5, tags=[data.PredictedTag(tag=tag, score=0.5)])
    ca = data.ClipAnnotation(clip=clip, sound_events=[a0, a1])
    cp = data.ClipPrediction(clip=clip, sound_events=[p0], tags=[data.PredictedTag(tag=tag, score=0.25)],
                             sequences=[data.SequencePrediction(sequence=data.Sequence(sound_events=[p0.sound_event]), score=0.5)])
    matches = [data.Match(source=p0, target=a0, affinity=0.5, score=0.5), data.Match(target=a1, affinity=0.0, score=0.0)]
    ev = data.Evaluation(evaluation_task="t", score=0.5,
                         clip_evaluations=[data.ClipEvaluation(annotations=ca, predictions=cp, matches=matches, score=0.5)])
    proj = data.AnnotationProject(name="p", clip_annotations=[ca, data.ClipAnnotation(clip=clip2)],
                                  tasks=[data.AnnotationTask(clip=clip), data.AnnotationTask(clip=clip2)])

    def doc_of(obj):
        io.save(obj, path)
        return json.load(open(path))

    def loads(doc):
        json.dump(doc, open(path, "w"))
        try:
            io.load(path)
            return True
        except Exception:
            return False

    def check(key, doc, expected):
        got = loads(doc)
        s.case(None, ("aoef", key), sample=dict(path="aoef", key=key, expected=expected, loaded=got))
        if got != expected:
            s.fail(f"aoef:{key.split('=')[0]}:{expected}", f"AOEF loading {'accepted' if got else 'rejected'} a document with {key}; the invariant says {'accept' if expected else 'reject'}")
    base_ev, base_proj = doc_of(ev), doc_of(proj)
    check("unchanged evaluation", copy.deepcopy(base_ev), True)
    check("unchanged project", copy.deepcopy(base_proj), True)
    for field, where in (("affinity", "matches"), ("score", "matches"), ("score", "clip_evaluations"), ("score", "sound_event_predictions"),
                         ("score", "sequence_predictions")):
        for val in SCORES:
            d = copy.deepcopy(base_ev)
            if where not in d["data"] or not d["data"][where]:
                s.fail(f"aoef:layout:{where}", f"the saved evaluation has no `{where}` list to edit")
                continue
            d["data"][where][0][field] = val
            check(f"{where}[0].{field}={val}", d, 0 <= val <= 1)
    for val in SCORES:     # predicted tag probabilities: [tag id, score] pairs
        for where in ("sound_event_predictions", "clip_predictions"):
            d = copy.deepcopy(base_ev)
            d["data"][where][0]["tags"][0][1] = val
            check(f"{where}[0].tags[0].score={val}", d, 0 <= val <= 1)
    # matches of the clip evaluation: missing / duplicated / neither source nor target
    d = copy.deepcopy(base_ev)
    d["data"]["clip_evaluations"][0]["matches"] = d["data"]["clip_evaluations"][0]["matches"][:1]
    check("clip evaluation with a match missing", d, False)
    d = copy.deepcopy(base_ev)
    d["data"]["clip_evaluations"][0]["matches"] = d["data"]["clip_evaluations"][0]["matches"] + d["data"]["clip_evaluations"][0]["matches"][:1]
    check("clip evaluation with a match listed twice", d, False)
    d = copy.deepcopy(base_ev)
    for k in ("source", "target"):
        d["data"]["matches"][1].pop(k, None)
    d["data"]["sound_event_annotations"] = d["data"]["sound_event_annotations"]
    check("match with neither source nor target", d, False)
    # clip ordering
    for a, b in ((0.0, 1.0), (1.0, 1.0), (1.0 + EPS, 1.0), (2.0, 1.0)):
        d = copy.deepcopy(base_proj)
        d["data"]["clips"][0]["start_time"], d["data"]["clips"][0]["end_time"] = a, b
        check(f"clips[0] start={a} end={b}", d, not (a > b))
    # a project must have a task for every annotated clip
    d = copy.deepcopy(base_proj)
    d["data"]["tasks"] = d["data"]["tasks"][:1]
    check("annotation project with an annotated clip without task", d, False)
    for f in os.listdir(tmp):
        os.unlink(os.path.join(tmp, f))
    os.rmdir(tmp)


if __name__ == "__main__":
    sys.exit(main())
