"""C04 stand-in: arrangements of <=3 annotations x <=3 predictions x matches drawn from {missing, duplicated, foreign,
one-sided, exact}, clip pairings, task membership patterns, start/end orderings, scores around 0 and 1 -- each
through the constructor, dict validation and JSON validation; the outcome must equal the executable spec."""
import itertools
import sys

from pydantic import ValidationError

from bounded.harness import StandIn
from contracts import schema as C
from soundevent import data

EPS = 1e-9
SCORES = [-EPS, 0.0, 0.5, 1.0, 1.0 + EPS]


def build_paths(cls, kwargs):
    """-> list of (path name, accepted?)"""
    out = []
    for name in ("ctor", "dict", "json"):
        try:
            if name == "ctor":
                cls(**kwargs)
            else:
                dumped = {k: (v.model_dump(mode="json") if hasattr(v, "model_dump") else
                              [x.model_dump(mode="json") for x in v] if isinstance(v, list) and v and hasattr(v[0], "model_dump") else v)
                          for k, v in kwargs.items()}
                if name == "dict":
                    cls.model_validate(dumped)
                else:
                    import json
                    cls.model_validate_json(json.dumps(dumped))
            out.append((name, True))
        except ValidationError:
            out.append((name, False))
    return out


def main():
    s = StandIn("schema_paths", "<=3 annotations, <=3 predictions, matches from {missing,duplicated,foreign,one-sided,exact}; scores in {-eps,0,.5,1,1+eps}; 3 construction paths")
    rec = data.Recording(path="a.wav", duration=10, channels=1, samplerate=8000)
    clipA = data.Clip(recording=rec, start_time=0, end_time=1)
    clipB = data.Clip(recording=rec, start_time=1, end_time=2)
    se = lambda: data.SoundEvent(recording=rec, geometry=data.TimeInterval(coordinates=[0.1, 0.2]))
    anns = [data.SoundEventAnnotation(sound_event=se()) for _ in range(3)]
    preds = [data.SoundEventPrediction(sound_event=se()) for _ in range(3)]
    foreign_a, foreign_p = data.SoundEventAnnotation(sound_event=se()), data.SoundEventPrediction(sound_event=se())

    def check(cls, kwargs, expected, key):
        res = build_paths(cls, kwargs)
        s.case(None, key, sample=dict(cls=cls.__name__, key=key, expected=expected, outcome=res))
        if any(ok != expected for _, ok in res):
            s.fail(f"{cls.__name__}:{key}", f"{cls.__name__} {key}: accepted by {res}, spec says {expected}")

    # ClipEvaluation
    for na, np_ in itertools.product(range(3 if s.tier == "quick" else 4), repeat=2):
        A, P = anns[:na], preds[:np_]
        ca = data.ClipAnnotation(clip=clipA, sound_events=A)
        for pclip in (clipA, clipB):
            cp = data.ClipPrediction(clip=pclip, sound_events=P)
            exact = [data.Match(source=p, target=a, affinity=0.5) for a, p in zip(A, P)]
            exact += [data.Match(target=a) for a in A[len(P):]] + [data.Match(source=p) for p in P[len(A):]]
            variants = {"exact": exact, "missing": exact[:-1] if exact else None,
                        "duplicated": exact + exact[:1] if exact else None,
                        "foreign-target": exact + [data.Match(target=foreign_a)],
                        "foreign-source": exact + [data.Match(source=foreign_p)],
                        "all-one-sided": [data.Match(target=a) for a in A] + [data.Match(source=p) for p in P]}
            for vname, ms in variants.items():
                if ms is None:
                    continue
                for score in (None, 0.0, 1.0, 1.0 + EPS, -EPS):
                    exp = C.clip_evaluation_ok(ca, cp, ms, score)
                    check(data.ClipEvaluation, dict(annotations=ca, predictions=cp, matches=ms, score=score), exp,
                          f"na={na}:np={np_}:sameclip={pclip is clipA}:{vname}:score={score}")
    # Match
    for src, tgt, aff, sc in itertools.product((None, preds[0]), (None, anns[0]), SCORES, (None,) + tuple(SCORES)):
        check(data.Match, dict(source=src, target=tgt, affinity=aff, score=sc), C.match_ok(src, tgt, aff, sc),
              f"src={src is not None}:tgt={tgt is not None}:aff={aff}:score={sc}")
    # AnnotationProject
    clips = [clipA, clipB, data.Clip(recording=rec, start_time=2, end_time=3)]
    for mask_t in itertools.product((0, 1), repeat=3):
        for mask_a in itertools.product((0, 1), repeat=3):
            tasks = [data.AnnotationTask(clip=c) for c, m in zip(clips, mask_t) if m]
            cas = [data.ClipAnnotation(clip=c) for c, m in zip(clips, mask_a) if m]
            check(data.AnnotationProject, dict(name="p", clip_annotations=cas, tasks=tasks), C.project_ok(cas, tasks), f"tasks={mask_t}:annotated={mask_a}")
    # Clip ordering, score bounds
    for a, b in itertools.product((0.0, 1.0, 1.0 + EPS, 2.0), repeat=2):
        check(data.Clip, dict(recording=rec, start_time=a, end_time=b), not (a > b), f"start={a}:end={b}")
    tag = data.Tag(key="species", value="x")
    for sc in SCORES:
        ok = 0 <= sc <= 1
        check(data.PredictedTag, dict(tag=tag, score=sc), ok, f"score={sc}")
        check(data.SoundEventPrediction, dict(sound_event=se(), score=sc), ok, f"score={sc}")
        check(data.SequencePrediction, dict(sequence=data.Sequence(), score=sc), ok, f"score={sc}")
    return s.finish("one case per arrangement, each through constructor / dict / JSON; distinct by arrangement")


if __name__ == "__main__":
    sys.exit(main())
