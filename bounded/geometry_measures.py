"""C05 stand-in: the executable contracts of compute_bounds / geometry_to_shapely / compute_geometric_features /
get_geometry_point on random valid geometries of all nine types; checks the shapely assumptions on the installed
library and the two library-only sub-claims (centroid and point_on_surface lie inside the bounds)."""
import sys

from bounded.harness import StandIn, check_contract
from bounded.geomgen import TYPES, random_geometry
from contracts import geometry as G
from soundevent.geometry.conversion import geometry_to_shapely
from soundevent.geometry.features import compute_geometric_features
from soundevent.geometry.operations import compute_bounds, get_geometry_point


def main():
    s = StandIn("geometry_measures", "random valid geometries (<=7 vertices per ring, <=2 holes, <=3 parts), incl. degenerate and domain-edge ones")
    n = 120 if s.tier == "quick" else 2000
    from soundevent import data
    M = data.MAX_FREQUENCY
    # geometries ON the edges of the domain: zero time, zero frequency (also as the HIGH frequency), MAX_FREQUENCY, zero extent
    fixed = {"BoundingBox": [[1.0, 0.0, 3.0, 0.0], [2.0, 0.0, 2.0, 0.0], [0.0, 0.0, 0.0, 0.0], [0.0, 0.0, 4.0, float(M)], [1.0, float(M), 2.0, float(M)]],
             "TimeInterval": [[0.0, 0.0], [0.0, 2.5]], "TimeStamp": [0.0], "Point": [[0.0, 0.0], [3.0, float(M)]],
             "MultiPoint": [[[0.0, 0.0], [0.0, float(M)]],
                            # repeated points: every coordinate (and the number of parts) must survive the conversion
                            [[1.0, 100.0], [1.0, 100.0], [3.0, 300.0], [3.0, 300.0]], [[2.0, 50.0], [4.0, 70.0], [2.0, 50.0]]],
             "MultiLineString": [[[[1.0, 100.0], [2.0, 200.0]], [[1.0, 100.0], [2.0, 200.0]]]], "LineString": [[[0.0, 0.0], [2.0, 0.0]], [[1.0, float(M)], [1.0, 0.0]], [[1.0, 5.0], [1.0, 5.0], [2.0, 9.0], [2.0, 9.0]]]}
    for kind in TYPES:
        pool = [getattr(data, kind)(coordinates=c) for c in fixed.get(kind, [])]
        for j in range(n + len(pool)):
            if j < len(pool):
                g = pool[j]
            else:
                g = random_geometry(s.rng, kind, edge=(j % 4 == 0))
            for _ in range(20):  # the generator aims at valid geometries; re-draw the rare invalid one
                if G.valid_geometry(g):
                    break
                g = random_geometry(s.rng, kind, edge=(j % 4 == 0))
            key = f"{kind}:{g.coordinates}"
            s.case(None, key, sample=dict(type=kind, coordinates=g.coordinates))
            if not G.valid_geometry(g):
                s.fail("generator:" + key, "generated geometry does not satisfy valid_geometry (stand-in bug)")
                continue
            for contract, fn, args in ((G.GeometryToShapely, geometry_to_shapely, dict(geom=g)),
                                       (G.ComputeBounds, compute_bounds, dict(geometry=g)),
                                       (G.ComputeGeometricFeatures, compute_geometric_features, dict(geometry=g))):
                ok, obs, exp = check_contract(contract, fn, args)
                if not ok:
                    s.fail(f"{fn.__name__}:{key}", f"{fn.__name__}({kind}{g.coordinates}) -> {obs[:300]}; violates {exp}")
            b = compute_bounds(g)
            ext = max(b[2] - b[0], b[3] - b[1], 1.0)
            for pos in G.ALL_POSITIONS:
                ok, obs, exp = check_contract(G.GetGeometryPoint, get_geometry_point, dict(geometry=g, position=pos))
                if not ok:
                    s.fail(f"get_geometry_point:{pos}:{key}", f"get_geometry_point({kind}, {pos}) -> {obs}; violates {exp}")
                if pos in ("centroid", "point_on_surface"):
                    x, y = get_geometry_point(g, pos)
                    tol = 1e-9 * ext
                    if not (b[0] - tol <= x <= b[2] + tol and b[1] - tol <= y <= b[3] + tol):
                        s.fail(f"inside:{pos}:{key}", f"{pos} of {kind} = {(x, y)} outside bounds {b}")
            ok, obs, exp = check_contract(G.GetGeometryPoint, get_geometry_point, dict(geometry=g, position="middle"))
            if not ok:
                s.fail(f"get_geometry_point:invalid:{key}", f"invalid position -> {obs}")
    return s.finish("one case per generated geometry (all contracts + 11 positions evaluated on it); distinct by coordinates")


if __name__ == "__main__":
    sys.exit(main())
