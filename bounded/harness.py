"""Shared harness for bounded stand-ins (run under the repository's interpreter)."""
import argparse
import inspect
import json
import os
import random
import sys
import time


class StandIn:
    def __init__(self, name, bound):
        ap = argparse.ArgumentParser()
        ap.add_argument("--tier", default="quick")
        ap.add_argument("--seed", type=int, default=0)
        ap.add_argument("--out", required=True)
        ap.add_argument("--case")  # replay of one failing case (JSON)
        self.args = ap.parse_args()
        self.name = name
        self.bound = bound
        self.tier = self.args.tier
        self.rng = random.Random(self.args.seed)
        self.evaluations = 0
        self.nontrivial = set()
        self.failures = []
        self.fail_counts = {}
        self.samples = []
        self.t0 = time.time()
        import soundevent
        self.repo_file = soundevent.__file__
        self._install_excepthook()

    def _install_excepthook(self):
        """An exception that escapes from the LIBRARY's code (innermost frame under the repository's src) through a call
        this stand-in did not expect to raise is a finding about the tree, not a crash of the check: it is recorded as a
        failure and the run ends normally.  Exceptions raised by the stand-in's own code still crash (checker error)."""
        src_root = os.path.dirname(os.path.dirname(os.path.abspath(self.repo_file)))
        prev = sys.excepthook

        def hook(tp, val, tb):
            frames = []
            t = tb
            while t is not None:
                frames.append(t.tb_frame.f_code.co_filename)
                t = t.tb_next
            lib = [f for f in frames if os.path.abspath(f).startswith(src_root)]
            if not lib or isinstance(val, (KeyboardInterrupt, SystemExit, MemoryError)):
                return prev(tp, val, tb)
            where = os.path.relpath(lib[-1], src_root)
            self.fail(f"uncaught:{tp.__name__}:{where}", f"the library raised {tp.__name__}: {str(val)[:300]} (innermost library frame: {where}) "
                      "in a call that this stand-in expects to succeed")
            self.finish("aborted by an exception escaping from the library; cases up to that point are counted")
            os._exit(0)
        sys.excepthook = hook

    def case(self, key, nontrivial_key=None, sample=None):
        self.evaluations += 1
        if nontrivial_key is not None:
            self.nontrivial.add(nontrivial_key)
        if sample is not None and len(self.samples) < 5:
            self.samples.append(sample)

    def fail(self, key, what, **detail):
        """at most 3 recorded per failure class (first three ':'-fields of the key), 90 in total; all are counted"""
        klass = ":".join(key.split(":")[:3])
        self.fail_counts[klass] = self.fail_counts.get(klass, 0) + 1
        if self.fail_counts[klass] <= 3 and len(self.failures) < 90:
            self.failures.append(dict(key=key, what=what, **detail))

    def finish(self, rule):
        out = dict(standin=self.name, bound=self.bound, evaluations=self.evaluations,
                   distinct_nontrivial=len(self.nontrivial), rule=rule, samples=self.samples,
                   failures=self.failures, failure_counts=self.fail_counts, repo_file=self.repo_file, wall_s=round(time.time() - self.t0, 2))
        with open(self.args.out, "w") as f:
            json.dump(out, f, default=str)
        return 0


def call_pred(fn, values):
    names = list(inspect.signature(fn).parameters)
    return fn(*[values[n] for n in names])


def check_contract(contract, target, args):
    """Run target(**args) and evaluate the contract natively. -> (ok, observed, expected)"""
    excs = {k[len("raises_"):]: getattr(contract, k) for k in dir(contract) if k.startswith("raises_")}
    try:
        result = target(**args)
        if inspect.isgenerator(result):
            result = list(result)
    except Exception as e:
        names = [c.__name__ for c in type(e).__mro__]
        ok = any(n in excs and call_pred(excs[n], args) for n in names)
        return ok, f"raised {type(e).__name__}: {e}", "no exception" if not ok else "raise"
    must = [n for n, f in excs.items() if call_pred(f, args)]
    if must:
        return False, repr(result), f"raise {must}"
    if hasattr(contract, "ensures"):
        vals = dict(args)
        vals["result"] = result
        return bool(call_pred(contract.ensures, vals)), repr(result), "ensures"
    return True, repr(result), ""
