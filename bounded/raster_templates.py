"""C20 stand-in: templates 1-8 x 1-8 bins, both dimension orders, spacings {1, .1, 1/3}, boxes on and off bin edges,
polygons, lists <= 3 with distinct values, fill / dtype / all_touched; compared with an independent
centre-in-geometry reference (shapely contains on the bin-index image).  Also checks the rasterio assumptions."""
import itertools
import sys

import numpy as np
import shapely
import xarray as xr

from bounded.harness import StandIn
from soundevent import data
from soundevent.arrays import get_coord_index
from soundevent.geometry import rasterize
from soundevent.geometry.conversion import geometry_to_shapely


def template(nt, nf, dt, df, order, content, t0=1.0, f0=100.0):
    t = np.arange(nt) * dt + t0
    f = np.arange(nf) * df + f0
    shape = (nt, nf) if order == ("time", "frequency") else (nf, nt)
    vals = np.full(shape, content, dtype=float)
    return xr.DataArray(vals, dims=order, coords={"time": t, "frequency": f})


def independent_shape(g):
    """the shapely shape of a geometry, built here from its coordinates (not through the library's conversion)"""
    c = g.coordinates
    if g.type == "BoundingBox":
        return shapely.box(c[0], c[1], c[2], c[3])
    if g.type == "TimeInterval":
        return shapely.box(c[0], 0.0, c[1], data.MAX_FREQUENCY)
    if g.type == "Polygon":
        return shapely.Polygon(c[0], c[1:])
    if g.type == "MultiPolygon":
        return shapely.MultiPolygon([shapely.Polygon(part[0], part[1:]) for part in c])
    return geometry_to_shapely(g)


def even_odd_inside(poly, x, y):
    """ray casting over all rings, written out here: for a ring that crosses itself shapely's predicates are undefined; the
    stand-in only uses self-crossing rings on which the even-odd and the non-zero rule agree (an hourglass)"""
    inside = False
    for ring in [poly.exterior] + list(poly.interiors):
        pts = list(ring.coords)
        for (x1, y1), (x2, y2) in zip(pts, pts[1:]):
            if (y1 > y) != (y2 > y) and x < x1 + (y - y1) * (x2 - x1) / (y2 - y1):
                inside = not inside
    return inside


def reference(geoms, values, arr, fill, all_touched):
    nt, nf = arr.sizes["time"], arr.sizes["frequency"]
    out = np.full((nt, nf), fill, dtype=float)
    amb = np.zeros((nt, nf), dtype=bool)   # centre exactly on a boundary: the burn rule of the library decides, not the property
    for g, v in zip(geoms, values):
        tc, fc = arr.coords["time"].values, arr.coords["frequency"].values

        def index(c, x):   # written out here: independent of the library's own lookup
            if x < c[0]:
                return 0
            if x > c[-1]:
                return len(c)
            return max(k for k in range(len(c)) if c[k] <= x)
        shp = shapely.transform(independent_shape(g), lambda cs: np.array([[index(tc, x), index(fc, y)] for x, y in cs], dtype=float))
        crossing = g.type == "Polygon" and not shp.is_valid
        for i in range(nt):
            for j in range(nf):
                centre = shapely.Point(i + 0.5, j + 0.5)
                if shp.boundary.distance(centre) < 1e-9:
                    amb[i, j] = True
                elif even_odd_inside(shp, i + 0.5, j + 0.5) if crossing else shp.contains(centre):
                    out[i, j] = v
    return out, amb


def main():
    s = StandIn("raster_templates", "templates 1..8 x 1..8 bins (sampled), both dimension orders, spacings {1,.1,1/3}; boxes on/off bin edges, polygons; <=3 geometries")
    sizes = [(1, 1), (1, 4), (3, 3), (5, 2), (2, 7), (8, 8), (6, 4)] if s.tier == "quick" else list(itertools.product(range(1, 9), repeat=2))
    # the last two grids make time and frequency coordinates share numeric values that fall into different bins
    grids = [(1.0, 10.0, 1.0, 100.0), (0.1, 1.0, 1.0, 100.0), (1 / 3, 100 / 3, 1.0, 100.0), (1.0, 2.0, 2.0, 0.0), (2.0, 1.0, 0.0, 3.0)]
    for (nt, nf), (dt, df, t0, f0), order in itertools.product(sizes, grids, [("frequency", "time"), ("time", "frequency")]):
        arr = template(nt, nf, dt, df, order, content=s.rng.choice([0.0, 5.0]), t0=t0, f0=f0)
        boxes = [data.BoundingBox(coordinates=[t0 + a * dt, f0 + b * df, t0 + c * dt, f0 + d * df])
                 for a, b, c, d in ((0, 0, nt - 1, nf - 1), (0.5, 0.5, max(0.6, nt - 1.5), max(0.6, nf - 1.5)), (0, 0, 0.4, 0.4), (1, 0, min(nt - 1, 2), min(nf - 1, 1)))
                 if a <= c and b <= d and c <= nt - 1 and d <= nf - 1 and nt > 0]
        # geometries reaching beyond the last coordinate of either axis (clamped lookups), incl. a time-only geometry
        beyond = [data.BoundingBox(coordinates=[t0, f0 + 0.5 * df, t0 + (nt + 3) * dt, f0 + (nf + 5) * df]),
                  data.TimeInterval(coordinates=[t0 + 0.5 * dt, t0 + (nt + 2) * dt])]
        poly = [data.Polygon(coordinates=[[[t0, f0], [t0 + (nt - 1) * dt, f0], [t0 + (nt - 1) * dt / 2, f0 + (nf - 1) * df]]])] if nt > 1 and nf > 1 else []
        cases = [([b], 1) for b in boxes] + [(poly, 2)] * bool(poly) + ([(boxes[:3], [1, 2, 3])] if len(boxes) >= 3 else []) + [([g], 4) for g in beyond]
        if nt >= 5 and nf >= 4:
            # holes: a polygon and a two-part multipolygon whose parts have holes large enough to contain cell centres
            def ring(a, b, c, d):
                return [[t0 + a * dt, f0 + b * df], [t0 + c * dt, f0 + b * df], [t0 + c * dt, f0 + d * df], [t0 + a * dt, f0 + d * df]]
            holed = data.Polygon(coordinates=[ring(0, 0, nt - 1, nf - 1), ring(1.2, 1.2, nt - 2.2, nf - 2.2)])
            multi = data.MultiPolygon(coordinates=[[ring(0, 0, 2.6, nf - 1), ring(0.7, 0.7, 1.9, nf - 1.7)],
                                                   [ring(2.9, 0, nt - 1, nf - 1), ring(3.2, 1.1, nt - 1.3, nf - 1.4), ring(3.2, 0.2, nt - 1.3, 0.8)]])
            # a ring that crosses itself (hourglass): both lobes are inside under either filling rule
            hourglass = data.Polygon(coordinates=[[[t0, f0], [t0 + (nt - 1) * dt, f0 + (nf - 1) * df], [t0 + (nt - 1) * dt, f0], [t0, f0 + (nf - 1) * df]]])
            cases += [([holed], 5), ([multi], 6), ([hourglass], 7)]
        for geoms, values in cases:
            for fill, at in ((0, False), (-1, False), (0, True)):
                key = f"{nt}x{nf}:{dt}:{t0}:{order[0]}:{[g.coordinates for g in geoms]}:{values}:{fill}:{at}"
                s.case(None, key, sample=dict(shape=(nt, nf), order=order, geometries=[g.coordinates for g in geoms], values=values))
                try:
                    out = rasterize(geoms, arr, values=values, fill=fill, all_touched=at)
                except Exception as e:
                    s.fail(f"raster_raises:{order[0]}-first:{type(e).__name__}", f"rasterize on a {nt}x{nf} template with dims {order} raised {type(e).__name__}: {str(e)[:150]}")
                    continue
                if out.dims != ("time", "frequency") or not np.array_equal(out.coords["time"], arr.coords["time"]) or not np.array_equal(out.coords["frequency"], arr.coords["frequency"]):
                    s.fail(f"raster_axes:{order[0]}-first", f"result dims {out.dims} / coordinates differ from the template's")
                    continue
                vals = values if isinstance(values, list) else [values] * len(geoms)
                ref, amb = reference(geoms, vals, arr, fill, at)
                got = np.asarray(out.data, dtype=float)
                if at:
                    if not ((got != fill) | (ref == fill) | amb).all():
                        s.fail(f"raster_all_touched:{order[0]}-first", f"all_touched removed cells ({key})")
                elif not np.array_equal(got[~amb], ref[~amb]):
                    s.fail(f"raster_cells:{order[0]}-first", f"cells differ from the centre-in-geometry reference for {key}: got\n{got}\nexpected\n{ref}")
        for bad in ([1, 2], (1,), []):
            if len(bad) != len(boxes[:1]):
                s.case(None, ("arity", nt, nf, order, len(bad)))
                try:
                    rasterize(boxes[:1], arr, values=bad)
                    s.fail(f"raster_arity:{len(bad)}", "a value list of the wrong length was accepted")
                except ValueError:
                    pass
    return s.finish("one case per (template, dimension order, geometry list, fill, all_touched); distinct by inputs")


if __name__ == "__main__":
    sys.exit(main())
