"""C11 stand-in: buffer_geometry on all nine types, buffers in {0, small, mid, larger than the domain} per axis,
geometries touching t=0, f=0, f=MAX; checks the executable contract, validity of the result, containment (shapely
covers, tolerance 1e-9 relative), bounds growth and monotonicity.  Bounded; this is the only evidence for the six
GEOS-backed types' containment / growth / monotonicity."""
import sys

import shapely

from bounded.harness import StandIn, check_contract
from bounded.geomgen import TYPES, random_geometry, MAXF
from contracts import buffer as C
from contracts import geometry as G
from soundevent.geometry import buffer_geometry, compute_bounds, geometry_to_shapely

TB = [0.0, 0.01, 0.5, 50.0]
FB = [0.0, 100.0, 5000.0, 6.0e6]


def main():
    s = StandIn("buffer_shapes", "9 types x time buffers {0,.01,.5,50} x freq buffers {0,100,5000,6e6}; random + domain-edge geometries")
    n = 6 if s.tier == "quick" else 60
    for kind in TYPES:
        for j in range(n):
            g = random_geometry(s.rng, kind, edge=(j % 2 == 0))
            for _ in range(20):
                if G.valid_geometry(g):
                    break
                g = random_geometry(s.rng, kind, edge=(j % 2 == 0))
            b0 = compute_bounds(g)
            shp0 = geometry_to_shapely(g)
            prev = {}
            for tb in TB:
                for fb in FB:
                    if kind not in ("TimeStamp", "TimeInterval", "BoundingBox") and (tb == 0.0) != (fb == 0.0) and False:
                        continue
                    key = f"{kind}:{g.coordinates}:{tb}:{fb}"
                    geos = kind not in ("TimeStamp", "TimeInterval", "BoundingBox")
                    # a zero buffer on one axis makes buffer_shapely_geometry scale that axis by 1e9 (degenerate, lossy)
                    zero = "zero-axis-buffer" if geos and (tb == 0.0 or fb == 0.0) else None
                    s.case(None, key, sample=dict(type=kind, coordinates=g.coordinates, time_buffer=tb, freq_buffer=fb))
                    try:
                        r = buffer_geometry(g, time_buffer=tb, freq_buffer=fb)
                    except Exception as e:
                        s.fail(f"buffer_raises:{kind}:{zero or 'LARGE'}:{type(e).__name__}:tb={tb}:fb={fb}", f"buffer_geometry({kind}{g.coordinates}, {tb}, {fb}) raised {type(e).__name__}: {e}")
                        continue
                    ok, obs, exp = check_contract(C.BufferGeometry, buffer_geometry, dict(geometry=g, time_buffer=tb, freq_buffer=fb))
                    if not ok:
                        s.fail(f"buffer_contract:{key}", f"buffer_geometry({kind}, {tb}, {fb}) -> {obs[:200]} violates {exp}")
                    if not G.valid_by_tag(r.type, r.coordinates):
                        s.fail(f"buffer_valid:{key}", f"result not a valid {r.type}")
                    b = compute_bounds(r)
                    ext = max(b0[2] - b0[0], b0[3] - b0[1], tb, fb, 1.0)
                    tol = 1e-9 * ext
                    shp = geometry_to_shapely(r)
                    if not shp.buffer(tol).covers(shp0):
                        s.fail(f"buffer_contains:{kind}:{zero or 'LARGE'}:tb={tb}:fb={fb}", f"buffered {kind}{g.coordinates} ({tb},{fb}) does not contain the original")
                    want = (max(b0[0] - tb, 0), max(b0[1] - fb, 0), b0[2] + tb, min(b0[3] + fb, MAXF))
                    short = max(b[0] - want[0], (b[1] - want[1]) , want[2] - b[2], (want[3] - b[3]))
                    rel = max((b[0] - want[0]) / max(tb, 1e-12), (want[2] - b[2]) / max(tb, 1e-12),
                              (b[1] - want[1]) / max(fb, 1e-12), (want[3] - b[3]) / max(fb, 1e-12))
                    if short > tol:
                        # polygonal round caps (8 segments per quarter circle) fall short of the full buffer by at most
                        # 1 - cos(pi/32) = 0.48 %: that class is keyed separately from any larger shortfall
                        klass = zero or ("cap-le-0.5pct" if geos and rel <= 0.005 else "LARGE")
                        s.fail(f"buffer_growth:{kind}:{klass}:tb={tb}:fb={fb}:rel={rel:.4f}",
                               f"bounds of buffered {kind}{g.coordinates} ({tb},{fb}) = {b}, expected at least {want} (short by {short:.6g}, {100*rel:.3f}% of the buffer)")
                    prev[(tb, fb)] = shp
            # monotonicity: larger buffers give supersets
            for (tb1, fb1), s1 in prev.items():
                for (tb2, fb2), s2 in prev.items():
                    if tb1 <= tb2 and fb1 <= fb2 and (tb1, fb1) != (tb2, fb2):
                        ext = max(tb2, fb2, 1.0)
                        if not s2.buffer(1e-9 * ext).covers(s1):
                            miss = s1.difference(s2).area / max(s1.area, 1e-300)
                            z = kind not in ("TimeStamp", "TimeInterval", "BoundingBox") and 0.0 in (tb1, fb1, tb2, fb2)
                            klass = "zero-axis-buffer" if z else ("cap-le-0.5pct" if miss <= 0.005 else "LARGE")
                            s.fail(f"buffer_monotone:{kind}:{klass}:{tb1}:{fb1}:{tb2}:{fb2}:miss={miss:.5f}", f"{kind}{g.coordinates}: buffer({tb2},{fb2}) does not contain buffer({tb1},{fb1})")
        ok, obs, exp = check_contract(C.BufferGeometry, buffer_geometry, dict(geometry=random_geometry(s.rng, kind), time_buffer=-0.1, freq_buffer=0))
        s.case(None, f"{kind}:negative")
        if not ok:
            s.fail(f"buffer_negative:{kind}", f"negative buffer -> {obs}")
    return s.finish("one case per (geometry, time buffer, freq buffer); distinct by inputs; all non-trivial")


if __name__ == "__main__":
    sys.exit(main())
