"""Random / systematic valid geometries of all nine types (shared by the stand-ins)."""
import math

from soundevent import data

MAXF = data.MAX_FREQUENCY
TYPES = ["TimeStamp", "TimeInterval", "BoundingBox", "Point", "LineString", "Polygon", "MultiPoint", "MultiLineString", "MultiPolygon"]


def _star(rng, cx, cy, rx, ry, n):
    """a simple (star-shaped, non self-intersecting) polygon ring around (cx, cy)"""
    angles = [(k + rng.uniform(0.1, 0.9)) * 2 * math.pi / n for k in range(n)]
    return [[cx + rx * rng.uniform(0.5, 1.0) * math.cos(a), cy + ry * rng.uniform(0.5, 1.0) * math.sin(a)] for a in angles]


def polygon_coords(rng, t0, f0, w, h, holes):
    cx, cy = t0 + w / 2, f0 + h / 2
    shell = _star(rng, cx, cy, w / 2, h / 2, rng.randint(3, 7))
    rings = [shell]
    for k in range(holes):  # small holes well inside the inner half of the star
        rings.append(_star(rng, cx + (k - 0.5 * (holes - 1)) * w / 10, cy, w / 30, h / 30, rng.randint(3, 5)))
    return rings


def random_geometry(rng, kind, tmax=10.0, edge=False):
    """a valid geometry (polygons: valid in the OGC sense -- holes inside the shell, no self-intersection)"""
    for _ in range(50):
        g = _random_geometry(rng, kind, tmax, edge)
        if kind not in ("Polygon", "MultiPolygon"):
            return g
        from soundevent.geometry.conversion import geometry_to_shapely
        if geometry_to_shapely(g).is_valid:
            return g
    return g


def _random_geometry(rng, kind, tmax=10.0, edge=False):
    t0 = rng.choice([0.0, rng.uniform(0, tmax)]) if edge else rng.uniform(0.1, tmax)
    w = rng.uniform(0.05, 3.0)
    f0 = rng.choice([0.0, rng.uniform(0, 20000)]) if edge else rng.uniform(100, 20000)
    h = rng.uniform(50, 8000)
    if edge and rng.random() < 0.3:
        f0 = MAXF - h
    if kind == "TimeStamp":
        return data.TimeStamp(coordinates=t0)
    if kind == "TimeInterval":
        return data.TimeInterval(coordinates=[t0, t0 + (0 if edge and rng.random() < 0.2 else w)])
    if kind == "BoundingBox":
        return data.BoundingBox(coordinates=[t0, f0, t0 + w, f0 + h])
    if kind == "Point":
        return data.Point(coordinates=[t0, f0])
    if kind == "LineString":
        n = rng.randint(2, 6)
        ts = sorted(rng.uniform(t0, t0 + w) for _ in range(n))
        return data.LineString(coordinates=[[t, rng.uniform(f0, f0 + h)] for t in ts])
    if kind == "MultiPoint":
        return data.MultiPoint(coordinates=[[rng.uniform(t0, t0 + w), rng.uniform(f0, f0 + h)] for _ in range(rng.randint(1, 5))])
    if kind == "Polygon":
        return data.Polygon(coordinates=polygon_coords(rng, t0, f0, w, h, rng.randint(0, 2)))
    if kind == "MultiLineString":
        lines = []
        for _ in range(rng.randint(1, 3)):
            n = rng.randint(2, 5)
            ts = sorted(rng.uniform(t0, t0 + w) for _ in range(n))
            ts[-1] = ts[0] + max(ts[-1] - ts[0], 1e-3)
            lines.append([[t, rng.uniform(f0, f0 + h)] for t in ts])
        return data.MultiLineString(coordinates=lines)
    if kind == "MultiPolygon":
        polys = []
        for k in range(rng.randint(1, 3)):  # disjoint in time
            polys.append(polygon_coords(rng, t0 + k * (w + 0.1), f0, w, h, rng.randint(0, 1)))
        return data.MultiPolygon(coordinates=polys)
    raise ValueError(kind)
