"""C06 stand-in: all 81 ordered type pairs x random valid geometries x buffer pairs (positive where a 0/1-D geometry
is involved).  Range [0,1] exactly (no tolerance); contract of compute_affinity; symmetry, self = 1, time shift within
1e-9 relative (GEOS overlay rounding: measured <= 1.5e-15 relative between argument orders -- stated, not tuned);
time-disjoint => 0; boxes = area IoU.  Also checks the assumed shapely area contract on the installed library."""
import itertools
import sys

from bounded.harness import StandIn, check_contract
from bounded.geomgen import TYPES, random_geometry
from contracts import affinity as C
from contracts import geometry as G
from soundevent import data
from soundevent.evaluation.affinity import compute_affinity
from soundevent.geometry import compute_bounds, geometry_to_shapely

TOL = 1e-9


def shifted(g, d):
    t, c = g.type, g.coordinates
    if t == "TimeStamp":
        return data.TimeStamp(coordinates=c + d)
    if t == "TimeInterval":
        return data.TimeInterval(coordinates=[c[0] + d, c[1] + d])
    if t == "BoundingBox":
        return data.BoundingBox(coordinates=[c[0] + d, c[1], c[2] + d, c[3]])
    if t == "Point":
        return data.Point(coordinates=[c[0] + d, c[1]])
    sh = lambda pts: [[p[0] + d, p[1]] for p in pts]
    if t in ("LineString", "MultiPoint"):
        return type(g)(coordinates=sh(c))
    if t in ("Polygon", "MultiLineString"):
        return type(g)(coordinates=[sh(r) for r in c])
    return data.MultiPolygon(coordinates=[[sh(r) for r in poly] for poly in c])


def main():
    s = StandIn("affinity_pairs", "81 ordered type pairs x random valid geometries (time <= 10 s) x buffers {(0.01,100),(0.2,500),(2.5,100),(0,0) for 2-D pairs}")
    n = 3 if s.tier == "quick" else 40
    for k1, k2 in itertools.product(TYPES, TYPES):
        for j in range(n):
            g1 = random_geometry(s.rng, k1, tmax=3.0)
            g2 = random_geometry(s.rng, k2, tmax=3.0) if j % 3 else shifted(g1, 0.0) if k1 == k2 else random_geometry(s.rng, k2, tmax=3.0)
            bufs = [(0.01, 100.0), (0.2, 500.0), (2.5, 100.0)]
            if not (C.is_buffered(k1) or C.is_buffered(k2)):
                bufs.append((0.0, 0.0))
            for tb, fb in bufs:
                key = f"{k1}:{k2}:{g1.coordinates}:{g2.coordinates}:{tb}:{fb}"
                s.case(None, key, sample=dict(g1=dict(type=k1, coordinates=g1.coordinates), g2=dict(type=k2, coordinates=g2.coordinates), time_buffer=tb, freq_buffer=fb))
                args = dict(geometry1=g1, geometry2=g2, time_buffer=tb, freq_buffer=fb)
                try:
                    a = compute_affinity(**args)
                except Exception as e:
                    s.fail(f"affinity_raises:{k1}:{k2}:{type(e).__name__}", f"compute_affinity({k1}{g1.coordinates}, {k2}{g2.coordinates}, {tb}, {fb}) raised {type(e).__name__}: {e}")
                    continue
                if not (0 <= a <= 1):
                    s.fail(f"affinity_range:{k1}:{k2}", f"compute_affinity({k1}{g1.coordinates}, {k2}{g2.coordinates}, {tb}, {fb}) = {a!r} outside [0, 1]", value=a)
                ok, obs, exp = check_contract(C.ComputeAffinity, compute_affinity, args)
                if not ok:
                    s.fail(f"affinity_contract:{k1}:{k2}", f"compute_affinity({k1}{g1.coordinates}, {k2}{g2.coordinates}, {tb}, {fb}) -> {obs}: violates {exp}")
                b = compute_affinity(g2, g1, time_buffer=tb, freq_buffer=fb)
                if abs(a - b) > TOL * max(abs(a), abs(b), 1e-300):
                    s.fail(f"affinity_symmetry:{k1}:{k2}", f"affinity({k1},{k2})={a!r} but reversed {b!r}")
                if C.is_time(k1) or C.is_time(k2):
                    # independent reference for the time-only clause: raw time extents widened by the buffer (clipped at 0)
                    def extent(g):
                        t0, _, t1, _ = compute_bounds(g)
                        w = tb if C.is_buffered(g.type) else 0.0
                        return max(0.0, t0 - w), t1 + w
                    (s1, e1), (s2, e2) = extent(g1), extent(g2)
                    want = C.iou_1d(s1, e1, s2, e2)
                    # GEOS round caps of diagonal lines fall short of the buffer by <= 0.5 % (C11 known finding): 1e-2 there
                    tol = 1e-2 if {k1, k2} & {"LineString", "MultiLineString"} else 1e-6
                    if abs(a - want) > tol:
                        s.fail(f"affinity_time_iou:{k1}:{k2}", f"compute_affinity({k1}{g1.coordinates}, {k2}{g2.coordinates}, {tb}, {fb}) = {a!r}, IoU of the buffered time extents [{s1},{e1}] / [{s2},{e2}] is {want!r}")
                p1, p2 = C.prepared(g1, tb, fb), C.prepared(g2, tb, fb)
                b1, b2 = compute_bounds(p1), compute_bounds(p2)
                if (b1[2] < b2[0] or b2[2] < b1[0]) and a != 0:
                    s.fail(f"affinity_disjoint:{k1}:{k2}", f"time-disjoint buffered geometries have affinity {a!r}")
                if min(b1[0], b2[0]) > 0:  # neither buffered geometry reaches time 0: a common shift changes nothing
                    d = 1.25
                    c = compute_affinity(shifted(g1, d), shifted(g2, d), time_buffer=tb, freq_buffer=fb)
                    if abs(a - c) > TOL * max(abs(a), abs(c)) + 1e-12:
                        s.fail(f"affinity_shift:{k1}:{k2}", f"affinity {a!r} becomes {c!r} after shifting both by {d}")
            # self affinity
            for tb, fb in ((0.01, 100.0),):
                p = C.prepared(g1, tb, fb)
                bb = compute_bounds(p)
                extent = (bb[2] > bb[0]) if C.is_time(p.type) else geometry_to_shapely(p).area > 0
                if extent:
                    a = compute_affinity(g1, g1, time_buffer=tb, freq_buffer=fb)
                    s.case(None, f"self:{k1}:{g1.coordinates}")
                    if a > 1 or abs(a - 1) > TOL:
                        s.fail(f"affinity_self:{k1}", f"compute_affinity(g, g) = {a!r} for {k1}{g1.coordinates}", value=a)
    return s.finish("one case per (ordered type pair, geometry pair, buffer pair) plus self-comparisons; distinct by inputs")


if __name__ == "__main__":
    sys.exit(main())
