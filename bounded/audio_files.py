"""C15 stand-in: synthesised WAVs (samplerates 8000..96000 and a prime one, 1-3 channels, time expansion 1 / 10);
clips on and off sample boundaries, straddling and beyond EOF, compared frame by frame with load_recording; every axis
claim (strictly increasing, starts at the source's start, within one step of first + i*step) for load_recording,
load_clip, resample and compute_spectrogram.  The only evidence for the file-reading part (libsndfile)."""
import itertools
import os
import sys
import tempfile

import numpy as np
import soundfile as sf

from bounded.harness import StandIn
from soundevent import audio, data
from soundevent.arrays import get_dim_step


def axis_ok(s, key, arr, dim, first):
    c = np.asarray(arr.coords[dim].data, dtype=float)
    step = get_dim_step(arr, dim)
    ok = True
    if len(c) > 1 and not (np.diff(c) > 0).all():
        s.fail(f"axis_increasing:{key}", f"{dim} axis of {key} is not strictly increasing")
        ok = False
    if len(c) and first is not None and abs(c[0] - first) > 1e-9 * max(1.0, abs(first)):
        s.fail(f"axis_start:{key}", f"{dim} axis of {key} starts at {c[0]!r}, expected {first!r}")
        ok = False
    if len(c):
        drift = np.abs(c - (c[0] + np.arange(len(c)) * step))
        if drift.max() >= step:
            i = int(drift.argmax())
            s.fail(f"axis_step:{key}", f"{dim} coordinate {i} of {key} is {drift.max() / step:.2f} steps away from first + i*step (advertised step {step!r})")
            ok = False
    return ok


def main():
    s = StandIn("audio_files", "samplerates {8000, 22050, 44100, 96000, 7919} x channels 1..3 x time expansion {1, 10}; 1.3 s files; clips on/off sample boundaries, across and beyond EOF; resample targets incl. coprime; window/hop incl. fractional numbers of samples")
    tmp = tempfile.mkdtemp(prefix="verif_c15_")
    rates = [8000, 22050, 7919] if s.tier == "quick" else [8000, 22050, 44100, 96000, 7919]
    try:
        for sr, ch, te in itertools.product(rates, (1, 2, 3), (1, 10)):
            n = int(1.3 * sr) + 7
            wav = (s.rng.random() * 0.1 + np.arange(n * ch).reshape(n, ch) % 977 / 1000.0 - 0.4).astype(np.float32)
            path = os.path.join(tmp, f"f_{sr}_{ch}_{te}.wav")
            sf.write(path, wav, sr, subtype="FLOAT")
            rec = data.Recording.from_file(path, time_expansion=te)
            eff = rec.samplerate
            full = audio.load_recording(rec)
            key0 = f"sr={sr}:ch={ch}:te={te}"
            s.case(None, ("rec", key0))
            if full.sizes["time"] != n or full.sizes["channel"] != ch or not np.array_equal(full.data, wav):
                s.fail(f"load_recording:{key0}", f"load_recording returned {dict(full.sizes)}, file has {n} frames x {ch}")
            axis_ok(s, f"load_recording:{key0}", full, "time", 0.0)
            dur = n / eff
            starts = [0.0, 1 / eff, 0.1234567, 10.5 / eff, dur / 2, dur - 3.3 / eff, dur, dur + 0.01]
            lengths = [1 / eff, 0.05, 0.0501, 100.4 / eff, dur / 3, dur, dur + 0.05]   # the last two: the whole file and more, from every start
            for st, ln in itertools.product(starts, lengths):
                en = st + ln
                key = f"{key0}:start={st:.6f}:len={ln:.6f}"
                s.case(None, key, sample=dict(samplerate=sr, channels=ch, time_expansion=te, start=st, end=en))
                clip = data.Clip(recording=rec, start_time=st, end_time=en)
                try:
                    arr = audio.load_clip(clip)
                except Exception as e:
                    s.fail(f"load_clip_raises:{type(e).__name__}:{'past_eof' if st >= dur else 'inside'}", f"load_clip({key}) raised {type(e).__name__}: {str(e)[:120]} (file duration {dur:.4f})")
                    continue
                off = int(np.floor(st * eff))
                want_n = int(np.floor((en - st) * eff))
                if arr.sizes["time"] != want_n:
                    s.fail(f"load_clip_frames:{key0}", f"load_clip({key}) has {arr.sizes['time']} frames, expected floor(duration x samplerate) = {want_n}")
                    continue
                exp = np.zeros((want_n, ch), dtype=np.float32)
                avail = max(0, min(n - off, want_n))
                exp[:avail] = wav[off:off + avail]
                if not np.array_equal(arr.data, exp):
                    s.fail(f"load_clip_data:{key0}", f"load_clip({key}) frames differ from the file's frames from {off} on (zero-filled past EOF)")
                t = np.asarray(arr.coords["time"].data)
                if want_n and np.abs(t - (off + np.arange(want_n)) / eff).max() > 1e-9:
                    s.fail(f"load_clip_times:{key0}", f"load_clip({key}) frame i does not carry time (offset + i)/samplerate")
                axis_ok(s, f"load_clip:{key0}", arr, "time", off / eff)
            # resample
            for target in (sr // 2, 16000, 11025, 44100, 7001):
                if te != 1:
                    continue
                s.case(None, ("resample", key0, target))
                seg = audio.load_clip(data.Clip(recording=rec, start_time=0.1 * dur, end_time=0.6 * dur))
                out = audio.resample(seg, target)
                axis_ok(s, f"resample:{key0}:target={target}", out, "time", float(seg.coords["time"].data[0]))
                if abs(get_dim_step(out, "time") - 1 / target) > 1e-15:
                    s.fail(f"resample_step:{key0}:{target}", "advertised step is not 1/target")
            # spectrogram
            for win, hop in ((0.02 / te, 0.01 / te), (0.0101 / te, 0.00333 / te), (256 / eff, 128 / eff), (0.025 / te, 0.0125 / te), (300.5 / eff, 77.3 / eff)):
                s.case(None, ("spec", key0, win, hop))
                seg = audio.load_clip(data.Clip(recording=rec, start_time=0.2 * dur, end_time=0.9 * dur))
                try:
                    spec = audio.compute_spectrogram(seg, window_size=win, hop_size=hop)
                except Exception as e:
                    s.fail(f"spectrogram_raises:{type(e).__name__}", f"compute_spectrogram(window={win}, hop={hop}) at {key0}: {type(e).__name__}: {str(e)[:100]}")
                    continue
                axis_ok(s, f"spectrogram_time:{key0}:win={win:.6f}:hop={hop:.6f}", spec, "time", float(seg.coords["time"].data[0]))
                axis_ok(s, f"spectrogram_freq:{key0}", spec, "frequency", 0.0)
    finally:
        for f in os.listdir(tmp):
            os.unlink(os.path.join(tmp, f))
        os.rmdir(tmp)
    return s.finish("one case per (file, clip) / (file, resample target) / (file, window, hop); distinct by inputs")


if __name__ == "__main__":
    sys.exit(main())
