"""C09 stand-in: the four evaluation tasks on random small inputs (vocabulary 2-4, items 1-8, unlabelled / out-of-vocabulary
truths, scores on a 1/16 lattice without ties, empty clips for sound_event_classification): pairwise distinct terms in every
metrics list, every value recomputed from its term's name by references written here in plain numpy (no scikit-learn),
score means, independence of the clip order, and an AOEF save/load of the evaluation with all metrics intact."""
import os
import sys
import tempfile

import numpy as np

from bounded.harness import StandIn, check_contract
from contracts import metrics as CM
from soundevent.evaluation import metrics as lib_metrics
from soundevent import data, io
from soundevent.data.compat import term_from_key
from soundevent.evaluation import (clip_classification, clip_multilabel_classification, sound_event_classification,
                                   sound_event_detection)

TOL = 1e-6


# ---- references (written from the definitions) ---------------------------------------------------------------------
def with_none(S):
    return np.c_[S, 1 - S.sum(axis=1, keepdims=True)]


def r_accuracy(truth, S):
    pred = with_none(S).argmax(axis=1)
    return float(np.mean(pred == truth))


def r_balanced(truth, S):
    pred = with_none(S).argmax(axis=1)
    return float(np.mean([np.mean(pred[truth == c] == c) for c in sorted(set(truth))]))


def r_top3(truth, S):
    W = with_none(S)
    hits = [(W[i] > W[i, t]).sum() < 3 for i, t in enumerate(truth)]
    return float(np.mean(hits))


def r_ap(y, s):
    """average precision of one ranking: sum over the distinct thresholds of (recall step) x precision"""
    y, s = np.asarray(y, float), np.asarray(s, float)
    if y.sum() == 0:
        return 0.0
    ap, prev_recall = 0.0, 0.0
    for th in sorted(set(s), reverse=True):
        sel = s >= th
        tp = y[sel].sum()
        recall, precision = tp / y.sum(), tp / sel.sum()
        ap += (recall - prev_recall) * precision
        prev_recall = recall
    return float(ap)


def r_map(Y, S):
    if len(Y) == 0:
        return 0.0
    return float(np.mean([r_ap(Y[:, c], S[:, c]) for c in range(S.shape[1])]))


def r_jaccard(y, s):
    p = s > 0.5
    union = (p | (y > 0)).sum()
    return None if union == 0 else float((p & (y > 0)).sum() / union)     # 0/0: convention, not checked


def r_true_class_probability(t, s):
    return float(1 - s.sum()) if t is None else float(s[t])


# ---- inputs --------------------------------------------------------------------------------------------------------
class Gen:
    def __init__(self, rng, nvocab):
        self.rng = rng
        term = term_from_key("species")
        self.vocab = [data.Tag(term=term, value=f"sp{k}") for k in range(nvocab)]
        self.other = data.Tag(term=term, value="elsewhere")
        self.rec = data.Recording(path="a.wav", duration=1000, channels=1, samplerate=8000)

    def single_scores(self):
        """scores over the vocabulary on a 1/16 lattice, sum <= 1, no ties among the entries and the remainder"""
        n = len(self.vocab)
        while True:
            k = self.rng.randint(0, n)
            idx = self.rng.sample(range(n), k)
            vals = [self.rng.randint(1, 12) / 16 for _ in idx]
            row = np.zeros(n)
            row[idx] = vals
            full = list(row) + [1 - row.sum()]
            if row.sum() <= 1 and len(set(full)) == len(full):
                return {i: v for i, v in zip(idx, vals)}, row

    def truth_single(self):
        r = self.rng.random()
        if r < 0.2:
            return [], None
        if r < 0.3:
            return [self.other], None
        t = self.rng.randrange(len(self.vocab))
        return ([self.other] if self.rng.random() < 0.3 else []) + [self.vocab[t]], t

    def ptags(self, scores):
        tags = [data.PredictedTag(tag=self.vocab[i], score=v) for i, v in scores.items()]
        self.rng.shuffle(tags)
        return tags

    def clip(self, k):
        return data.Clip(recording=self.rec, start_time=float(10 * k), end_time=float(10 * k + 5))


def features(fs):
    # AOEF keys metrics by the term's label: a metric is "intact" when its label and value come back
    return [(f.term.label, f.value) for f in fs]


def check_terms(s, task, where, fs):
    names = [f.term.name for f in fs]
    if len(set(names)) != len(names):
        s.fail(f"duplicate_terms:{task}:{where}", f"{task}: {where} metrics carry repeated terms {names}")
        return False
    return True


def check_values(s, task, where, fs, refs, key):
    for f in fs:
        label = f.term.label
        if label not in refs:
            s.fail(f"unknown_term:{task}:{where}:{label}", f"{task}: {where} metric with unexpected term {label!r}")
            continue
        want = refs[label]
        if want is None:
            continue
        if not (abs(f.value - want) <= TOL):
            s.fail(f"value:{task}:{where}:{label}", f"{task} {key}: {where} metric {label!r} = {f.value}, independently computed {want}")


def check_mean(s, task, what, got, parts, key):
    parts = [p for p in parts if p is not None]
    if not parts:
        if got not in (None, 0.0):     # the mean of nothing: "no score" or 0 are both accepted, anything else is not
            s.fail(f"score_mean:{task}:{what}:empty", f"{task} {key}: {what} score {got} although there is nothing to average")
        return
    want = float(np.mean(parts))
    if got is None or not (abs(got - want) <= TOL):
        s.fail(f"score_mean:{task}:{what}", f"{task} {key}: {what} score {got}, mean of the parts {want}")


def roundtrip(s, task, ev, tmp, key):
    path = os.path.join(tmp, "ev.json")
    try:
        io.save(ev, path)
        back = io.load(path)
    except Exception as e:
        s.fail(f"aoef:{task}:{type(e).__name__}", f"{task} {key}: saving/loading the evaluation raised {type(e).__name__}: {str(e)[:200]}")
        return
    def close(a, b):
        return len(a) == len(b) and all(x[0] == y[0] and abs(x[1] - y[1]) <= 1e-12 for x, y in zip(sorted(a), sorted(b)))
    if not close(features(ev.metrics), features(back.metrics)):
        s.fail(f"aoef_metrics:{task}:evaluation", f"{task} {key}: evaluation metrics {features(ev.metrics)} came back as {features(back.metrics)}")
    by_id = {c.uuid: c for c in back.clip_evaluations}
    for c in ev.clip_evaluations:
        b = by_id.get(c.uuid)
        if b is None or not close(features(c.metrics), features(b.metrics)):
            s.fail(f"aoef_metrics:{task}:clip", f"{task} {key}: clip evaluation metrics changed in a save/load")
            continue
        bm = {m.uuid: m for m in b.matches}
        for m in c.matches:
            if m.uuid not in bm or not close(features(m.metrics), features(bm[m.uuid].metrics)):
                s.fail(f"aoef_metrics:{task}:match", f"{task} {key}: match metrics changed in a save/load")


def same_eval(a, b):
    fa, fb = dict(features(a.metrics)), dict(features(b.metrics))
    return fa.keys() == fb.keys() and all(abs(fa[k] - fb[k]) <= 1e-9 for k in fa) and abs((a.score or 0) - (b.score or 0)) <= 1e-9


# ---- the four tasks ------------------------------------------------------------------------------------------------
def single_label_refs(truth, S):
    n = S.shape[1]
    t_idx = np.array([n if t is None else t for t in truth])
    lab = [i for i, t in enumerate(truth) if t is not None]
    Y = np.eye(n)[[truth[i] for i in lab]] if lab else np.zeros((0, n))
    return {"Accuracy": r_accuracy(t_idx, S), "Balanced Accuracy": r_balanced(t_idx, S), "Top 3 Accuracy": r_top3(t_idx, S),
            "Mean Average Precision": r_map(Y, S[lab])}


def run_task(s, task, fn, preds, anns, vocab, truth, S, key, tmp, per_item):
    try:
        ev = fn(preds, anns, vocab)
    except Exception as e:
        s.fail(f"raises:{task}:{type(e).__name__}", f"{task} {key} raised {type(e).__name__}: {str(e)[:200]}")
        return None
    check_terms(s, task, "evaluation", ev.metrics)
    for c in ev.clip_evaluations:
        check_terms(s, task, "clip", c.metrics)
        for m in c.matches:
            check_terms(s, task, "match", m.metrics)
    per_item(ev)
    check_mean(s, task, "overall", ev.score, [c.score for c in ev.clip_evaluations], key)
    roundtrip(s, task, ev, tmp, key)
    # order of the clips
    perm = list(range(len(preds)))
    s.rng.shuffle(perm)
    perm2 = list(range(len(anns)))
    s.rng.shuffle(perm2)
    try:
        ev2 = fn([preds[i] for i in perm], [anns[i] for i in perm2], vocab)
        if not same_eval(ev, ev2):
            s.fail(f"order:{task}", f"{task} {key}: metrics/score depend on the order of the clips: {features(ev.metrics)} / {ev.score} vs {features(ev2.metrics)} / {ev2.score}")
    except Exception as e:
        s.fail(f"raises:{task}:{type(e).__name__}:permuted", f"{task} {key} raised {type(e).__name__} on permuted input")
    return ev


def main():
    s = StandIn("metric_values", "4 tasks x vocabulary 2-4 x 1-8 items; scores on a 1/16 lattice without ties; unlabelled / out-of-vocabulary truths; empty clips")
    tmp = tempfile.mkdtemp(prefix="verif_c09_")
    rounds = 25 if s.tier == "quick" else 250
    for k in range(rounds):
        g = Gen(s.rng, s.rng.randint(2, 4))
        n = s.rng.randint(1, 8)
        # ---------------- clip_classification
        truth, rows, preds, anns = [], [], [], []
        for i in range(n):
            tags, t = g.truth_single()
            sc, row = g.single_scores()
            clip = g.clip(i)
            anns.append(data.ClipAnnotation(clip=clip, tags=tags))
            preds.append(data.ClipPrediction(clip=clip, tags=g.ptags(sc)))
            truth.append(t)
            rows.append(row)
        S = np.array(rows)
        key = f"#{k} n={n} vocab={len(g.vocab)} truth={truth}"
        s.case(None, ("clip_classification", k), sample=dict(truth=truth, scores=S.tolist()))

        def per_item_cc(ev):
            check_values(s, "clip_classification", "evaluation", ev.metrics, single_label_refs(truth, S), key)
            idx = {p.clip.uuid: i for i, p in enumerate(preds)}
            for c in ev.clip_evaluations:
                i = idx[c.predictions.clip.uuid]
                check_values(s, "clip_classification", "clip", c.metrics, {"True Class Probability": r_true_class_probability(truth[i], S[i])}, key)
        run_task(s, "clip_classification", clip_classification, preds, anns, g.vocab, truth, S, key, tmp, per_item_cc)
        # the wrappers' contracts (the text that is proved symbolically) evaluated natively on real numpy / scikit-learn
        for cname, fn in (("Accuracy", lib_metrics.accuracy), ("BalancedAccuracy", lib_metrics.balanced_accuracy), ("Top3Accuracy", lib_metrics.top_3_accuracy)):
            ok, obs, exp = check_contract(getattr(CM, cname), fn, dict(y_true=truth, y_score=S))
            s.case(None, ("contract", cname, k))
            if not ok:
                s.fail(f"wrapper_contract:{cname}", f"{cname} {key}: {obs} violates {exp}")

        # ---------------- clip_multilabel_classification
        Y, rows, preds, anns = [], [], [], []
        for i in range(n):
            y = np.array([s.rng.random() < 0.4 for _ in g.vocab], dtype=float)
            row = np.array([s.rng.choice([0, 0, 1, 3, 5, 7, 8, 8, 9, 11, 13, 15]) / 16 for _ in g.vocab])
            clip = g.clip(i)
            tags = [t for t, on in zip(g.vocab, y) if on] + ([g.other] if s.rng.random() < 0.3 else [])
            s.rng.shuffle(tags)
            anns.append(data.ClipAnnotation(clip=clip, tags=tags))
            preds.append(data.ClipPrediction(clip=clip, tags=g.ptags({j: v for j, v in enumerate(row) if v > 0})))
            Y.append(y)
            rows.append(row)
        Y, S2 = np.array(Y), np.array(rows)
        key2 = f"#{k} n={n} vocab={len(g.vocab)} multilabel"
        s.case(None, ("clip_multilabel_classification", k), sample=dict(truth=Y.tolist(), scores=S2.tolist()))

        def per_item_ml(ev):
            check_values(s, "clip_multilabel_classification", "evaluation", ev.metrics, {"Mean Average Precision": r_map(Y, S2)}, key2)
            idx = {p.clip.uuid: i for i, p in enumerate(preds)}
            for c in ev.clip_evaluations:
                i = idx[c.predictions.clip.uuid]
                check_values(s, "clip_multilabel_classification", "clip", c.metrics,
                             {"Jaccard Index": r_jaccard(Y[i], S2[i]), "Average Precision": r_ap(Y[i], S2[i])}, key2)
        run_task(s, "clip_multilabel_classification", clip_multilabel_classification, preds, anns, g.vocab, None, S2, key2, tmp, per_item_ml)

        # ---------------- sound_event_classification and sound_event_detection (same events on both sides)
        nclips = s.rng.randint(1, 3)
        truth3, rows3, preds, anns, per_event = [], [], [], [], {}
        det_truth, det_rows, preds_d, anns_d = [], [], [], []
        for ci in range(nclips):
            clip = g.clip(ci)
            ne = s.rng.randint(0, 3) if (ci > 0 or nclips > 1) else s.rng.randint(1, 3)
            a_ev, p_ev = [], []
            for e in range(ne):
                se = data.SoundEvent(recording=g.rec, geometry=data.BoundingBox(coordinates=[10 * ci + e + 0.1, 100.0, 10 * ci + e + 0.9, 900.0]))
                tags, t = g.truth_single()
                sc, row = g.single_scores()
                a_ev.append(data.SoundEventAnnotation(sound_event=se, tags=tags))
                p_ev.append(data.SoundEventPrediction(sound_event=se, tags=g.ptags(sc)))
                per_event[se.uuid] = (t, row)
                truth3.append(t)
                rows3.append(row)
            anns.append(data.ClipAnnotation(clip=clip, sound_events=a_ev))
            preds.append(data.ClipPrediction(clip=clip, sound_events=p_ev))
            # detection only: an annotated event that no prediction overlaps (unlabelled or out of vocabulary: it counts as a
            # correctly predicted "none" item) and a predicted event that overlaps no annotation (true class "none")
            a_x, p_x = list(a_ev), list(p_ev)
            if s.rng.random() < 0.6:
                se = data.SoundEvent(recording=g.rec, geometry=data.BoundingBox(coordinates=[10 * ci + 4.1, 100.0, 10 * ci + 4.4, 900.0]))
                a_x.append(data.SoundEventAnnotation(sound_event=se, tags=s.rng.choice([[], [g.other]])))
                det_truth.append(None)
                det_rows.append(np.zeros(len(g.vocab)))
            if s.rng.random() < 0.6:
                se = data.SoundEvent(recording=g.rec, geometry=data.BoundingBox(coordinates=[10 * ci + 3.1, 100.0, 10 * ci + 3.4, 900.0]))
                sc, row = g.single_scores()
                p_x.append(data.SoundEventPrediction(sound_event=se, tags=g.ptags(sc)))
                det_truth.append(None)
                det_rows.append(row)
            anns_d.append(data.ClipAnnotation(clip=clip, sound_events=a_x))
            preds_d.append(data.ClipPrediction(clip=clip, sound_events=p_x))
        if not truth3:
            continue
        S3 = np.array(rows3)
        key3 = f"#{k} clips={[len(a.sound_events) for a in anns]} vocab={len(g.vocab)} truth={truth3}"
        for task, fn in (("sound_event_classification", sound_event_classification), ("sound_event_detection", sound_event_detection)):
            s.case(None, (task, k), sample=dict(clips=[len(a.sound_events) for a in anns], truth=truth3, scores=S3.tolist()))

            def per_item_se(ev, task=task):
                check_values(s, task, "evaluation", ev.metrics, single_label_refs(truth3, S3), key3)
                for c in ev.clip_evaluations:
                    check_mean(s, task, "clip", c.score, [m.score for m in c.matches], key3)
                    for m in c.matches:
                        if m.source is not None and m.target is not None:
                            t, row = per_event[m.source.sound_event.uuid]
                            check_values(s, task, "match", m.metrics, {"True Class Probability": r_true_class_probability(t, row)}, key3)
            run_task(s, task, fn, preds, anns, g.vocab, truth3, S3, key3, tmp, per_item_se)
        if det_truth:
            truth4, S4 = truth3 + det_truth, np.array(rows3 + det_rows)
            key4 = key3 + f" + {len(det_truth)} unmatched events"
            s.case(None, ("sound_event_detection+unmatched", k), sample=dict(clips=[len(a.sound_events) for a in anns_d], truth=truth4, scores=S4.tolist()))

            def per_item_det(ev):
                check_values(s, "sound_event_detection", "evaluation", ev.metrics, single_label_refs(truth4, S4), key4)
                for c in ev.clip_evaluations:
                    check_mean(s, "sound_event_detection", "clip", c.score, [m.score for m in c.matches], key4)
            run_task(s, "sound_event_detection", sound_event_detection, preds_d, anns_d, g.vocab, truth4, S4, key4, tmp, per_item_det)
    return s.finish("one case per (round, task); rounds draw vocabulary, items, truths and scores at random")


if __name__ == "__main__":
    sys.exit(main())
