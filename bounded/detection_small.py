"""C08 stand-in: clips <= 3, <= 3 annotated and <= 3 predicted sound events per clip on a time lattice (none, fewer,
more, disjoint, geometry-less), vocabulary <= 3, predicted scores summing to <= 1; full accounting and score
recomputation by an independent reference."""
import itertools
import sys

import numpy as np

from bounded.harness import StandIn
from soundevent import data
from soundevent.data.compat import term_from_key
from soundevent.evaluation import compute_affinity
from soundevent.evaluation.tasks.sound_event_detection import sound_event_detection


def main():
    s = StandIn("detection_small", "<=3 clips x <=3 annotations x <=3 predictions on a 5-slot time lattice, geometry-less events, vocabulary 3 (two tags sharing value and term label), scores in {0,.25,.5,.75} with row sums <= 1")
    rec = data.Recording(path="a.wav", duration=100, channels=1, samplerate=8000)
    # the third vocabulary tag shares its value AND its term's label with the first one; only the term's name tells them apart
    sp = term_from_key("species")
    twin = data.Term(name="custom:species", label=sp.label, definition="a different term with the same label")
    vocab = [data.Tag(term=sp, value="a"), data.Tag(term=sp, value="b"), data.Tag(term=twin, value="a")]
    other = data.Tag(term=term_from_key("species"), value="zzz")
    clips = [data.Clip(recording=rec, start_time=float(10 * i), end_time=float(10 * i + 10)) for i in range(4)]

    def se(slot):
        if isinstance(slot, tuple):     # ("stamp", t) / ("point", t, f): zero-extent geometries, compared after the default buffering
            geom = (data.TimeStamp(coordinates=slot[1]) if slot[0] == "stamp" else data.TimeInterval(coordinates=[slot[1], slot[2]]) if slot[0] == "interval"
                    else data.Point(coordinates=[slot[1], slot[2]]))
            return data.SoundEvent(recording=rec, geometry=geom)
        return data.SoundEvent(recording=rec, geometry=None if slot is None else data.BoundingBox(coordinates=[slot, 100.0, slot + 0.8, 900.0]))

    def time_extent(g):
        """independent of the library: the time extent after the default 0.01 s buffer of zero-extent geometries"""
        if g.type == "TimeStamp":
            return max(0.0, g.coordinates - 0.01), g.coordinates + 0.01
        if g.type == "Point":
            return max(0.0, g.coordinates[0] - 0.01), g.coordinates[0] + 0.01
        if g.type == "TimeInterval":      # intervals have an extent of their own: compared as they are
            return g.coordinates[0], g.coordinates[1]
        return g.coordinates[0], g.coordinates[2]

    ann_choices = [[], [(0, "a")], [(0, "c")], [(0, "a"), (2, "b")], [(None, "a")], [(0, None)], [(1, "zzz"), (3, "c"), (None, "b")],
                   [(("stamp", 2.0), "a"), (("point", 5.0, 3000.0), "b")],
                   [(("interval", 1.0, 2.0), "a"), (("interval", 6.0, 7.0), "b")]]
    pred_choices = [[], [(0, {"a": 0.75})], [(0, {"a": 0.5, "c": 0.25})], [(0.2, {"a": 0.5, "b": 0.25})], [(4, {"c": 0.5})], [(None, {"a": 0.5})],
                    [(0.1, {"b": 0.75}), (2.1, {"b": 0.5, "zzz": 0.25}), (None, {"c": 0.25})], [(0, {}), (0.4, {"a": 0.25})],
                    # zero-extent predictions: far away in time (must stay unpaired), and close in time
                    [(("stamp", 40.0), {"a": 0.75}), (("point", 5.005, 3050.0), {"b": 0.5})], [(("stamp", 2.004), {"a": 0.5}), (("point", 65.0, 3000.0), {"b": 0.75})],
                    # intervals that come close to an annotated interval without overlapping it, and one that overlaps
                    [(("interval", 2.01, 3.0), {"a": 0.75}), (("interval", 6.5, 8.0), {"b": 0.5})], [(("interval", 0.2, 0.995), {"a": 0.5})]]
    tagof = {"a": vocab[0], "b": vocab[1], "c": vocab[2], "zzz": other}
    combos = list(itertools.product(ann_choices, pred_choices))
    n_clip_sets = len(combos) + (40 if s.tier == "quick" else 600)
    for k in range(n_clip_sets):
        nclips = s.rng.randint(0, 3)
        picked = [s.rng.choice(combos) for _ in range(nclips)] if k >= len(combos) else [combos[k]]
        anns, preds, expect = [], [], []
        for ci, (A, P) in enumerate(picked):
            a_objs = [data.SoundEventAnnotation(sound_event=se(slot), tags=[tagof[t]] if t else []) for slot, t in A]
            p_objs = [data.SoundEventPrediction(sound_event=se(slot), tags=[data.PredictedTag(tag=tagof[t], score=sc) for t, sc in tg.items()]) for slot, tg in P]
            anns.append(data.ClipAnnotation(clip=clips[ci], sound_events=a_objs))
            preds.append(data.ClipPrediction(clip=clips[ci], sound_events=p_objs))
            expect.append((a_objs, p_objs, A, P))
        # one extra annotated clip without predictions and one predicted clip without annotations: not evaluated
        anns.append(data.ClipAnnotation(clip=clips[3]))
        key = f"set#{k}:{[(len(A), len(P)) for A, P in picked]}"
        s.case(None, key, sample=dict(clips=[(A, [(sl, dict(t)) for sl, t in P]) for A, P in picked]))
        try:
            ev = sound_event_detection(preds, anns, vocab)
        except Exception as e:
            kind = "empty" if not any(A or P for A, P in picked) else "geometryless" if any(sl is None for A, P in picked for sl, _ in list(A) + list(P)) else "other"
            s.fail(f"detection_raises:{type(e).__name__}:{kind}", f"sound_event_detection raised {type(e).__name__}: {str(e)[:150]} for {key}")
            continue
        if [c.annotations.clip.uuid for c in ev.clip_evaluations] != [p.clip.uuid for p in preds]:
            s.fail("detection_clips", f"{key}: evaluated clips are not exactly the clips present in both inputs, in prediction order")
            continue
        clip_scores = []
        for ce, (a_objs, p_objs, A, P) in zip(ev.clip_evaluations, expect):
            src = [m.source.uuid for m in ce.matches if m.source is not None]
            tgt = [m.target.uuid for m in ce.matches if m.target is not None]
            if sorted(map(str, src)) != sorted(str(p.uuid) for p in p_objs) or sorted(map(str, tgt)) != sorted(str(a.uuid) for a in a_objs):
                s.fail("detection_accounting", f"{key}: matches do not mention every annotated and predicted sound event exactly once")
                continue
            for m in ce.matches:
                if m.source is not None and m.target is not None:
                    gp, ga = m.source.sound_event.geometry, m.target.sound_event.geometry
                    aff = compute_affinity(gp, ga) if gp is not None and ga is not None else 0.0
                    (p0, p1), (a0, a1) = time_extent(gp), time_extent(ga)
                    if not min(p1, a1) > max(p0, a0):
                        s.fail("detection_pair_without_overlap", f"{key}: a prediction was paired with an annotation it does not overlap")
                    if abs(m.affinity - aff) > 1e-12:
                        s.fail("detection_affinity", f"{key}: a paired match reports affinity {m.affinity}, the geometric affinity is {aff}")
                    scores = {vocab.index(pt.tag): pt.score for pt in m.source.tags if pt.tag in vocab}    # by equality with the vocabulary's tags
                    tv = next((vocab.index(t) for t in m.target.tags if t in vocab), None)
                    want = scores.get(tv, 0.0) if tv is not None else 1 - sum(scores.values())
                    if abs((m.score or 0) - want) > 1e-6:
                        s.fail("detection_pair_score", f"{key}: pair score {m.score}, expected {want}")
                elif m.affinity != 0 or (m.score or 0) != 0:
                    s.fail("detection_unpaired", f"{key}: an unpaired event has affinity {m.affinity} / score {m.score}")
            want_clip = float(np.mean([m.score for m in ce.matches])) if ce.matches else 0.0
            if abs((ce.score or 0) - want_clip) > 1e-9:
                s.fail("detection_clip_score", f"{key}: clip score {ce.score}, mean of match scores {want_clip}")
            clip_scores.append(ce.score or 0)
        want = float(np.mean(clip_scores)) if clip_scores else 0.0
        if abs((ev.score or 0) - want) > 1e-9:
            s.fail("detection_overall_score", f"{key}: overall score {ev.score}, mean of clip scores {want}")
    return s.finish("one case per set of clips (first: every annotation/prediction pattern pair alone; then random sets of 0-3 clips)")


if __name__ == "__main__":
    sys.exit(main())
