"""C14 stand-in: rational / decimal (start, end, duration, hop) grids, both flags; the real
segment_clip is checked against the executable contract and an independent Fraction reference."""
import itertools
import math
import sys
from fractions import Fraction as F

from bounded.harness import StandIn, check_contract
from contracts import segment as C
from soundevent import data
from soundevent.operations import segment_clip


def main():
    s = StandIn("segment_lattice", "start in {0,1/2,3}; length, duration, hop on k/4 (k<=12 quick, k<=24 thorough) plus decimals 0.1,0.3,1/3; both flags")
    rec = data.Recording(path="a.wav", duration=100, channels=1, samplerate=8000)
    kmax = 12 if s.tier == "quick" else 24
    lens = [F(k, 4) for k in range(0, kmax + 1, 1 if s.tier != "quick" else 2)]
    durs = [F(k, 4) for k in (1, 2, 3, 4, 6, 8)] + [F(1, 3), F(1, 10), F(3, 10)]
    hops = [None] + durs
    for S in (F(0), F(1, 2), F(3)):
        for ln, d, h, inc in itertools.product(lens, durs, hops, (False, True)):
            clip = data.Clip(recording=rec, start_time=float(S), end_time=float(S + ln))
            args = dict(clip=clip, duration=float(d), hop=None if h is None else float(h), include_incomplete=inc)
            segs = list(segment_clip(**args))
            hh = d if h is None else h
            # exact reference on the rational lattice (all values here are exactly representable or compared with tolerance)
            exp = []
            k = 0
            while S + k * hh < S + ln:
                st, en = S + k * hh, S + k * hh + d
                if en > S + ln and not inc:
                    break
                exp.append((st, min(en, S + ln)))
                k += 1
            got = [(g.start_time, g.end_time) for g in segs]
            dyadic = all(x is None or x.denominator in (1, 2, 4) for x in (S, ln, d, h))
            if dyadic:  # every value exactly representable: the rational reference is the double result, exactly
                ok = got == [(float(a), float(b)) for a, b in exp]
            else:       # decimals: the executable contract, evaluated in the same double arithmetic, is the oracle
                ok = True
            cok, obs, cexp = check_contract(C.SegmentClip, segment_clip, args)
            ok = ok and cok
            ids = [g.uuid for g in segs]
            ok = ok and len(set(ids)) == len(ids) and all(g.recording == rec for g in segs)
            s.case(None, (S, ln, d, h, inc), sample=dict(start=float(S), end=float(S + ln), duration=float(d), hop=None if h is None else float(h), include_incomplete=inc, n=len(segs)))
            if not ok:
                s.fail(f"segment_clip:{S}:{ln}:{d}:{h}:{inc}", f"segment_clip(clip[{S},{S+ln}], d={d}, hop={h}, incl={inc}) -> {got}, expected {[(float(a), float(b)) for a, b in exp]}")
            # determinism of ids
            if [g.uuid for g in segment_clip(**args)] != ids:
                s.fail(f"segment_ids:{S}:{ln}:{d}:{h}:{inc}", "segment ids differ between two calls")
    for bad in ((0.0, None), (-1.0, None), (1.0, 0.0), (1.0, -2.0)):
        clip = data.Clip(recording=rec, start_time=0, end_time=1)
        ok, obs, exp = check_contract(C.SegmentClip, segment_clip, dict(clip=clip, duration=bad[0], hop=bad[1], include_incomplete=False))
        s.case(None, ("guard",) + bad)
        if not ok:
            s.fail(f"segment_guard:{bad}", f"segment_clip(duration={bad[0]}, hop={bad[1]}) -> {obs}, expected {exp}")
    # ---- clips that were looked at before they changed: the tiling must follow the clip's CURRENT extent
    for end0, end1, d, h in ((4.0, 9.0, 2.0, 2.0), (3.0, 10.5, 2.0, 3.0), (8.0, 3.0, 1.0, 1.0)):
        for how in ("assign", "copy"):
            clip = data.Clip(recording=rec, start_time=1.0, end_time=1.0 + end0)
            _ = clip.duration                      # read once (as a caller displaying the clip would)
            list(segment_clip(clip, duration=d, hop=h))
            if how == "assign":
                clip.end_time = 1.0 + end1
                later = clip
            else:
                later = clip.model_copy(update={"end_time": 1.0 + end1})
            segs = [(c.start_time, c.end_time) for c in segment_clip(later, duration=d, hop=h, include_incomplete=True)]
            fresh = data.Clip(recording=rec, start_time=1.0, end_time=1.0 + end1)
            want = [(c.start_time, c.end_time) for c in segment_clip(fresh, duration=d, hop=h, include_incomplete=True)]
            n_want = math.ceil(end1 / h)
            s.case(None, ("changed-clip", end0, end1, d, h, how))
            if segs != want or len(segs) != n_want:
                s.fail(f"segment_after_change:{how}", f"segment_clip on a clip whose end was changed from {1.0 + end0} to {1.0 + end1} ({how}) after its duration had been read: {len(segs)} segments {segs[:2]}..{segs[-1:]}, a fresh clip of the same extent gives {len(want)}, ceil(length/hop) = {n_want}")
    return s.finish("one case per (start, length, duration, hop, flag) grid point; all distinct; non-trivial = every case (each decides a window count)")


if __name__ == "__main__":
    sys.exit(main())
