"""pydantic v2 construction contract (DESIGN.md 4.3), executed over the class definitions read
from the real source: defaults, Field bounds, validators in definition order (their real bodies inlined)."""
from __future__ import annotations

import ast

import z3

from .repo import Unsupported
from .values import (V, Num, Bool, Str, NoneV, NONE, Opt, Tup, Lst, Dct, Obj, Opq, Fn, truth, fresh_opq)
from . import symex


def _rename_validation(ex, mark, owner_path_env=None):
    for o in ex.outcomes[mark:]:
        if o.kind == "raise" and o.exc in ("ValueError", "AssertionError"):
            o.exc = "ValidationError"


def construct(ex, p, args, kwargs, node):
    """Handler 'construct:*' : args[0] is the qualified class name (Str)."""
    qual = args[0].c
    if len(args) > 1:
        raise Unsupported("positional arguments to a model constructor")
    return construct_model(ex, p, qual, kwargs, node)


def default_value(ex, f, p, node):
    m = f["module"]
    sub = symex.Exec(ex.repo, m, ex.handlers, ex.inline, ex.mode, False, ex.feas_timeout_ms, ex.bg, ex.numeric, ex.trace)
    sub.index_ctx, sub.loop_tag = list(ex.index_ctx), ex.loop_tag
    if f["factory"] is not None:
        fac = f["factory"]
        call = ast.copy_location(ast.Call(func=fac, args=[], keywords=[]), fac)
        ast.fix_missing_locations(call)
        r = sub.ev(call, symex.Path(p.cond, {}))
        return r[0][1]
    if f["default"] is not None:
        return sub.ev(f["default"], symex.Path(p.cond, {}))[0][1]
    return None


def construct_model(ex, p, qual, kwargs, node, run_validators=True):
    fields = ex.repo.class_fields(qual)
    validators = ex.repo.class_validators(qual) if run_validators else []
    names = {f["name"] for f in fields}
    aliases = {f["alias"].value: f["name"] for f in fields if isinstance(f["alias"], ast.Constant)}
    kwargs = {aliases.get(k, k): v for k, v in kwargs.items()}
    for k in kwargs:
        if k not in names:
            h = ex.handlers.get("extra-field:" + qual)
            if h is None:
                raise Unsupported(f"{qual}: unexpected constructor keyword {k}")
    paths = [(p, dict(kwargs))]
    # model validators, mode='before': real body on the raw input mapping
    for v in validators:
        if v["kind"] == "model" and v["mode"] == "before":
            nxt = []
            for q, kw in paths:
                raw = Dct([(Str(k), val) for k, val in kw.items()])
                mark = len(ex.outcomes)
                res = ex.call_repo_function(v["module"], v["node"], [Fn("class", qual), raw], {}, q,
                                            qual=f"{v['owner']}.{v['node'].name}")
                _rename_validation(ex, mark)
                for q2, out in res:
                    if isinstance(out, Dct):
                        nxt.append((q2, {k.c: val for k, val in out.pairs}))
                    else:
                        raise Unsupported("before-validator returning a non-dict")
            paths = nxt
    out = []
    for q, kw in paths:
        vals = {}
        for f in fields:
            nm = f["name"]
            if nm in kw:
                vals[nm] = kw[nm]
            else:
                d = default_value(ex, f, q, node)
                if d is None:
                    ex.emit_raise(q, "ValidationError", node)
                    vals = None
                    break
                vals[nm] = d
        if vals is None:
            continue
        # Field(ge/gt/le/lt)
        for f in fields:
            if not f["bounds"]:
                continue
            val = vals[f["name"]]
            sub = symex.Exec(ex.repo, f["module"], ex.handlers, ex.inline, ex.mode, False, ex.feas_timeout_ms, ex.bg, ex.numeric, ex.trace)
            conds = []
            for b, bn in f["bounds"].items():
                bv = sub.ev(bn, symex.Path())[0][1]
                inner = val.val if isinstance(val, Opt) else val
                if isinstance(inner, NoneV):
                    continue
                if not isinstance(inner, Num):
                    raise Unsupported(f"Field bound on non-number {f['name']}")
                x, y = inner.real(), bv.real()
                c = {"ge": x >= y, "gt": x > y, "le": x <= y, "lt": x < y}[b]
                if isinstance(val, Opt):
                    c = z3.Or(val.isnone, c)
                conds.append(c)
            if conds:
                bad = z3.Not(z3.And(conds))
                ex.emit_raise(q, "ValidationError", node, extra=bad)
                q = q.fork(z3.Not(bad))
        cur = [(q, vals)]
        # field validators in definition order, each on the previous one's return value
        for v in validators:
            if v["kind"] != "field":
                continue
            for fname in v["fields"]:
                nxt = []
                for q2, vs in cur:
                    mark = len(ex.outcomes)
                    res = ex.call_repo_function(v["module"], v["node"], [Fn("class", qual), vs[fname]], {}, q2,
                                                qual=f"{v['owner']}.{v['node'].name}")
                    _rename_validation(ex, mark)
                    for q3, newv in res:
                        vs2 = dict(vs)
                        vs2[fname] = newv
                        nxt.append((q3, vs2))
                cur = nxt
        for q2, vs in cur:
            obj = Obj(qual, vs)
            after = [v for v in validators if v["kind"] == "model" and v["mode"] == "after"]
            objs = [(q2, obj)]
            for v in after:
                nxt = []
                for q3, o in objs:
                    mark = len(ex.outcomes)
                    res = ex.call_repo_function(v["module"], v["node"], [o], {}, q3, qual=f"{v['owner']}.{v['node'].name}")
                    _rename_validation(ex, mark)
                    for q4, ret in res:
                        nxt.append((q4, ret if isinstance(ret, Obj) else o))
                objs = nxt
            out += objs
    return out
