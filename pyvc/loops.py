"""`for` loops: complete unrolling over concrete sequences, first-exit elementwise
summarisation over symbolic ones (DESIGN.md 3.1)."""
from __future__ import annotations

import ast
import itertools

import z3

from .repo import Unsupported
from .values import (V, Num, Bool, Str, NoneV, NONE, Opt, Tup, Lst, Dct, SetV, Obj, Opq, Fn, NDArr,
                     truth, ite, eq, fresh_int, fresh_name)
from . import symex

_loop_ids = itertools.count()


class Poison(V):
    """A loop temporary after (or before) the loop: any use leaves the subset."""

    def __init__(self, name):
        self.name = name


def assigned_names(stmts):
    names = set()
    for st in stmts:
        for n in ast.walk(st):
            if isinstance(n, ast.Name) and isinstance(n.ctx, ast.Store):
                names.add(n.id)
            elif isinstance(n, ast.NamedExpr):
                names.add(n.target.id)
    return names


def accumulator_names(stmts, env):
    """Names of local lists only ever touched by `x.append(e)` / `x.extend(e)` statements."""
    acc, other = set(), set()
    for st in stmts:
        for n in ast.walk(st):
            if isinstance(n, ast.Expr) and isinstance(n.value, ast.Call) and isinstance(n.value.func, ast.Attribute) \
                    and isinstance(n.value.func.value, ast.Name) and n.value.func.attr in ("append", "extend"):
                acc.add(n.value.func.value.id)
    acc = {a for a in acc if isinstance(env.get(a), Lst)}
    assigned = assigned_names(stmts)
    return acc - assigned


def run_iteration(ex, n: ast.For, item, path, body_only=False):
    """Execute the loop body once. -> (fall paths, exits) where exits are Outcome objects
    (kind in break/return/raise) produced by this iteration; `continue` joins the fall paths."""
    mark = len(ex.outcomes)
    falls = []
    for q in ex.assign(n.target, item, path, n):
        falls += ex.run_block(n.body, [q])
    new = ex.outcomes[mark:]
    del ex.outcomes[mark:]
    exits = []
    for o in new:
        if o.kind == "continue":
            falls.append(symex.Path(o.cond, o.env, o.yields, path.heap))
        else:
            exits.append(o)
    return falls, exits


def exec_for(ex, n: ast.For, p):
    if n.orelse:
        raise Unsupported(f"{ex.module.name}:{n.lineno}: for/else")
    out = []
    for p1, seqv in ex.ev(n.iter, p):
        seq = ex.as_list(seqv, p1, n)
        if seq.concrete:
            out += unroll(ex, n, seq, p1)
        elif isinstance(seq.tag, tuple) and seq.tag[0] == "pairs":
            out += summarise_pairs(ex, n, seq, p1)
        else:
            out += summarise(ex, n, seq, p1)
    return out


def unroll(ex, n, seq, p):
    paths = [p]
    done = []
    for k, item in enumerate(seq.items):
        nxt = []
        ex.index_ctx.append(z3.IntVal(k))
        try:
            for q in paths:
                falls, exits = run_iteration(ex, n, item, q)
                nxt += falls
                for o in exits:
                    if o.kind == "break":
                        done.append(symex.Path(o.cond, o.env, o.yields, q.heap))
                    else:
                        ex.outcomes.append(o)
        finally:
            ex.index_ctx.pop()
        paths = nxt
    return paths + done


def summarise(ex, n: ast.For, seq: Lst, p):
    N = seq.n
    loop_id = next(_loop_ids)
    temps = assigned_names(n.body) | assigned_names([ast.Expr(value=n.target)] if False else []) | _target_names(n.target)
    accs = accumulator_names(n.body, p.env)
    temps -= accs
    # array-store accumulators: local numpy arrays only ever touched by `arr[i] = v` statements
    stores = {t.value.id for st in n.body for x in ast.walk(st) if isinstance(x, ast.Assign) for t in x.targets
              if isinstance(t, ast.Subscript) and isinstance(t.value, ast.Name) and isinstance(p.env.get(t.value.id), NDArr)}
    stores -= {nm for nm in assigned_names(n.body)}
    temps -= stores
    is_gen = p.yields is not None
    base_env = dict(p.env)
    for t in temps:
        base_env[t] = Poison(t)

    body_runs = []

    def body_at(idx):
        """Execute the body for iteration `idx` (z3 Int term) with empty accumulators (deltas)."""
        env = dict(base_env)
        for a in accs:
            env[a] = Lst(items=[])
        for a in stores:
            arr = p.env[a]
            env[a] = NDArr(arr.n, arr._at, arr.dtype, log=[])   # records this iteration's stores
        start = symex.Path(p.cond + [idx >= 0, idx < N], env, Lst(items=[]) if is_gen else None, p.heap)
        sub = ex.enter_iteration(ex.child(), p)
        sub.index_ctx = ex.index_ctx + [idx]
        sub.loop_tag = ex.loop_tag + (loop_id,)
        sub.replay = ex.replay or bool(body_runs)   # the first execution is the real one; later ones re-read it
        body_runs.append(1)
        falls, exits = run_iteration(sub, n, seq.at(idx), start)
        return falls, exits, sub

    base = len(p.cond) + 2

    def extra(cond):
        e = cond[base:]
        return z3.And(*e) if e else z3.BoolVal(True)

    L = z3.Int(fresh_name(f"L{loop_id}"))
    falls, exits, sub = body_at(L)
    ex.side += sub.side
    for o in sub.outcomes:  # outcomes not attributable to this iteration (none expected)
        ex.outcomes.append(o)
    fall_L = z3.Or([extra(f.cond) for f in falls]) if falls else z3.BoolVal(False)
    j = z3.Int(fresh_name(f"j{loop_id}"))

    def fall_before(bound):
        body = z3.substitute(fall_L, (L, j))
        return z3.ForAll([j], z3.Implies(z3.And(j >= 0, j < bound), body))

    # classify accumulator behaviour from the fall paths of a generic iteration
    def deltas_of(path):
        d = {a: path.env[a] for a in accs}
        if is_gen:
            d["__yield__"] = path.yields
        return d

    acc_keys = list(accs) + (["__yield__"] if is_gen else [])
    shapes = {}
    for a in acc_keys:
        counts = set()
        for f in falls:
            d = deltas_of(f)[a]
            if not d.concrete:
                raise Unsupported(f"{ex.module.name}:{n.lineno}: accumulator {a} grows by a symbolic amount per iteration")
            counts.add(len(d.items))
        shapes[a] = counts

    def accumulated(a, old: Lst, count, exit_delta: Lst | None):
        """Value of accumulator `a` after `count` completed iterations (+ what the exiting iteration added)."""
        counts = shapes[a]
        if counts <= {0} or not counts:
            new = old
        elif len(counts) == 1:
            m = next(iter(counts))

            def at(i, m=m):
                it = i / m if m > 1 else i
                r = i % m if m > 1 else z3.IntVal(0)
                fs, _, _ = body_at(it)
                if not fs:
                    raise Unsupported("no fall-through path")
                val = None
                for f in reversed(fs):
                    items = deltas_of(f)[a].items
                    item = items[-1]
                    for kk in range(m - 2, -1, -1):
                        item = ite(r == kk, items[kk], item)
                    val = item if val is None else ite(extra(f.cond), item, val)
                return val
            new = ex.concat(old, Lst(n=count * m, at=at))
        elif counts == {0, 1}:
            new = ex.concat(old, _filtered(ex, a, count, body_at, deltas_of, extra, loop_id, p))
        else:
            raise Unsupported(f"{ex.module.name}:{n.lineno}: accumulator {a} grows irregularly {sorted(counts)}")
        if exit_delta is not None and exit_delta.items:
            new = ex.concat(new, exit_delta)
        return new

    for a in stores:
        for f in falls:
            if len(f.env[a].log) > 1:
                raise Unsupported(f"{ex.module.name}:{n.lineno}: more than one store to {a} per iteration")
        for o in exits:
            if o.env is not None and isinstance(o.env.get(a), NDArr) and o.env[a].log:
                raise Unsupported(f"{ex.module.name}:{n.lineno}: store to {a} in an exiting iteration")

    def stored(a, old: NDArr, count):
        """array after `count` completed iterations: cell k holds the value of the LAST iteration that stored to k"""
        def info(j, k):
            fs, _, _ = body_at(j)
            hit, val = [], None
            for f in fs:
                log = f.env[a].log
                if log:
                    c = z3.And(extra(f.cond), log[0][0] == k)
                    hit.append(c)
                    val = log[0][1] if val is None else ite(c, log[0][1], val)
            return (z3.Or(hit) if hit else z3.BoolVal(False)), val
        tag = fresh_name(f"st{loop_id}")
        W = z3.Function(tag + "_last", z3.IntSort(), z3.IntSort())
        k, j, j2 = fresh_int("sk"), fresh_int("sj"), fresh_int("sj2")
        found = lambda kk: z3.Exists([j], z3.And(j >= 0, j < count, info(j, kk)[0]))
        ex.bg_local(p, guard=count >= 0, facts=[z3.ForAll([k], z3.Implies(found(k), z3.And(
            W(k) >= 0, W(k) < count, info(W(k), k)[0],
            z3.ForAll([j2], z3.Implies(z3.And(j2 > W(k), j2 < count), z3.Not(info(j2, k)[0]))))))])

        def at(kk):
            hit, val = info(W(kk), kk)
            if val is None:
                return old.at(kk)
            return ite(found(kk), val, old.at(kk))
        return NDArr(old.n, at, old.dtype)

    def after_env(env_from, count, exit_path=None):
        env = dict(p.env)
        for t in temps:
            env[t] = Poison(t)
        for a in stores:
            env[a] = stored(a, p.env[a], count)
        for a in accs:
            env[a] = accumulated(a, p.env[a], count, exit_path.env[a] if exit_path is not None else None)
        return env

    out = []
    # 1. normal completion: all N iterations fall through
    if ex.feasible(p.cond + [N >= 0]):
        q = symex.Path(p.cond + [fall_before(N)], after_env(p.env, N), None, p.heap)
        q.yields = accumulated("__yield__", p.yields, N, None) if is_gen else p.yields
        out.append(q)
    # 2. exits at first-exit index L
    for o in exits:
        cond = p.cond + [L >= 0, L < N, fall_before(L), extra(o.cond)]
        if not ex.feasible(cond):
            continue
        opath = symex.Path(o.cond, o.env, o.yields, p.heap)
        if o.kind == "break":
            q = symex.Path(cond, after_env(p.env, L, opath), None, p.heap)
            q.yields = accumulated("__yield__", p.yields, L, o.yields) if is_gen else p.yields
            out.append(q)
        elif o.kind == "return":
            ys = accumulated("__yield__", p.yields, L, o.yields) if is_gen else p.yields
            ex.outcomes.append(symex.Outcome("return", cond, val=o.val, line=o.line, yields=ys, env=o.env))
        elif o.kind == "raise":
            ys = accumulated("__yield__", p.yields, L, o.yields) if is_gen else p.yields
            ex.outcomes.append(symex.Outcome("raise", cond, exc=o.exc, line=o.line, yields=ys, env=o.env))
        else:
            raise Unsupported(f"loop exit {o.kind}")
    return out


def _target_names(t):
    return {n.id for n in ast.walk(t) if isinstance(n, ast.Name)}


def _filtered(ex, a, count, body_at, deltas_of, extra, loop_id, p):
    """List of the items appended by the iterations (in order) that append exactly one item."""
    tag = fresh_name(f"flt{loop_id}")
    m = z3.Int(tag + "_n")
    src = z3.Function(tag + "_src", z3.IntSort(), z3.IntSort())
    pos = z3.Function(tag + "_pos", z3.IntSort(), z3.IntSort())

    def keep_at(idx):
        fs, _, _ = body_at(idx)
        ks = [extra(f.cond) for f in fs if len(deltas_of(f)[a].items) == 1]
        return z3.Or(ks) if ks else z3.BoolVal(False)

    def item_at(idx):
        fs, _, _ = body_at(idx)
        val = None
        for f in reversed([f for f in fs if len(deltas_of(f)[a].items) == 1]):
            it = deltas_of(f)[a].items[0]
            val = it if val is None else ite(extra(f.cond), it, val)
        if val is None:
            raise Unsupported("filter with no keeping path")
        return val

    k, jj = fresh_int("fk"), fresh_int("fj")
    ex.bg_local(p, guard=count >= 0, facts=[
        m >= 0, m <= count,
        z3.ForAll([k], z3.Implies(z3.And(k >= 0, k < m),
                                  z3.And(src(k) >= 0, src(k) < count, keep_at(src(k)),
                                         z3.Implies(k + 1 < m, src(k) < src(k + 1))))),
        z3.ForAll([jj], z3.Implies(z3.And(jj >= 0, jj < count, keep_at(jj)),
                                   z3.And(pos(jj) >= 0, pos(jj) < m, src(pos(jj)) == jj))),
    ])
    return Lst(n=m, at=lambda i: item_at(src(i)), tag=("filter", src, pos, m, count, keep_at))


class _Rename(ast.NodeTransformer):
    def __init__(self, mapping):
        self.mapping = mapping

    def visit_Name(self, n):
        return ast.copy_location(ast.Name(id=self.mapping.get(n.id, n.id), ctx=n.ctx), n)


def comp_key(ex, elt, g, seq, p):
    """Identity of a comprehension as a value: same element/filter text (bound names normalised), same iterated
    list object, same values of its free variables => same list (element expressions are pure reads)."""
    bound = sorted(_target_names(g.target))
    ren = _Rename({b: f"_b{k}" for k, b in enumerate(bound)})
    import copy
    parts = [ast.dump(ren.visit(copy.deepcopy(x))) for x in [g.target, elt] + list(g.ifs)]
    free = sorted({n.id for x in [elt] + list(g.ifs) for n in ast.walk(x) if isinstance(n, ast.Name)} - set(bound))
    fv = tuple((nm, id(p.env[nm])) if nm in p.env else (nm, ex.module.name) for nm in free)
    return (id(seq), tuple(parts), fv, tuple(str(t) for t in ex.index_ctx))


def filtered_list(ex, elt, g, seq: Lst, p):
    """[elt for x in seq if cond] over a symbolic list (comprehension form of the filter summary)."""
    cache = ex.trace.setdefault("_comp_cache", {})
    key = comp_key(ex, elt, g, seq, p)
    hit = cache_lookup(cache, key, p)
    if hit is not None:
        return hit
    res = _filtered_list(ex, elt, g, seq, p)
    cache.setdefault(key, []).append((res, seq, {c.get_id() for c in p.cond}, list(p.cond)))  # keep seq alive so that id() stays unique
    return res


def cache_lookup(cache, key, p):
    """a cached comprehension value may be reused only on a path that extends the path it was built on
    (its element expressions captured that path's conditions)"""
    cur = None
    for ent in cache.get(key, ()):
        if cur is None:
            cur = {c.get_id() for c in p.cond}
        if ent[2] <= cur:
            return ent[0]
    return None


def _filtered_list(ex, elt, g, seq: Lst, p):
    loop_id = next(_loop_ids)
    tag = fresh_name(f"cf{loop_id}")
    m = z3.Int(tag + "_n")
    src = z3.Function(tag + "_src", z3.IntSort(), z3.IntSort())
    pos = z3.Function(tag + "_pos", z3.IntSort(), z3.IntSort())
    N = seq.n

    def at_index(idx):
        sub = ex.enter_iteration(ex.child(), p)
        sub.implicit_exc = False
        sub.replay = True
        sub.index_ctx = ex.index_ctx + [idx]
        res = []
        for q in sub.assign(g.target, seq.at(idx), symex.Path(p.cond, p.env, None, p.heap), elt):
            conds = [(q, [])]
            for c in g.ifs:
                conds = [(q3, ts + [truth(v)]) for (q2, ts) in conds for (q3, v) in sub.ev(c, q2)]
            res += conds
        return sub, res

    def keep_at(idx):
        _, res = at_index(idx)
        base = len(p.cond)
        ds = []
        for q, ts in res:
            e = q.cond[base:]
            ds.append(z3.And(*e, *ts))
        return z3.Or(ds) if len(ds) != 1 else ds[0]

    def item_at(idx):
        sub, res = at_index(idx)
        base = len(p.cond)
        val = None
        for q, ts in reversed(res):
            for q2, v in reversed(sub.ev(elt, q)):
                e = q2.cond[base:]
                val = v if val is None else ite(z3.And(*e) if e else z3.BoolVal(True), v, val)
        return val

    if ex.implicit_exc and not ex.replay:
        ci = fresh_int("cfi")
        sub0 = ex.enter_iteration(ex.child(), p)
        sub0.index_ctx = ex.index_ctx + [ci]
        for q0 in sub0.assign(g.target, seq.at(ci), p.fork(ci >= 0, ci < N), elt):
            conds0 = [(q0, [])]
            for c0 in g.ifs:
                conds0 = [(q3, ts + [truth(v0)]) for (q2, ts) in conds0 for (q3, v0) in sub0.ev(c0, q2)]
            for q3, ts in conds0:
                sub0.ev(elt, q3.fork(*ts))
        ex.outcomes += sub0.outcomes
    # a filter that provably keeps every element is the plain map (solver-checked; avoids an inductive argument
    # about the monotone source-index function)
    jchk = fresh_int("keepall")
    old_to = ex.feas_timeout_ms
    ex.feas_timeout_ms = 3000
    try:
        keeps_all = not ex.feasible(p.cond + [jchk >= 0, jchk < N, z3.Not(keep_at(jchk))])
    finally:
        ex.feas_timeout_ms = old_to
    if keeps_all:
        return Lst(n=N, at=item_at)
    k, jj = fresh_int("fk"), fresh_int("fj")
    ex.bg_local(p, guard=N >= 0, facts=[
        m >= 0, m <= N,
        z3.ForAll([k], z3.Implies(z3.And(k >= 0, k < m),
                                  z3.And(src(k) >= 0, src(k) < N, keep_at(src(k)),
                                         z3.Implies(k + 1 < m, src(k) < src(k + 1))))),
        z3.ForAll([jj], z3.Implies(z3.And(jj >= 0, jj < N, keep_at(jj)),
                                   z3.And(pos(jj) >= 0, pos(jj) < m, src(pos(jj)) == jj))),
    ])
    return Lst(n=m, at=lambda i: item_at(src(i)), tag=("filter", src, pos, m, N, keep_at))


# ----------------------------------------------------------------------------- loops over all index pairs i < j
def pairs_handler(ex, p, args, kw, node):
    """itertools.combinations(enumerate(xs), 2) (assumed: every (i, xs[i]), (j, xs[j]) with i < j exactly once,
    lexicographically): a list tagged so that `for` summarises it over the two indices"""
    xs, r = args
    if not (isinstance(r, Num) and z3.is_int_value(z3.simplify(r.t)) and z3.simplify(r.t).as_long() == 2):
        raise Unsupported("combinations with r != 2")
    base = xs.tag[1] if isinstance(xs, Lst) and isinstance(xs.tag, tuple) and xs.tag[0] == "enumerate" else None
    if base is None:
        raise Unsupported("combinations over something else than enumerate(xs)")
    ex.trace["assumed"].add("itertools.combinations(enumerate(xs), 2) yields every pair of positions i < j exactly once")
    cnt = ex.fresh_sym(z3.IntSort(), "npairs", node)
    return [(p, Lst(n=cnt, at=None, tag=("pairs", base)))]


def summarise_pairs(ex, n: ast.For, seq: Lst, p):
    """`for (i, xi), (j, xj) in combinations(enumerate(xs), 2)`: the body is executed for a generic pair i < j;
    it may only `continue` and append/extend local lists.  Each such list becomes a *pair accumulator* (consumed by
    the sparse-matrix constructor's contract): for every pair, in order, the items the body appended."""
    xs = seq.tag[1]
    N = xs.length()
    loop_id = next(_loop_ids)
    accs = accumulator_names(n.body, p.env)
    temps = (assigned_names(n.body) | _target_names(n.target)) - accs
    base_env = dict(p.env)
    for t in temps:
        base_env[t] = Poison(t)

    def body_at(i, j):
        env = dict(base_env)
        for a in accs:
            env[a] = Lst(items=[])
        start = symex.Path(p.cond + [i >= 0, i < j, j < N], env, None, p.heap)
        sub = ex.child()
        sub.index_ctx = ex.index_ctx + [i, j]
        sub.loop_tag = ex.loop_tag + (loop_id,)
        item = Tup([Tup([Num(i), xs.at(i)]), Tup([Num(j), xs.at(j)])])
        falls, exits = run_iteration(sub, n, item, start)
        if exits:
            raise Unsupported(f"{ex.module.name}:{n.lineno}: exit from a loop over index pairs")
        return falls, sub

    i0, j0 = z3.Int(fresh_name(f"pi{loop_id}")), z3.Int(fresh_name(f"pj{loop_id}"))
    falls, sub = body_at(i0, j0)
    ex.side += sub.side
    for o in sub.outcomes:
        ex.outcomes.append(o)
    base = len(p.cond) + 3
    for a in accs:
        if not isinstance(p.env[a], Lst) or not p.env[a].concrete or p.env[a].items:
            raise Unsupported("pair accumulator must start empty")
        for f in falls:
            if not f.env[a].concrete:
                raise Unsupported("symbolic growth in a pair loop")

    def info(a):
        def items_at(i, j):
            """[(condition, [items appended])] for pair (i, j)"""
            fs, _ = body_at(i, j)
            out = []
            for f in fs:
                e = f.cond[base:]
                out.append((z3.And(*e) if e else z3.BoolVal(True), f.env[a].items))
            return out
        return dict(n=N, items_at=items_at, loop=loop_id, xs=xs)

    env = dict(p.env)
    for t in temps:
        env[t] = Poison(t)
    for a in accs:
        env[a] = Lst(n=ex.fresh_sym(z3.IntSort(), f"len_{a}", n), at=None, tag=("pairacc", info(a)))
    return [symex.Path(p.cond, env, p.yields, p.heap)]
