"""Symbolic values for the pyvc executor."""
from __future__ import annotations

import itertools
from fractions import Fraction

import z3

from .repo import Unsupported

_fresh = itertools.count()


def fresh_name(prefix: str) -> str:
    return f"{prefix}!{next(_fresh)}"


INDEX_VARS = {}   # id -> const: the integer constants created as generic / bound index variables (kept alive: ids are recycled)


def fresh_int(prefix="i"):
    c = z3.Int(fresh_name(prefix))
    INDEX_VARS[c.get_id()] = c
    return c


def is_index_var(x):
    return x.get_id() in INDEX_VARS


def fresh_real(prefix="r"):
    return z3.Real(fresh_name(prefix))


def fresh_bool(prefix="b"):
    return z3.Bool(fresh_name(prefix))


# Python strings that stay symbolic are elements of an uninterpreted sort; literals are
# interned as pairwise-distinct constants (distinctness is asserted by the obligation builder).
StrSort = z3.DeclareSort("PyStr")
_str_lits: dict[str, z3.ExprRef] = {}


def str_lit(s: str):
    if s not in _str_lits:
        _str_lits[s] = z3.Const("str_" + "".join(ch if ch.isalnum() else "_" for ch in s) + f"_{len(_str_lits)}", StrSort)
    return _str_lits[s]


def str_distinct_axioms():
    vals = list(_str_lits.values())
    return [z3.Distinct(*vals)] if len(vals) > 1 else []


# Functions assumed injective (f-string formatting, uuid5): name -> (f, [inverse per argument]).
# Their axioms are ground-instantiated per query (see theory_axioms) so that no quantifier reasoning
# is needed for them and `sat` answers remain obtainable.
INJECTIVE: dict[str, tuple] = {}


def register_injective(f, arg_positions=None):
    name = f.name()
    if name not in INJECTIVE:
        n = f.arity()
        pos = list(range(n)) if arg_positions is None else list(arg_positions)
        invs = {j: z3.Function(f"{name}_inv{j}", f.range(), f.domain(j)) for j in pos}
        INJECTIVE[name] = (f, invs)
    return INJECTIVE[name]


def theory_axioms(assertions):
    """String-literal distinctness + injectivity instances for every application occurring in `assertions`."""
    out = list(str_distinct_axioms())
    if not INJECTIVE:
        return out
    apps, nonground = {}, set()
    seen = set()
    stack = list(assertions)
    while stack:
        e = stack.pop()
        if e.get_id() in seen:
            continue
        seen.add(e.get_id())
        if z3.is_quantifier(e):
            stack.append(e.body())
            continue
        if z3.is_app(e):
            nm = e.decl().name()
            if nm in INJECTIVE and e.num_args() > 0:
                if _contains_var(e):
                    nonground.add(nm)
                else:
                    apps[e.get_id()] = e
            stack.extend(e.children())
    for e in apps.values():
        f, invs = INJECTIVE[e.decl().name()]
        for j, inv in invs.items():
            out.append(inv(e) == e.arg(j))
    for nm in nonground:
        f, invs = INJECTIVE[nm]
        bvs = [z3.Const(f"inj{j}", f.domain(j)) for j in range(f.arity())]
        for j, inv in invs.items():
            out.append(z3.ForAll(bvs, inv(f(*bvs)) == bvs[j]))
    return out


def _contains_var(e):
    stack, seen = [e], set()
    while stack:
        x = stack.pop()
        if x.get_id() in seen:
            continue
        seen.add(x.get_id())
        if z3.is_var(x):
            return True
        stack.extend(x.children())
    return False


def str_lit_table():
    return dict(_str_lits)


class V:
    """base class"""


class Num(V):
    __slots__ = ("t",)

    def __init__(self, t):
        if isinstance(t, bool):
            raise TypeError("bool is not Num")
        if isinstance(t, int):
            t = z3.IntVal(t)
        elif isinstance(t, float):
            fr = Fraction(t)  # exact value of the double
            t = z3.RealVal(fr)
        elif isinstance(t, Fraction):
            t = z3.RealVal(t)
        self.t = t

    @property
    def is_int(self):
        return self.t.sort() == z3.IntSort()

    def real(self):
        return z3.ToReal(self.t) if self.is_int else self.t

    def __repr__(self):
        return f"Num({self.t})"


class Bool(V):
    __slots__ = ("t",)

    def __init__(self, t):
        if isinstance(t, bool):
            t = z3.BoolVal(t)
        self.t = t

    def __repr__(self):
        return f"Bool({self.t})"


class Str(V):
    """Either a concrete python string (c) or a symbolic term of sort PyStr (t)."""
    __slots__ = ("c", "_t")

    def __init__(self, c=None, t=None):
        self.c = c
        self._t = t

    @property
    def t(self):
        if self._t is None:
            self._t = str_lit(self.c)
        return self._t

    @property
    def concrete(self):
        return self.c is not None

    def __repr__(self):
        return f"Str({self.c!r})" if self.concrete else f"Str(${self._t})"


class NoneV(V):
    def __repr__(self):
        return "None"


NONE = NoneV()


class Opt(V):
    """A value that is None when `isnone` holds and `val` otherwise."""
    __slots__ = ("isnone", "val")

    def __init__(self, isnone, val):
        self.isnone = isnone
        self.val = val

    def __repr__(self):
        return f"Opt({self.isnone}, {self.val})"


class Tup(V):
    __slots__ = ("items",)

    def __init__(self, items):
        self.items = list(items)

    def __repr__(self):
        return f"Tup({self.items})"


class Lst(V):
    """A list.  Concrete-length lists carry `items`; symbolic ones a length term `n`
    and an element function `at(i)` (i a z3 Int term)."""
    __slots__ = ("items", "n", "_at", "tag")

    def __init__(self, items=None, n=None, at=None, tag=None):
        self.items = list(items) if items is not None else None
        self.n = n
        self._at = at
        self.tag = tag

    @property
    def concrete(self):
        return self.items is not None

    def length(self):
        return z3.IntVal(len(self.items)) if self.concrete else self.n

    def at(self, i):
        if self.concrete:
            if isinstance(i, int):
                return self.items[i]
            i = z3.simplify(i)
            if z3.is_int_value(i):
                return self.items[i.as_long()]
            # symbolic index into a concrete list: ite chain
            if not self.items:
                raise Unsupported("index into empty concrete list")
            res = self.items[-1]
            for k in range(len(self.items) - 2, -1, -1):
                res = ite(i == k, self.items[k], res)
            return res
        if isinstance(i, int):
            i = z3.IntVal(i)
        return self._at(i)

    def __repr__(self):
        return f"Lst({self.items})" if self.concrete else f"Lst(n={self.n})"


class Dct(V):
    """Concrete-key dictionary: ordered list of (key Value, value Value)."""
    __slots__ = ("pairs", "default_factory")

    def __init__(self, pairs=None):
        self.pairs = list(pairs or [])

    def __repr__(self):
        return f"Dct({self.pairs})"


class SetV(V):
    __slots__ = ("items",)

    def __init__(self, items):
        self.items = list(items)


class DctL(V):
    """A dict built from a (symbolic) list of (key, value) pairs in insertion order: lookup returns the value of the
    LAST pair whose key equals the query (Python dict semantics for repeated keys)."""
    __slots__ = ("keys", "vals")

    def __init__(self, keys: "Lst", vals: "Lst"):
        self.keys, self.vals = keys, vals


class NDArr(V):
    """A 1-D numpy array: length term + element function; `log` records stores during one loop iteration."""
    __slots__ = ("n", "_at", "dtype", "log")

    def __init__(self, n, at, dtype="float64", log=None):
        self.n, self._at, self.dtype, self.log = n, at, dtype, log

    def at(self, i):
        return self._at(i)


class SetL(V):
    """A set given by the list of its elements (possibly with repetitions): membership = occurs in the list."""
    __slots__ = ("lst",)

    def __init__(self, lst):
        self.lst = lst


class Obj(V):
    """A record (pydantic model instance, adapter, AOEF object): class name + field values."""
    __slots__ = ("cls", "fields", "ident")

    def __init__(self, cls: str, fields: dict, ident=None):
        self.cls = cls
        self.fields = dict(fields)
        self.ident = ident

    def __repr__(self):
        return f"Obj<{self.cls}>({self.fields})"


class Ref(V):
    """A reference to a mutable object of a plain (non-pydantic) class; its attributes live in the path's heap."""
    __slots__ = ("ident", "cls")

    def __init__(self, ident, cls):
        self.ident, self.cls = ident, cls

    def __repr__(self):
        return f"Ref<{self.cls}#{self.ident}>"


class Opq(V):
    """An opaque value of an uninterpreted sort (shapely geometry, UUID, ...)."""
    __slots__ = ("kind", "t", "meta")

    def __init__(self, kind: str, t, meta=None):
        self.kind = kind
        self.t = t
        self.meta = meta or {}

    def __repr__(self):
        return f"Opq<{self.kind}>({self.t})"


class Fn(V):
    """Callable: kind in {'lambda','repo','handler','class','bound'}"""
    __slots__ = ("kind", "data")

    def __init__(self, kind, data):
        self.kind = kind
        self.data = data

    def __repr__(self):
        return f"Fn<{self.kind}>"


class ExcV(V):
    """An exception instance (only its class name matters)."""
    __slots__ = ("name",)

    def __init__(self, name):
        self.name = name


class ModV(V):
    """A module / namespace reference (qualified name)."""
    __slots__ = ("qual",)

    def __init__(self, qual):
        self.qual = qual


_sorts: dict[str, z3.SortRef] = {}


def opaque_sort(kind: str):
    if kind not in _sorts:
        _sorts[kind] = z3.DeclareSort(kind)
    return _sorts[kind]


def fresh_opq(kind: str, prefix=None, meta=None):
    return Opq(kind, z3.Const(fresh_name(prefix or kind.lower()), opaque_sort(kind)), meta)


# ---------------------------------------------------------------------------------
# generic operations
# ---------------------------------------------------------------------------------

def truth(v: V):
    """z3 Bool for python truthiness of v."""
    if isinstance(v, Bool):
        return v.t
    if isinstance(v, NoneV):
        return z3.BoolVal(False)
    if isinstance(v, Num):
        return v.t != 0
    if isinstance(v, Opt):
        return z3.And(z3.Not(v.isnone), truth(v.val))
    if isinstance(v, Str):
        if v.concrete:
            return z3.BoolVal(bool(v.c))
        return v.t != str_lit("")
    if isinstance(v, Tup):
        return z3.BoolVal(bool(v.items))
    if isinstance(v, Lst):
        return z3.BoolVal(bool(v.items)) if v.concrete else v.n > 0
    if isinstance(v, Dct):
        return z3.BoolVal(bool(v.pairs))
    if isinstance(v, DctL):
        return v.keys.length() > 0
    if isinstance(v, (Obj, Opq, Fn, ModV, Ref)):
        return z3.BoolVal(True)
    raise Unsupported(f"truthiness of {type(v).__name__}")


def is_none(v: V):
    if isinstance(v, NoneV):
        return z3.BoolVal(True)
    if isinstance(v, Opt):
        return z3.Or(v.isnone, is_none(v.val)) if isinstance(v.val, (Opt, NoneV)) else v.isnone
    return z3.BoolVal(False)


def strip_opt(v: V):
    """payload of an Opt (caller has established it is not None)"""
    while isinstance(v, Opt):
        v = v.val
    return v


def num_pair(a: Num, b: Num):
    if a.is_int and b.is_int:
        return a.t, b.t, True
    return a.real(), b.real(), False


def ite(c, a: V, b: V) -> V:
    """Merged value `a if c else b` (raises Unsupported if shapes cannot be merged)."""
    c = z3.simplify(c) if not isinstance(c, bool) else z3.BoolVal(c)
    if z3.is_true(c):
        return a
    if z3.is_false(c):
        return b
    if isinstance(a, NoneV) and isinstance(b, NoneV):
        return a
    if isinstance(a, NoneV):
        if isinstance(b, Opt):
            return Opt(z3.Or(c, b.isnone), b.val)
        return Opt(c, b)
    if isinstance(b, NoneV):
        if isinstance(a, Opt):
            return Opt(z3.Or(z3.Not(c), a.isnone), a.val)
        return Opt(z3.Not(c), a)
    if isinstance(a, Opt) or isinstance(b, Opt):
        an = a.isnone if isinstance(a, Opt) else z3.BoolVal(False)
        bn = b.isnone if isinstance(b, Opt) else z3.BoolVal(False)
        av = a.val if isinstance(a, Opt) else a
        bv = b.val if isinstance(b, Opt) else b
        return Opt(z3.If(c, an, bn), ite(c, av, bv))
    if isinstance(a, Num) and isinstance(b, Num):
        x, y, _ = num_pair(a, b)
        return Num(z3.If(c, x, y))
    if isinstance(a, Bool) and isinstance(b, Bool):
        return Bool(z3.If(c, a.t, b.t))
    if isinstance(a, Num) and isinstance(b, Bool):
        return ite(c, a, Num(z3.If(b.t, 1, 0)))
    if isinstance(a, Bool) and isinstance(b, Num):
        return ite(c, Num(z3.If(a.t, 1, 0)), b)
    if isinstance(a, Str) and isinstance(b, Str):
        if a.concrete and b.concrete and a.c == b.c:
            return a
        return Str(t=z3.If(c, a.t, b.t))
    if isinstance(a, Tup) and isinstance(b, Tup) and len(a.items) == len(b.items):
        return Tup([ite(c, x, y) for x, y in zip(a.items, b.items)])
    if isinstance(a, Lst) and isinstance(b, Lst):
        if a.concrete and b.concrete and len(a.items) == len(b.items):
            return Lst(items=[ite(c, x, y) for x, y in zip(a.items, b.items)])
        if b.concrete and not b.items:      # an index in range implies c: the element comes from a
            return Lst(n=z3.If(c, a.length(), 0), at=lambda i, a=a: a.at(i))
        if a.concrete and not a.items:
            return Lst(n=z3.If(c, 0, b.length()), at=lambda i, b=b: b.at(i))
        return Lst(n=z3.If(c, a.length(), b.length()), at=lambda i, a=a, b=b, c=c: ite(c, a.at(i), b.at(i)))
    if isinstance(a, Obj) and isinstance(b, Obj) and a.cls == b.cls and a.fields.keys() == b.fields.keys():
        return Obj(a.cls, {k: ite(c, a.fields[k], b.fields[k]) for k in a.fields})
    if isinstance(a, Opq) and isinstance(b, Opq) and a.kind == b.kind:
        return Opq(a.kind, z3.If(c, a.t, b.t))
    raise Unsupported(f"cannot merge {type(a).__name__} with {type(b).__name__}")


def eq(a: V, b: V):
    """z3 Bool for python `a == b` on modelled values (structural)."""
    if a is b:
        return z3.BoolVal(True)
    if isinstance(a, (Fn, ModV)) or isinstance(b, (Fn, ModV)):
        if isinstance(a, Fn) and isinstance(b, Fn) and a.kind == b.kind and a.kind in ("class", "repo", "builtin") :
            return z3.BoolVal(a.data == b.data)
        raise Unsupported("equality involving a callable / unmodelled attribute")
    if isinstance(a, Opt) or isinstance(b, Opt):
        an, bn = is_none(a), is_none(b)
        av, bv = strip_opt(a), strip_opt(b)
        if isinstance(av, NoneV) or isinstance(bv, NoneV):
            return z3.And(an, bn)
        return z3.Or(z3.And(an, bn), z3.And(z3.Not(an), z3.Not(bn), eq(av, bv)))
    if isinstance(a, NoneV) or isinstance(b, NoneV):
        return z3.BoolVal(isinstance(a, NoneV) and isinstance(b, NoneV))
    if isinstance(a, Bool) and isinstance(b, Bool):
        return a.t == b.t
    if isinstance(a, Bool) and isinstance(b, Num):
        return z3.If(a.t, 1, 0) == b.t if b.is_int else z3.If(a.t, z3.RealVal(1), z3.RealVal(0)) == b.t
    if isinstance(a, Num) and isinstance(b, Bool):
        return eq(b, a)
    if isinstance(a, Num) and isinstance(b, Num):
        x, y, _ = num_pair(a, b)
        return x == y
    if isinstance(a, Str) and isinstance(b, Str):
        if a.concrete and b.concrete:
            return z3.BoolVal(a.c == b.c)
        return a.t == b.t
    if isinstance(a, (Tup, Lst)) and isinstance(b, (Tup, Lst)):
        if isinstance(a, Tup) != isinstance(b, Tup):
            return z3.BoolVal(False)  # tuple never equals list
        ai = a.items if isinstance(a, Tup) else (a.items if a.concrete else None)
        bi = b.items if isinstance(b, Tup) else (b.items if b.concrete else None)
        if ai is not None and bi is not None:
            if len(ai) != len(bi):
                return z3.BoolVal(False)
            return z3.And([eq(x, y) for x, y in zip(ai, bi)]) if ai else z3.BoolVal(True)
        # at least one symbolic list
        if ai is not None or bi is not None:
            conc, sym = (a, b) if ai is not None else (b, a)
            k = len(conc.items)
            return z3.And([sym.length() == k] + [eq(conc.items[j], sym.at(j)) for j in range(k)])
        i = fresh_int("eq")
        return z3.And(a.length() == b.length(),
                      z3.ForAll([i], z3.Implies(z3.And(i >= 0, i < a.length()), eq(a.at(i), b.at(i)))))
    if isinstance(a, Obj) and isinstance(b, Obj):
        if a.cls != b.cls or a.fields.keys() != b.fields.keys():
            return z3.BoolVal(False)
        return z3.And([eq(a.fields[k], b.fields[k]) for k in a.fields]) if a.fields else z3.BoolVal(True)
    if isinstance(a, Opq) and isinstance(b, Opq):
        if a.kind != b.kind:
            return z3.BoolVal(False)
        return a.t == b.t
    if isinstance(a, Ref) and isinstance(b, Ref):
        return z3.BoolVal(a.ident == b.ident)
    if isinstance(a, (SetL, SetV)) and isinstance(b, (SetL, SetV)):
        la = a.lst if isinstance(a, SetL) else Lst(items=a.items)
        lb = b.lst if isinstance(b, SetL) else Lst(items=b.items)
        return z3.And(_subset(la, lb), _subset(lb, la))
    if isinstance(a, Dct) and isinstance(b, Dct):
        if len(a.pairs) != len(b.pairs):
            return z3.BoolVal(False)
        conj = []
        for (k1, v1) in a.pairs:
            match = [v2 for (k2, v2) in b.pairs if isinstance(k1, Str) and isinstance(k2, Str) and k1.concrete and k2.concrete and k1.c == k2.c]
            if len(match) != 1:
                raise Unsupported("dict equality with non-literal keys")
            conj.append(eq(v1, match[0]))
        return z3.And(conj) if conj else z3.BoolVal(True)
    if type(a) is not type(b):
        return z3.BoolVal(False)
    raise Unsupported(f"equality of {type(a).__name__}")


def filter_uniqueness(a, b):
    """LEMMA (engine-level, proved on paper by induction on the source length; listed in the trusted base): the
    order-preserving enumeration of the kept indices of a filter is unique -- two filters over equally long sources that
    keep the same indices have the same length and the same source-index function.  A consequence of the two filters'
    defining axioms, returned as a background fact for a comparison of two filtered lists (None otherwise)."""
    fa, fb = getattr(a, "tag", None), getattr(b, "tag", None)
    if not (isinstance(fa, tuple) and isinstance(fb, tuple) and fa[0] == "filter" and fb[0] == "filter") or fa is fb:
        return None
    _, sa, _, ma, na, ka = fa
    _, sb_, _, mb, nb, kb = fb
    j, k = fresh_int("fu"), fresh_int("fv")
    same = z3.And(na == nb, na >= 0, z3.ForAll([j], z3.Implies(z3.And(j >= 0, j < na), ka(j) == kb(j))))
    return z3.Implies(same, z3.And(ma == mb, z3.ForAll([k], z3.Implies(z3.And(k >= 0, k < ma), sa(k) == sb_(k)))))


def member(lst: Lst, x: V):
    """x occurs in lst"""
    if lst.concrete:
        return z3.Or([eq(x, y) for y in lst.items]) if lst.items else z3.BoolVal(False)
    j = fresh_int("mem")
    return z3.Exists([j], z3.And(j >= 0, j < lst.n, eq(x, lst.at(j))))


def _subset(la: Lst, lb: Lst):
    if la.concrete:
        return z3.And([member(lb, x) for x in la.items]) if la.items else z3.BoolVal(True)
    i = fresh_int("sub")
    return z3.ForAll([i], z3.Implies(z3.And(i >= 0, i < la.n), member(lb, la.at(i))))


def distinct_list(lst: Lst):
    if lst.concrete:
        ts = [eq(a, b) for k, a in enumerate(lst.items) for b in lst.items[k + 1:]]
        return z3.Not(z3.Or(ts)) if ts else z3.BoolVal(True)
    i, j = fresh_int("di"), fresh_int("dj")
    return z3.ForAll([i], z3.Implies(z3.And(i >= 0, i < lst.n),
                                     z3.ForAll([j], z3.Implies(z3.And(j >= 0, j < i), z3.Not(eq(lst.at(i), lst.at(j)))))))
