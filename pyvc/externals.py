"""Assumed contracts of the Python standard library used on anchored paths (trusted base;
each is listed in the evidence when used)."""
from __future__ import annotations

import z3

from .repo import Unsupported
from .values import (V, Num, Bool, Str, NoneV, NONE, Opt, Tup, Lst, Dct, Obj, Opq, Fn, StrSort, opaque_sort, fresh_opq,
                     fresh_name)

UUID = opaque_sort("UUID")
_uuid5 = z3.Function("uuid5", UUID, StrSort, UUID)
_uuid5_inv = z3.Function("uuid5_inv_name", UUID, StrSort)
_uuid_lits = {}


def h_floor(ex, p, args, kw, node):
    p, x = ex.as_num(args[0], p, node)
    ex.trace["assumed"].add("math.floor(x) = greatest integer <= x")
    return [(p, Num(z3.ToInt(x.real()) if not x.is_int else x.t))]


def h_ceil(ex, p, args, kw, node):
    p, x = ex.as_num(args[0], p, node)
    ex.trace["assumed"].add("math.ceil(x) = least integer >= x")
    return [(p, Num(-z3.ToInt(-x.real()) if not x.is_int else x.t))]


def h_uuid_ctor(ex, p, args, kw, node):
    a = args[0] if args else None
    if isinstance(a, Str) and a.concrete:
        if a.c not in _uuid_lits:
            _uuid_lits[a.c] = z3.Const("uuid_" + a.c.replace("-", "_"), UUID)
        return [(p, Opq("UUID", _uuid_lits[a.c]))]
    return [(p, fresh_opq("UUID"))]


def h_uuid4(ex, p, args, kw, node):
    ex.trace["assumed"].add("uuid.uuid4() returns some UUID (nothing assumed about its value)")
    return [(p, Opq("UUID", ex.fresh_sym(UUID, "uuid4", node)))]


def h_uuid5(ex, p, args, kw, node):
    ns, name = args
    ex.trace["assumed"].add("uuid.uuid5(ns, name) is a function of (ns, name), injective in name (collision-free)")
    from .values import register_injective
    register_injective(_uuid5, [1])
    return [(p, Opq("UUID", _uuid5(ns.t, name.t)))]


def h_namespace_dns(ex, p, args, kw, node):
    return [(p, Opq("UUID", z3.Const("uuid_NAMESPACE_DNS", UUID)))]


def h_now(ex, p, args, kw, node):
    ex.trace["assumed"].add("datetime.now() returns some datetime (nothing assumed about its value)")
    from .values import opaque_sort
    return [(p, Opq("DateTime", ex.fresh_sym(opaque_sort("DateTime"), "now", node)))]


def _np_zeros(ex, p, args, kw, node):
    from .calls import np_zeros
    return np_zeros(ex, p, args, kw, node)


def _pairs(ex, p, args, kw, node):
    from .loops import pairs_handler
    return pairs_handler(ex, p, args, kw, node)


def h_product(ex, p, args, kw, node):
    seqs = [ex.as_list(a, p, node) for a in args]
    if not all(q.concrete for q in seqs):
        raise Unsupported("itertools.product over symbolic-length sequences (bounded check: concrete sizes only)")
    import itertools as _it
    ex.trace["assumed"].add("itertools.product enumerates every combination in lexicographic order")
    return [(p, Lst(items=[Tup(list(c)) for c in _it.product(*[q.items for q in seqs])]))]


STDLIB = {
    "itertools.product": h_product,
    "itertools.combinations": _pairs,
    "numpy.zeros": _np_zeros,
    "datetime.datetime.now": h_now,
    "uuid.NAMESPACE_DNS": h_namespace_dns,
    "math.floor": h_floor, "math.ceil": h_ceil,
    "uuid.UUID": h_uuid_ctor, "uuid.uuid4": h_uuid4, "uuid.uuid5": h_uuid5,
}
