"""Frontend: reads the *text* of /repo/src/soundevent/**.py on every run.

Nothing from the repository is imported here (this runs under python3-vt, which
does not have the repo's dependencies).  Functions and classes are located in
the module ASTs; names are resolved through each module's import table, and
re-exports (``from soundevent.data.geometries import TimeInterval`` in a package
``__init__``) are followed to the defining module.
"""
from __future__ import annotations

import ast
import hashlib
import os

REPO_ROOT = os.environ.get("VERIF_REPO", "/repo")
SRC_ROOT = os.path.join(REPO_ROOT, "src")


class Unsupported(Exception):
    """The construct is outside the verified subset (=> obligations UNDECIDED)."""


class Module:
    def __init__(self, name: str, path: str, text: str | None = None):
        self.name = name
        self.path = path
        self.text = text if text is not None else open(path, encoding="utf-8").read()
        self.tree = ast.parse(self.text, filename=path)
        self.is_pkg = os.path.basename(path) == "__init__.py"
        self.imports: dict[str, str] = {}  # local name -> qualified name
        self.defs: dict[str, ast.AST] = {}  # top-level FunctionDef / ClassDef / Assign value
        self.assigns: dict[str, ast.AST] = {}
        self._scan()

    def _pkg(self) -> str:
        return self.name if self.is_pkg else self.name.rpartition(".")[0]

    def _scan(self):
        for st in self.tree.body:
            self._scan_stmt(st)

    def _scan_stmt(self, st):
        if isinstance(st, ast.Import):
            for a in st.names:
                if a.asname:
                    self.imports[a.asname] = a.name
                else:
                    top = a.name.split(".")[0]
                    self.imports[top] = top
        elif isinstance(st, ast.ImportFrom):
            base = st.module or ""
            if st.level:
                pkg = self._pkg().split(".")
                if st.level > 1:
                    pkg = pkg[: -(st.level - 1)]
                base = ".".join(pkg + ([st.module] if st.module else []))
            for a in st.names:
                if a.name == "*":
                    self.imports.setdefault("*", "")
                    self.imports["*" + base] = base
                    continue
                self.imports[a.asname or a.name] = base + "." + a.name
        elif isinstance(st, ast.FunctionDef):
            # keep the *last* non-overload definition (typing.overload stubs are dropped)
            if any(isinstance(d, ast.Name) and d.id == "overload" for d in st.decorator_list):
                return
            self.defs[st.name] = st
        elif isinstance(st, ast.ClassDef):
            self.defs[st.name] = st
        elif isinstance(st, ast.Assign):
            for t in st.targets:
                if isinstance(t, ast.Name):
                    self.assigns[t.id] = st.value
        elif isinstance(st, ast.AnnAssign):
            if isinstance(st.target, ast.Name) and st.value is not None:
                self.assigns[st.target.id] = st.value
        elif isinstance(st, (ast.If, ast.Try)):
            for sub in st.body:
                self._scan_stmt(sub)


class Repo:
    """Module table over the source tree (plus any sidecar modules added by path)."""

    def __init__(self, src_root: str = SRC_ROOT):
        self.src_root = src_root
        self.modules: dict[str, Module] = {}
        self.extra_paths: dict[str, str] = {}

    # -- loading -----------------------------------------------------------------
    def add_module_path(self, name: str, path: str):
        self.extra_paths[name] = path

    def _find(self, name: str) -> str | None:
        if name in self.extra_paths:
            return self.extra_paths[name]
        rel = name.replace(".", "/")
        for cand in (rel + ".py", rel + "/__init__.py"):
            p = os.path.join(self.src_root, cand)
            if os.path.isfile(p):
                return p
        return None

    def module(self, name: str) -> Module | None:
        if name in self.modules:
            return self.modules[name]
        p = self._find(name)
        if p is None:
            return None
        m = Module(name, p)
        self.modules[name] = m
        return m

    def is_repo_module(self, name: str) -> bool:
        return self.module(name) is not None

    # -- resolution ----------------------------------------------------------------
    def resolve(self, qual: str, _depth=0):
        """Resolve a dotted qualified name.

        Returns one of
          ("func", module, FunctionDef, qual)   ("class", module, ClassDef, qual)
          ("value", module, expr-node, qual)    ("module", module, None, qual)
          ("external", None, None, qual)
          ("member", (kind, module, node, qual), [rest...])  -- attribute path below a def
        """
        if _depth > 20:
            raise Unsupported(f"import cycle resolving {qual}")
        parts = qual.split(".")
        # longest module prefix
        for k in range(len(parts), 0, -1):
            mname = ".".join(parts[:k])
            m = self.module(mname)
            if m is None:
                continue
            rest = parts[k:]
            if not rest:
                return ("module", m, None, mname)
            head = rest[0]
            if head in m.defs:
                node = m.defs[head]
                kind = "class" if isinstance(node, ast.ClassDef) else "func"
                base = (kind, m, node, mname + "." + head)
                return base if len(rest) == 1 else ("member", base, rest[1:])
            if head in m.assigns:
                base = ("value", m, m.assigns[head], mname + "." + head)
                return base if len(rest) == 1 else ("member", base, rest[1:])
            if head in m.imports:
                return self.resolve(".".join([m.imports[head]] + rest[1:]), _depth + 1)
            for key, base_mod in m.imports.items():
                if key.startswith("*") and key != "*":
                    r = self.resolve(".".join([base_mod] + rest), _depth + 1)
                    if r[0] != "external":
                        return r
            # submodule?
            sub = self.module(mname + "." + head)
            if sub is not None:
                continue
            return ("external", None, None, qual)
        return ("external", None, None, qual)

    def qualify(self, module: Module, node: ast.AST) -> str | None:
        """Dotted qualified name for a Name / Attribute chain seen in `module`, or None."""
        parts = []
        cur = node
        while isinstance(cur, ast.Attribute):
            parts.append(cur.attr)
            cur = cur.value
        if not isinstance(cur, ast.Name):
            return None
        parts.append(cur.id)
        parts.reverse()
        head = parts[0]
        if head in module.defs or head in module.assigns:
            return ".".join([module.name] + parts)
        if head in module.imports:
            return ".".join([module.imports[head]] + parts[1:])
        return None

    # -- lookups -------------------------------------------------------------------
    def function(self, spec: str):
        """spec = 'pkg.module:func' or 'pkg.module:Class.method' -> (module, FunctionDef, ClassDef|None)"""
        mname, _, q = spec.partition(":")
        m = self.module(mname)
        if m is None:
            raise Unsupported(f"no module {mname}")
        parts = q.split(".")
        node = m.defs.get(parts[0])
        if node is None:
            raise Unsupported(f"no definition {spec}")
        cls = None
        for p in parts[1:]:
            cls = node
            node = next(
                (n for n in node.body if isinstance(n, (ast.FunctionDef, ast.ClassDef)) and n.name == p),
                None,
            )
            if node is None:
                raise Unsupported(f"no definition {spec}")
        return m, node, cls

    def class_def(self, qual: str):
        r = self.resolve(qual)
        if r[0] != "class":
            raise Unsupported(f"{qual} is not a repo class ({r[0]})")
        return r[1], r[2], r[3]

    def class_bases(self, module: Module, cls: ast.ClassDef):
        """Resolved repo base classes, in MRO-ish (left to right, depth first) order."""
        out = []
        for b in cls.bases:
            if isinstance(b, ast.Subscript):   # Generic[...] style base: DataAdapter[A, B, C, D]
                b = b.value
            q = self.qualify(module, b)
            if q is None:
                continue
            r = self.resolve(q)
            if r[0] == "class":
                out.append((r[1], r[2], r[3]))
        return out

    def mro(self, qual: str):
        """Linearised list [(module, ClassDef, qual)] self first (simple DFS; no diamonds in the repo)."""
        m, c, q = self.class_def(qual)
        seen, out = set(), []

        def go(m, c, q):
            if q in seen:
                return
            seen.add(q)
            out.append((m, c, q))
            for bm, bc, bq in self.class_bases(m, c):
                go(bm, bc, bq)

        go(m, c, q)
        return out

    def find_method(self, qual: str, name: str, skip_first=False):
        for i, (m, c, q) in enumerate(self.mro(qual)):
            if skip_first and i == 0:
                continue
            for n in c.body:
                if isinstance(n, ast.FunctionDef) and n.name == name:
                    return m, n, c, q
        return None

    def class_fields(self, qual: str):
        """Declared (annotated) fields of a pydantic / dataclass-like class, base classes first.

        Returns list of dicts: name, ann (AST), default (AST|None), factory (AST|None),
        required(bool), bounds {ge,gt,le,lt -> AST}, alias, module.
        """
        fields: dict[str, dict] = {}
        for m, c, q in reversed(self.mro(qual)):
            for st in c.body:
                if not isinstance(st, ast.AnnAssign) or not isinstance(st.target, ast.Name):
                    continue
                name = st.target.id
                if name.startswith("model_config") or name.startswith("_"):
                    continue
                f = dict(name=name, ann=st.annotation, default=None, factory=None, required=True,
                         bounds={}, alias=None, module=m, owner=q)
                v = st.value
                if v is not None:
                    if isinstance(v, ast.Call) and self._is_field_call(m, v):
                        pos = v.args[0] if v.args else None
                        kw = {k.arg: k.value for k in v.keywords}
                        if pos is not None and not (isinstance(pos, ast.Constant) and pos.value is Ellipsis):
                            f["default"], f["required"] = pos, False
                        if "default" in kw and not (isinstance(kw["default"], ast.Constant) and kw["default"].value is Ellipsis):
                            f["default"], f["required"] = kw["default"], False
                        if "default_factory" in kw:
                            f["factory"], f["required"] = kw["default_factory"], False
                        for b in ("ge", "gt", "le", "lt"):
                            if b in kw:
                                f["bounds"][b] = kw[b]
                        for a in ("alias", "validation_alias"):
                            if a in kw:
                                f["alias"] = kw[a]
                    else:
                        f["default"], f["required"] = v, False
                fields[name] = f
        return list(fields.values())

    def _is_field_call(self, m: Module, call: ast.Call) -> bool:
        q = self.qualify(m, call.func)
        return q is not None and q.endswith(".Field")

    def class_validators(self, qual: str):
        """pydantic validators in definition order, base classes first.
        -> list of dict(kind='field'|'model', fields=[...], mode, node, module, owner)"""
        out = []
        for m, c, q in reversed(self.mro(qual)):
            for st in c.body:
                if not isinstance(st, ast.FunctionDef):
                    continue
                for d in st.decorator_list:
                    fn = d.func if isinstance(d, ast.Call) else d
                    name = fn.id if isinstance(fn, ast.Name) else (fn.attr if isinstance(fn, ast.Attribute) else None)
                    if name == "field_validator" and isinstance(d, ast.Call):
                        flds = [a.value for a in d.args if isinstance(a, ast.Constant)]
                        mode = "after"
                        for k in d.keywords:
                            if k.arg == "mode" and isinstance(k.value, ast.Constant):
                                mode = k.value.value
                        out.append(dict(kind="field", fields=flds, mode=mode, node=st, module=m, owner=q))
                    elif name == "model_validator" and isinstance(d, ast.Call):
                        mode = "after"
                        for k in d.keywords:
                            if k.arg == "mode" and isinstance(k.value, ast.Constant):
                                mode = k.value.value
                        out.append(dict(kind="model", fields=[], mode=mode, node=st, module=m, owner=q))
        return out


def source_hash(module: Module, node: ast.AST) -> str:
    seg = ast.get_source_segment(module.text, node) or ast.unparse(node)
    return hashlib.sha256(seg.encode()).hexdigest()[:16]


def strip_docstring(body):
    if body and isinstance(body[0], ast.Expr) and isinstance(body[0].value, ast.Constant) and isinstance(body[0].value.value, str):
        return body[1:]
    return body
