"""Discharging obligations: z3 (Python API) first, cvc5 for z3's `unknown`s and (thorough tier)
as a cross-check of every `unsat`.  Queries travel to worker processes as SMT-LIB text."""
from __future__ import annotations

import multiprocessing as mp
import os
import subprocess
import tempfile
import time

import z3

CVC5_BIN = "/usr/bin/cvc5"


def to_smt2(assertions) -> str:
    s = z3.Solver()
    for a in assertions:
        s.add(a)
    return s.to_smt2()


def _z3_check(smt2: str, timeout_ms: int):
    z3.set_param("timeout", timeout_ms)
    s = z3.Solver()
    s.set("timeout", timeout_ms)
    t0 = time.time()
    try:
        s.from_string(smt2)
        r = str(s.check())
        reason = s.reason_unknown() if r == "unknown" else ""
    except z3.Z3Exception as e:  # pragma: no cover
        r, reason = "error", str(e)
    return r, time.time() - t0, reason


def _cvc5_check(smt2: str, timeout_ms: int):
    t0 = time.time()
    text = smt2
    if "(set-logic" not in text:
        text = "(set-logic ALL)\n" + text
    text = text.replace("(check-sat)", "(check-sat)\n")
    with tempfile.NamedTemporaryFile("w", suffix=".smt2", delete=False, dir=os.environ.get("VERIF_TMP") or None) as f:
        f.write(text)
        path = f.name
    try:
        out = subprocess.run([CVC5_BIN, "--lang=smt2", f"--tlimit={timeout_ms}", "--enum-inst", "--nl-ext-tplanes", path],
                             capture_output=True, text=True, timeout=timeout_ms / 1000 + 10)
        first = (out.stdout.strip().splitlines() or ["error"])[0].strip()
        r = first if first in ("sat", "unsat", "unknown") else "error"
        reason = (out.stdout + out.stderr)[-300:] if r in ("error", "unknown") else ""
    except subprocess.TimeoutExpired:
        r, reason = "unknown", "cvc5 timeout"
    except FileNotFoundError:
        r, reason = "error", "cvc5 binary missing"
    finally:
        try:
            os.unlink(path)
        except OSError:
            pass
    return r, time.time() - t0, reason


def _work(job):
    idx, smt2, timeout_ms, cross = job
    r, dt, reason = _z3_check(smt2, timeout_ms)
    backend = "z3"
    log = [("z3", r, round(dt, 3))]
    if r in ("unknown", "error"):
        r2, dt2, reason2 = _cvc5_check(smt2, timeout_ms)
        log.append(("cvc5", r2, round(dt2, 3)))
        if r2 in ("sat", "unsat"):
            r, backend, reason = r2, "cvc5", ""
        dt += dt2
    elif cross and r == "unsat":
        r2, dt2, reason2 = _cvc5_check(smt2, timeout_ms)
        log.append(("cvc5", r2, round(dt2, 3)))
        dt += dt2
        if r2 == "sat":
            r, reason = "disagree", "z3 unsat, cvc5 sat"
        elif r2 == "unsat":
            backend = "z3+cvc5"
    return idx, r, backend, round(dt, 3), reason, log


def discharge(queries, timeout_ms=20000, procs=None, cross=False):
    """queries: list of SMT2 strings -> list of dicts(result, backend, time_s, reason, log) in order."""
    procs = procs or min(16, os.cpu_count() or 4)
    jobs = [(i, q, timeout_ms, cross) for i, q in enumerate(queries)]
    results = [None] * len(jobs)
    if not jobs:
        return results
    if procs == 1 or len(jobs) == 1:
        outs = map(_work, jobs)
    else:
        ctx = mp.get_context("fork")
        pool = ctx.Pool(min(procs, len(jobs)))
        try:
            outs = pool.map(_work, jobs, chunksize=1)
        finally:
            pool.close()
            pool.join()
    for idx, r, backend, dt, reason, log in outs:
        results[idx] = dict(result=r, backend=backend, time_s=dt, reason=reason, log=log)
    return results


def solve_model(assertions, timeout_ms=20000):
    """Re-solve in-process to obtain a model (used only after an obligation failed)."""
    s = z3.Solver()
    s.set("timeout", timeout_ms)
    for a in assertions:
        s.add(a)
    r = s.check()
    return (s.model() if r == z3.sat else None), str(r)
