"""Discharging obligations: z3 (Python API) first, cvc5 for z3's `unknown`s and (thorough tier)
as a cross-check of every `unsat`.  Queries travel to worker processes as SMT-LIB text."""
from __future__ import annotations

import multiprocessing as mp
import os
import subprocess
import tempfile
import time

import z3

CVC5_BIN = "/usr/bin/cvc5"


def to_smt2(assertions) -> str:
    s = z3.Solver()
    for a in assertions:
        s.add(a)
    return s.to_smt2()


def _z3_check(smt2: str, timeout_ms: int):
    z3.set_param("timeout", timeout_ms)
    s = z3.Solver()
    s.set("timeout", timeout_ms)
    t0 = time.time()
    try:
        s.from_string(smt2)
        r = str(s.check())
        reason = s.reason_unknown() if r == "unknown" else ""
    except z3.Z3Exception as e:  # pragma: no cover
        r, reason = "error", str(e)
    return r, time.time() - t0, reason


def _cvc5_check(smt2: str, timeout_ms: int):
    t0 = time.time()
    text = smt2
    if "(set-logic" not in text:
        text = "(set-logic ALL)\n" + text
    text = text.replace("(check-sat)", "(check-sat)\n")
    with tempfile.NamedTemporaryFile("w", suffix=".smt2", delete=False, dir=os.environ.get("VERIF_TMP") or None) as f:
        f.write(text)
        path = f.name
    try:
        out = subprocess.run([CVC5_BIN, "--lang=smt2", f"--tlimit={timeout_ms}", "--enum-inst", "--nl-ext-tplanes", path],
                             capture_output=True, text=True, timeout=timeout_ms / 1000 + 10)
        first = (out.stdout.strip().splitlines() or ["error"])[0].strip()
        r = first if first in ("sat", "unsat", "unknown") else ("unknown" if "interrupted" in (out.stdout + out.stderr) or "timeout" in (out.stdout + out.stderr) else "error")
        reason = (out.stdout + out.stderr)[-300:] if r in ("error", "unknown") else ""
    except subprocess.TimeoutExpired:
        r, reason = "unknown", "cvc5 timeout"
    except FileNotFoundError:
        r, reason = "error", "cvc5 binary missing"
    finally:
        try:
            os.unlink(path)
        except OSError:
            pass
    return r, time.time() - t0, reason


Z3_OLD_BIN = "/usr/bin/z3"


def _z3cli_check(smt2: str, timeout_ms: int):
    """z3 4.8.12 (Debian CLI): a different version of the same solver; it decides some nonlinear / quantified
    queries that z3 5.1 leaves open (and vice versa)"""
    t0 = time.time()
    with tempfile.NamedTemporaryFile("w", suffix=".smt2", delete=False, dir=os.environ.get("VERIF_TMP") or None) as f:
        f.write(smt2)
        path = f.name
    try:
        out = subprocess.run([Z3_OLD_BIN, f"-T:{max(1, timeout_ms // 1000)}", path], capture_output=True, text=True,
                             timeout=timeout_ms / 1000 + 10)
        first = (out.stdout.strip().splitlines() or ["error"])[0].strip()
        r = first if first in ("sat", "unsat", "unknown") else ("unknown" if "timeout" in out.stdout else "error")
        reason = out.stdout[-200:] if r != "unsat" and r != "sat" else ""
    except subprocess.TimeoutExpired:
        r, reason = "unknown", "z3-4.8 timeout"
    except FileNotFoundError:
        r, reason = "error", "z3 binary missing"
    finally:
        try:
            os.unlink(path)
        except OSError:
            pass
    return r, time.time() - t0, reason


def _work(job):
    idx, smt2, timeout_ms, cross, use_cvc5 = job
    # portfolio: z3 briefly, then cvc5, then z3 with the full budget
    first = min(timeout_ms, 4000) if use_cvc5 else timeout_ms
    r, dt, reason = _z3_check(smt2, first)
    backend = "z3"
    log = [("z3", r, round(dt, 3))]
    if r in ("unknown", "error") and use_cvc5:
        r0, dt0, reason0 = _z3cli_check(smt2, timeout_ms)
        log.append(("z3-4.8.12", r0, round(dt0, 3)))
        dt += dt0
        if r0 in ("sat", "unsat"):
            r, backend, reason = r0, "z3-4.8.12", ""
    if r in ("unknown", "error") and use_cvc5:
        r2, dt2, reason2 = _cvc5_check(smt2, timeout_ms)
        log.append(("cvc5", r2, round(dt2, 3)))
        dt += dt2
        if r2 in ("sat", "unsat"):
            r, backend, reason = r2, "cvc5", ""
        elif first < timeout_ms:
            r3, dt3, reason3 = _z3_check(smt2, timeout_ms)
            log.append(("z3", r3, round(dt3, 3)))
            dt += dt3
            if r3 in ("sat", "unsat"):
                r, reason = r3, ""
            else:
                reason = reason3 or reason
    elif cross and r == "unsat":
        r2, dt2, reason2 = _cvc5_check(smt2, timeout_ms)
        log.append(("cvc5", r2, round(dt2, 3)))
        dt += dt2
        if r2 == "sat":
            r, reason = "disagree", "z3 unsat, cvc5 sat"
        elif r2 == "unsat":
            backend = "z3+cvc5"
    return idx, r, backend, round(dt, 3), reason, log


def discharge(queries, timeout_ms=20000, procs=None, cross=False, cvc5=True):
    """queries: list of SMT2 strings -> list of dicts(result, backend, time_s, reason, log) in order."""
    procs = procs or min(16, os.cpu_count() or 4)
    tms = timeout_ms if isinstance(timeout_ms, (list, tuple)) else [timeout_ms] * len(queries)
    jobs = [(i, q, tms[i], cross, cvc5) for i, q in enumerate(queries)]
    results = [None] * len(jobs)
    if not jobs:
        return results
    if procs == 1 or len(jobs) == 1:
        outs = map(_work, jobs)
    else:
        ctx = mp.get_context("fork")
        pool = ctx.Pool(min(procs, len(jobs)))
        try:
            outs = pool.map(_work, jobs, chunksize=1)
        finally:
            pool.close()
            pool.join()
    for idx, r, backend, dt, reason, log in outs:
        results[idx] = dict(result=r, backend=backend, time_s=dt, reason=reason, log=log)
    return results


def solve_model(assertions, timeout_ms=20000):
    """Re-solve in-process to obtain a model (used only after an obligation failed)."""
    s = z3.Solver()
    s.set("timeout", timeout_ms)
    for a in assertions:
        s.add(a)
    r = s.check()
    return (s.model() if r == z3.sat else None), str(r)


# ----------------------------------------------------------------------------- bounded expansion
def _is_var0(t):
    return z3.is_var(t) and z3.get_var_index(t) == 0


def _range_of(guard):
    """lo, hi from a guard And(var >= lo, var < hi, ...) over de Bruijn var 0 (None if not of that shape)."""
    conj = guard.children() if z3.is_and(guard) else [guard]
    lo = hi = None
    for c in conj:
        if z3.is_app(c) and c.num_args() == 2:
            a, b = c.arg(0), c.arg(1)
            k = c.decl().kind()
            if k == z3.Z3_OP_GE and _is_var0(a):
                lo = b
            elif k == z3.Z3_OP_LE and _is_var0(b):
                lo = a
            elif k == z3.Z3_OP_LT and _is_var0(a):
                hi = b
            elif k == z3.Z3_OP_GT and _is_var0(b):
                hi = a
    return lo, hi


def _has_var(t, depth=0):
    stack = [t]
    seen = set()
    while stack:
        x = stack.pop()
        if x.get_id() in seen:
            continue
        seen.add(x.get_id())
        if z3.is_var(x):
            return True
        if z3.is_quantifier(x):
            stack.append(x.body())
        else:
            stack.extend(x.children())
    return False


def bounded_expand(assertions, B):
    """Replace every index quantifier  Q i. lo <= i < hi (=> | and) body  by its B instances
    i = lo .. lo+B-1 and add the side constraints hi - lo <= B.  The result implies the original
    conjunction, so `sat` of the result is a genuine `sat` (used for counterexamples and covers);
    `unsat` of the result says nothing."""
    side = []
    memo = {}   # shared sub-terms are expanded once (every walked term is closed; the cached results keep the keys' ASTs alive)

    def walk(e):
        k_ = e.get_id()
        if k_ not in memo:
            memo[k_] = (e, walk_(e))
        return memo[k_][1]

    def walk_(e):
        if z3.is_quantifier(e):
            if e.num_vars() == 1 and e.var_sort(0) == z3.IntSort():
                body = e.body()
                guard = None
                if e.is_forall() and z3.is_implies(body):
                    guard = body.arg(0)
                elif e.is_exists() and z3.is_and(body):
                    guard = body
                if guard is not None:
                    lo, hi = _range_of(guard)
                    if lo is not None and hi is not None and not _has_var(lo) and not _has_var(hi):
                        side.append(hi - lo <= B)
                        insts = [walk(z3.substitute_vars(body, lo + k)) for k in range(B)]
                        return z3.And(insts) if e.is_forall() else z3.Or(insts)
            return e
        if z3.is_app(e) and e.num_args() > 0:
            kids = [walk(c) for c in e.children()]
            return e.decl()(*kids)
        return e

    out = [walk(a) for a in assertions]
    return out + side
