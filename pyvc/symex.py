"""Forward symbolic execution of one Python function (real source AST) -> paths + outcomes.

See DESIGN.md section 3.  One `Exec` executes one function body (or one contract
predicate); calls are resolved through the module's import table to handlers
(contracts, assumed contracts, modelled builtins) or inlined repo helpers.
"""
from __future__ import annotations

import ast
import math
from fractions import Fraction

import z3

from .repo import Repo, Module, Unsupported, strip_docstring
from .values import (V, Num, Bool, Str, NoneV, NONE, Opt, Tup, Lst, Dct, SetV, SetL, DctL, NDArr, Ref, Obj, Opq, Fn, ExcV, ModV,
                     truth, is_none, strip_opt, ite, eq, num_pair, fresh_int, fresh_real, fresh_bool,
                     fresh_name, str_lit)


ASSUMED: set[int] = set()  # ids of path-condition conjuncts that are *assumptions* (callee postconditions,
# defining facts of fresh symbols) rather than branch decisions


def is_assumed(c) -> bool:
    return c.get_id() in ASSUMED


class Path:
    __slots__ = ("cond", "env", "yields", "heap")

    def __init__(self, cond=(), env=None, yields=None, heap=None):
        self.cond = list(cond)
        self.env = dict(env or {})
        self.yields = yields  # None, or a list-accumulator Value for generator functions
        self.heap = heap

    def fork(self, *extra):
        p = Path(self.cond, self.env, self.yields, self.heap)
        for e in extra:
            if e is not None and not z3.is_true(e):
                p.cond.append(e)
        return p

    def assume(self, *facts):
        p = Path(self.cond, self.env, self.yields, self.heap)
        for e in facts:
            if e is not None and not z3.is_true(e):
                e = z3.And(e, z3.BoolVal(True))  # a distinct AST: branch decisions with the same text stay branch decisions
                ASSUMED.add(e.get_id())
                _KEEP.append(e)
                p.cond.append(e)
        return p

    def bind(self, name, val):
        p = Path(self.cond, self.env, self.yields, self.heap)
        p.env[name] = val
        return p

    def with_heap(self, heap):
        return Path(self.cond, self.env, self.yields, heap)

    def heap_set(self, ident, attr, val):
        heap = dict(self.heap or {})
        obj = dict(heap.get(ident, {}))
        obj[attr] = val
        heap[ident] = obj
        return self.with_heap(heap)


_KEEP = []  # keeps assumed ASTs alive so ids stay unique


class Outcome:
    __slots__ = ("kind", "cond", "val", "exc", "line", "yields", "env", "heap")

    def __init__(self, kind, cond, val=None, exc=None, line=None, yields=None, env=None, heap=None):
        self.kind, self.cond, self.val, self.exc, self.line, self.yields, self.env = kind, list(cond), val, exc, line, yields, env
        self.heap = heap

    def __repr__(self):
        return f"Outcome({self.kind}, exc={self.exc}, line={self.line})"


class LoopExit(Exception):
    pass


ARITH = {ast.Add: "+", ast.Sub: "-", ast.Mult: "*", ast.Div: "/", ast.FloorDiv: "//", ast.Mod: "%", ast.Pow: "**"}


class Exec:
    """Executes statements of `module` symbolically.

    handlers: dict qualified-name -> callable(ex, path, args, kwargs, node) -> [(path, value)]
    inline:   set of qualified names of repo functions whose real body is executed in place
    """

    def __init__(self, repo: Repo, module: Module, handlers=None, inline=None, mode="R",
                 implicit_exc=True, feas_timeout_ms=300, bg=None, numeric=None, trace=None):
        self.repo = repo
        self.module = module
        self.handlers = handlers or {}
        self.inline = inline or set()
        self.mode = mode
        self.implicit_exc = implicit_exc
        self.outcomes: list[Outcome] = []
        self.side: list[tuple[str, list, object]] = []  # call-pre obligations (label, cond, goal)
        self.bg = bg if bg is not None else []  # background axioms (well-formedness, defining axioms)
        self.feas_timeout_ms = feas_timeout_ms
        self.numeric = numeric  # float-mode object (see floats.py) or None for mode R
        self.trace = trace if trace is not None else {"inlined": set(), "handlers": set(), "assumed": set()}
        self.inline_prefixes = ()
        self.replay = False
        self.outer_ids = None   # ids of the path conditions at the entry of the outermost enclosing loop / comprehension
        self._bg_keys = set()
        self.index_ctx = []   # enclosing loop indices (z3 Int terms): fresh symbols become functions of them
        self.loop_tag = ()
        self.depth = 0
        self.guard_base = 0   # number of leading path conditions that are hypotheses of the whole run (see props/aoef_rt.guard_of)

    def child(self, module=None):
        c = Exec(self.repo, module or self.module, self.handlers, self.inline, self.mode, self.implicit_exc,
                 self.feas_timeout_ms, self.bg, self.numeric, self.trace)
        c.depth = self.depth + 1
        c.index_ctx = list(self.index_ctx)
        c.loop_tag = self.loop_tag
        c.inline_prefixes = self.inline_prefixes
        c.replay = self.replay
        c.outer_ids = self.outer_ids
        c._bg_keys = self._bg_keys
        c.guard_base = self.guard_base
        return c

    def enter_iteration(self, sub, p):
        """mark `sub` as executing one iteration of a loop / comprehension entered on path p"""
        if sub.outer_ids is None:
            self.trace.setdefault("_keep", []).append(list(p.cond))   # ids stay unique only while the ASTs are alive
            sub.outer_ids = frozenset(c.get_id() for c in p.cond)
        return sub

    def event_path(self, p):
        """path identity for ghost events: inside an iteration, the path on which the loop was entered"""
        if self.outer_ids is not None:
            return self.outer_ids
        self.trace.setdefault("_keep", []).append(list(p.cond))
        return frozenset(c.get_id() for c in p.cond)

    def fresh_sym(self, sort, prefix, node=None):
        """A fresh symbol; inside a summarised loop body a function of the loop indices, named after the
        call site so that re-executing the body at another index refers to the same function."""
        if not self.index_ctx:
            return z3.Const(fresh_name(prefix), sort)
        site = f"{getattr(node, 'lineno', 0)}_{getattr(node, 'col_offset', 0)}" if node is not None else "x"
        name = f"{prefix}@{site}#{'_'.join(map(str, self.loop_tag))}"
        f = z3.Function(name, *[z3.IntSort()] * len(self.index_ctx), sort)
        return f(*self.index_ctx)

    def bg_local(self, p, facts, guard=None):
        """Defining axioms of fresh symbols (definitional extension; guarded so they are always satisfiable).
        Inside a summarised loop body the fresh symbols are functions of the loop indices and the body is
        re-executed at arbitrary index terms (also under quantifiers), so the axioms are stated for ALL index values."""
        f = z3.And(*facts) if len(facts) != 1 else facts[0]
        if guard is not None:
            f = z3.Implies(guard, f)
        # Generalise only over genuine index variables, and only where the fresh symbols (functions of the VALUES of the index
        # terms) determine them: the index term is the variable itself or variable + offset.  Program variables that merely occur
        # inside an index term (a length, a width) are NOT generalised: two different values of them can give the same index
        # value with different requirements on the same function value, which would make the background inconsistent.
        from .values import is_index_var
        vs, seen = [], set()

        def index_vars_in(t):
            out, stack = [], [t]
            while stack:
                x = stack.pop()
                if z3.is_const(x):
                    if x.decl().kind() == z3.Z3_OP_UNINTERPRETED and x.sort() == z3.IntSort() and is_index_var(x):
                        out.append(x)
                else:
                    stack.extend(x.children())
            return out
        for t in self.index_ctx:
            ks = index_vars_in(t)
            if not ks:
                continue
            ok = z3.is_const(t)
            if not ok and z3.is_app(t) and t.decl().kind() == z3.Z3_OP_ADD:
                with_k = [c for c in t.children() if index_vars_in(c)]
                ok = len(with_k) == 1 and z3.is_const(with_k[0])
            if ok:
                for x in ks:
                    if x.get_id() not in seen:
                        seen.add(x.get_id())
                        vs.append(x)
        if vs:
            f = z3.ForAll(vs, f)
        key = f.sexpr() if len(self.bg) < 400 else None
        if key is not None:
            if key in self._bg_keys:
                return
            self._bg_keys.add(key)
        self.bg.append(f)

    # ------------------------------------------------------------------ feasibility
    def feasible(self, cond) -> bool:
        cs = [z3.simplify(c) for c in cond]
        if any(z3.is_false(c) for c in cs):
            return False
        cs = [c for c in cs if not z3.is_true(c)]
        if not cs:
            return True
        # syntactic shortcut: the newest condition (or its negation) is already on the path
        ids = {c.get_id() for c in cs[:-1]}
        last = cs[-1]
        if last.get_id() in ids:
            return True if len(cs) == 1 else self.feasible(cond[:-1])
        neg = z3.simplify(z3.Not(last))
        if neg.get_id() in ids:
            return False
        # the verdict depends on the background axioms too: key on this executor's bg (identity and current size)
        key = (id(self.bg), len(self.bg), frozenset(ids | {last.get_id()}))
        memo = self.trace.setdefault("_feas", {})
        if key in memo:
            return memo[key][0]
        r = self._feasible_solver(cs)
        memo[key] = (r, cs)     # keeping the ASTs alive keeps their ids unique (z3 recycles ids of freed ASTs)
        return r

    def _feasible_solver(self, cs):
        s = z3.Solver()
        s.set("timeout", self.feas_timeout_ms)
        for b in self.bg:
            s.add(b)
        s.add(*cs)
        from .values import str_distinct_axioms
        for a in str_distinct_axioms():
            s.add(a)
        return s.check() != z3.unsat

    # ------------------------------------------------------------------ outcomes
    def emit_raise(self, path: Path, exc: str, node=None, extra=None):
        cond = path.cond + ([extra] if extra is not None else [])
        if self.feasible(cond):
            self.outcomes.append(Outcome("raise", cond, exc=exc, line=getattr(node, "lineno", None),
                                         yields=path.yields, env=path.env, heap=path.heap))

    def implicit(self, path: Path, bad_cond, exc: str, node=None) -> Path:
        """Record an implicit exception when `bad_cond` holds; return the path where it does not."""
        bad = z3.simplify(bad_cond)
        if z3.is_false(bad):
            return path
        if self.implicit_exc:
            self.emit_raise(path, exc, node, extra=bad)
        return path.fork(z3.Not(bad))

    # ------------------------------------------------------------------ expressions
    def ev(self, node, path) -> list[tuple[Path, V]]:
        m = getattr(self, "ev_" + type(node).__name__, None)
        if m is None:
            raise Unsupported(f"{self.module.name}:{getattr(node, 'lineno', '?')}: expression {type(node).__name__}")
        return m(node, path)

    def ev_seq(self, nodes, path):
        res = [(path, [])]
        for e in nodes:
            res = [(p2, acc + [v]) for (p1, acc) in res for (p2, v) in self.ev(e, p1)]
        return res

    def const(self, v):
        if v is None:
            return NONE
        if isinstance(v, bool):
            return Bool(v)
        if isinstance(v, (int, float, Fraction)):
            return Num(v)
        if isinstance(v, str):
            return Str(v)
        if isinstance(v, (list,)):
            return Lst(items=[self.const(x) for x in v])
        if isinstance(v, tuple):
            return Tup([self.const(x) for x in v])
        raise Unsupported(f"constant {v!r}")

    def ev_Constant(self, n, p):
        return [(p, self.const(n.value))]

    def ev_JoinedStr(self, n, p):
        # f-string: only its identity as "some string" matters unless all parts are concrete
        parts = []
        for v in n.values:
            if isinstance(v, ast.Constant):
                parts.append(v.value)
            else:
                parts = None
                break
        if parts is not None:
            return [(p, Str("".join(parts)))]
        res = []
        for p1, vals in self.ev_seq([v.value for v in n.values if isinstance(v, ast.FormattedValue)], p):
            res.append((p1, self.fstring(n, vals)))
        return res

    def fstring(self, n, vals):
        # injective uninterpreted function of the template and the formatted values
        from .values import StrSort
        args = []
        for v in vals:
            v = strip_opt(v) if isinstance(v, Opt) else v
            if isinstance(v, Num):
                args.append(v.real())
            elif isinstance(v, Str):
                args.append(v.t)
            elif isinstance(v, Opq):
                args.append(v.t)
            elif isinstance(v, Bool):
                args.append(v.t)
            else:
                return Str(t=z3.Const(fresh_name("fstr"), StrSort))
        template = "".join(v.value if isinstance(v, ast.Constant) else "{}" for v in n.values)
        key = "fmt<" + template + ">" + "_".join(str(a.sort()) for a in args)
        f = z3.Function(key, *[a.sort() for a in args], StrSort)
        if key not in self.trace.setdefault("fmt_funcs", set()):
            self.trace["fmt_funcs"].add(key)
        # injectivity (assumed: distinct values format differently), ground-instantiated per query
        from .values import register_injective
        if args:
            register_injective(f)
        return Str(t=f(*args))

    def ev_Name(self, n, p):
        if n.id in p.env:
            v = p.env[n.id]
            if type(v).__name__ == "Poison":
                raise Unsupported(f"{self.module.name}:{n.lineno}: loop temporary {n.id} used outside its iteration")
            if isinstance(v, Opt) and p.cond:
                # narrowing: on a path that already decided `v is not None`, the name denotes the payload
                notnone = z3.Not(v.isnone).get_id()
                if any(c.get_id() == notnone for c in p.cond):
                    return [(p, v.val)]
            return [(p, v)]
        return [(p, self.global_name(n.id, n))]

    def global_name(self, name, node):
        if name in ("True", "False"):
            return Bool(name == "True")
        m = self.module
        if name in m.defs:
            d = m.defs[name]
            q = m.name + "." + name
            return Fn("class" if isinstance(d, ast.ClassDef) else "repo", q)
        if name in m.assigns:
            return self.module_constant(m, m.assigns[name], m.name + "." + name)
        if name in m.imports:
            return self.qual_value(m.imports[name], node)
        if name in BUILTIN_NAMES:
            return Fn("builtin", name)
        if name in BUILTIN_EXC:
            return Fn("exc", name)
        raise Unsupported(f"{m.name}:{getattr(node, 'lineno', '?')}: unknown name {name}")

    def qual_value(self, qual, node=None):
        if qual in self.handlers:
            if qual in CONSTANT_HANDLERS:
                return self.handlers[qual](self, Path(), [], {}, node)[0][1]
            return Fn("handler", qual)
        r = self.repo.resolve(qual)
        kind = r[0]
        if kind == "func":
            return Fn("repo", r[3])
        if kind == "class":
            return Fn("class", r[3])
        if kind == "module":
            return ModV(r[3])
        if kind == "value":
            return self.module_constant(r[1], r[2], r[3])
        if kind == "member":
            base, rest = r[1], r[2]
            if base[0] == "class":
                # enum members / class-level constants: Cls.member(.value) -> the assigned constant
                cdef = base[2]
                for st in cdef.body:
                    if isinstance(st, ast.Assign) and isinstance(st.targets[0], ast.Name) and st.targets[0].id == rest[0] \
                            and isinstance(st.value, ast.Constant) and (len(rest) == 1 or list(rest[1:]) == ["value"]):
                        return self.const(st.value.value)
                return Fn("classattr", (base[3], tuple(rest)))
            if base[0] == "value":
                val = self.module_constant(base[1], base[2], base[3])
                for attr in rest:
                    r = self.getattr(val, attr, Path(), node)
                    if len(r) != 1:
                        raise Unsupported(f"member {qual} forks")
                    val = r[0][1]
                return val
            raise Unsupported(f"member {qual}")
        # external
        if qual in EXTERNAL_CONSTS:
            return self.const(EXTERNAL_CONSTS[qual])
        return ModV(qual)

    def module_constant(self, m: Module, expr, qual):
        if qual in self.handlers:  # a constant overridden by a model (e.g. a term object)
            return self.handlers[qual](self, None, [], {}, expr)
        sub = Exec(self.repo, m, self.handlers, self.inline, self.mode, False, self.feas_timeout_ms, self.bg,
                   self.numeric, self.trace)
        res = sub.ev(expr, Path())
        if len(res) != 1:
            raise Unsupported(f"module constant {qual} forks")
        return res[0][1]

    def ev_Attribute(self, n, p):
        # qualified global?
        q = self.repo.qualify(self.module, n)
        if q is not None and not self._shadowed(n, p):
            return [(p, self.qual_value(q, n))]
        out = []
        for p1, base in self.ev(n.value, p):
            out += self.getattr(base, n.attr, p1, n)
        return out

    def _shadowed(self, n, p):
        cur = n
        while isinstance(cur, ast.Attribute):
            cur = cur.value
        return isinstance(cur, ast.Name) and cur.id in p.env

    def getattr(self, base, attr, p, node):
        if isinstance(base, Opt):
            p = self.implicit(p, base.isnone, "AttributeError", node)
            base = base.val
        if isinstance(base, ModV):
            return [(p, self.qual_value(base.qual + "." + attr, node))]
        if isinstance(base, Ref):
            fields = (p.heap or {}).get(base.ident, {})
            if attr in fields:
                return [(p, fields[attr])]
            key = f"method:{base.cls}.{attr}"
            if key in self.handlers:
                return [(p, Fn("handler-method", (key, base)))]
            found = self.repo.find_method(base.cls, attr)
            if found is not None:
                fm, fnode, fcls, fq = found
                if any(isinstance(d, ast.Name) and d.id == "property" for d in fnode.decorator_list):
                    return self.call_repo_function(fm, fnode, [base], {}, p, qual=fq + "." + attr, cls=fq)
                return [(p, Fn("bound", (base, fm, fnode, fq + "." + attr)))]
            raise Unsupported(f"{self.module.name}:{node.lineno}: attribute {attr} of {base.cls} instance")
        if isinstance(base, Fn) and base.kind == "super":
            selfv, cls = base.data
            found = self.repo.find_method(cls, attr, skip_first=True)
            if found is None:
                if attr == "__init__":
                    return [(p, Fn("builtin", "noop"))]   # object.__init__
                raise Unsupported(f"super().{attr}")
            fm, fnode, fcls, fq = found
            return [(p, Fn("bound", (selfv, fm, fnode, fq + "." + attr)))]
        if isinstance(base, Obj):
            if attr in base.fields:
                return [(p, base.fields[attr])]
            # property or method defined on the class?
            found = self.repo.find_method(base.cls, attr) if self.repo.resolve(base.cls)[0] == "class" else None
            if found is not None:
                fm, fnode, fcls, fq = found
                if any(isinstance(d, ast.Name) and d.id == "property" for d in fnode.decorator_list):
                    return self.call_repo_function(fm, fnode, [base], {}, p, qual=fq + "." + attr)
                return [(p, Fn("bound", (base, fm, fnode, fq + "." + attr)))]
            h = self.handlers.get("attr:" + base.cls + "." + attr)
            if h is not None:
                return h(self, p, [base], {}, node)
            if f"method:{base.cls}.{attr}" in self.handlers:
                return [(p, Fn("handler-method", (f"method:{base.cls}.{attr}", base)))]
            raise Unsupported(f"{self.module.name}:{node.lineno}: attribute {attr} of {base.cls}")
        if isinstance(base, Opq):
            h = self.handlers.get("attr:" + base.kind + "." + attr)
            if h is not None:
                return h(self, p, [base], {}, node)
            return [(p, Fn("method", (base, attr)))]
        if isinstance(base, Fn) and base.kind == "class":
            if attr == "model_fields":
                # pydantic: mapping field name -> FieldInfo (only `.default` is modelled)
                from .models import default_value
                pairs = []
                for f in self.repo.class_fields(base.data):
                    d = default_value(self, f, p, node) if (f["default"] is not None) else NONE
                    pairs.append((Str(f["name"]), Obj("pydantic.FieldInfo", {"default": d if d is not None else NONE})))
                return [(p, Dct(pairs))]
            return [(p, Fn("classattr", (base.data, (attr,))))]
        if isinstance(base, NDArr):
            if attr == "dtype":
                return [(p, Str(base.dtype))]
            if attr == "size":
                return [(p, Num(base.n))]
            if attr == "shape":
                return [(p, Tup([Num(base.n)]))]
            return [(p, Fn("method", (base, attr)))]
        if isinstance(base, (Lst, Dct, DctL, Str, Tup, SetV)):
            return [(p, Fn("method", (base, attr)))]
        raise Unsupported(f"{self.module.name}:{node.lineno}: attribute {attr} of {type(base).__name__}")

    def ev_Tuple(self, n, p):
        if any(isinstance(e, ast.Starred) for e in n.elts):
            raise Unsupported("starred in tuple")
        return [(p1, Tup(vals)) for p1, vals in self.ev_seq(n.elts, p)]

    def ev_List(self, n, p):
        if any(isinstance(e, ast.Starred) for e in n.elts):
            raise Unsupported("starred in list")
        return [(p1, Lst(items=vals)) for p1, vals in self.ev_seq(n.elts, p)]

    def ev_Set(self, n, p):
        return [(p1, SetV(vals)) for p1, vals in self.ev_seq(n.elts, p)]

    def ev_Dict(self, n, p):
        res = [(p, [])]
        for k, vnode in zip(n.keys, n.values):
            nxt = []
            for q, pairs in res:
                if k is None:   # {**other}
                    for q2, d in self.ev(vnode, q):
                        if not isinstance(d, Dct):
                            raise Unsupported("dict splat of a non-literal dict")
                        merged = [pr for pr in pairs if not any(z3.is_true(z3.simplify(eq(pr[0], k2))) for k2, _ in d.pairs)] + list(d.pairs)
                        nxt.append((q2, merged))
                else:
                    for q2, kv in self.ev(k, q):
                        for q3, vv in self.ev(vnode, q2):
                            kept = [pr for pr in pairs if not z3.is_true(z3.simplify(eq(pr[0], kv)))]
                            nxt.append((q3, kept + [(kv, vv)]))
            res = nxt
        return [(q, Dct(pairs)) for q, pairs in res]

    def ev_Lambda(self, n, p):
        return [(p, Fn("lambda", (n, dict(p.env), self.module)))]

    def ev_IfExp(self, n, p):
        out = []
        for p1, c in self.ev(n.test, p):
            t = truth(c)
            pt, pf = p1.fork(t), p1.fork(z3.Not(t))
            ft, ff = self.feasible(pt.cond), self.feasible(pf.cond)
            rt = self.ev(n.body, pt) if ft else []
            rf = self.ev(n.orelse, pf) if ff else []
            # merge when both sides are single non-forking evaluations
            if len(rt) == 1 and len(rf) == 1 and len(rt[0][0].cond) == len(pt.cond) and len(rf[0][0].cond) == len(pf.cond):
                try:
                    out.append((p1, ite(t, rt[0][1], rf[0][1])))
                    continue
                except Unsupported:
                    pass
            out += rt + rf
        return out

    def ev_NamedExpr(self, n, p):
        out = []
        for p1, v in self.ev(n.value, p):
            out.append((p1.bind(n.target.id, v), v))
        return out

    def ev_UnaryOp(self, n, p):
        out = []
        for p1, v in self.ev(n.operand, p):
            if isinstance(n.op, ast.Not):
                out.append((p1, Bool(z3.Not(truth(v)))))
            elif isinstance(n.op, ast.USub):
                p1, x = self.as_num(v, p1, n)
                out.append((p1, Num(-x.t)))
            elif isinstance(n.op, ast.UAdd):
                p1, x = self.as_num(v, p1, n)
                out.append((p1, x))
            else:
                raise Unsupported("unary op")
        return out

    def as_num(self, v, p, node) -> tuple[Path, Num]:
        if isinstance(v, Opt):
            p = self.implicit(p, v.isnone, "TypeError", node)
            v = v.val
        if isinstance(v, Bool):
            v = Num(z3.If(v.t, 1, 0))
        if isinstance(v, NoneV):
            if self.implicit_exc:
                self.emit_raise(p, "TypeError", node)
            raise DeadPath()
        if not isinstance(v, Num):
            raise Unsupported(f"{self.module.name}:{getattr(node, 'lineno', '?')}: number expected, got {type(v).__name__}")
        return p, v

    def ev_BinOp(self, n, p):
        out = []
        for p1, a in self.ev(n.left, p):
            for p2, b in self.ev(n.right, p1):
                try:
                    out += self.binop(type(n.op), a, b, p2, n)
                except DeadPath:
                    pass
        return out

    def binop(self, op, a, b, p, node):
        sym = ARITH.get(op)
        if sym is None:
            raise Unsupported(f"binop {op.__name__}")
        # list / tuple / str operations
        if sym == "+" and isinstance(a, Lst) and isinstance(b, Lst):
            return [(p, self.concat(a, b))]
        if sym == "+" and isinstance(a, Tup) and isinstance(b, Tup):
            return [(p, Tup(a.items + b.items))]
        if sym == "+" and isinstance(a, Str) and isinstance(b, Str) and a.concrete and b.concrete:
            return [(p, Str(a.c + b.c))]
        if sym == "*" and isinstance(a, Lst) and a.concrete and isinstance(b, Num):
            k = z3.simplify(b.t)
            if z3.is_int_value(k):
                return [(p, Lst(items=a.items * k.as_long()))]
            if len(a.items) == 1:
                return [(p, Lst(n=z3.If(k >= 0, k, 0), at=lambda i, v=a.items[0]: v))]
        if sym == "/" and isinstance(a, (Opq, ModV)):
            h = self.handlers.get("op:truediv")
            if h:
                return h(self, p, [a, b], {}, node)
        h = self.handlers.get("op:" + sym)
        if h is not None and (isinstance(a, Opq) or isinstance(b, Opq)):
            return h(self, p, [a, b], {}, node)
        if isinstance(a, NDArr) or isinstance(b, NDArr):
            from .array_model import nd_binop
            return nd_binop(self, sym, a, b, p, node)
        p, x = self.as_num(a, p, node)
        p, y = self.as_num(b, p, node)
        return [self.arith(sym, x, y, p, node)]

    def concat(self, a: Lst, b: Lst):
        if a.concrete and b.concrete:
            return Lst(items=a.items + b.items)
        if a.concrete and not a.items:
            return b
        if b.concrete and not b.items:
            return a
        na = a.length()
        return Lst(n=na + b.length(), at=lambda i: ite(i < na, a.at(i), b.at(i - na)))

    def arith(self, sym, x: Num, y: Num, p, node):
        xt, yt, ints = num_pair(x, y)
        if sym in "+-*":
            if ints or self.numeric is None:
                r = {"+": xt + yt, "-": xt - yt, "*": xt * yt}[sym]
                return p, Num(r)
            return p, Num(self.numeric.op(self, sym, xt, yt))
        if sym == "/":
            p = self.implicit(p, yt == 0, "ZeroDivisionError", node)
            xr, yr = x.real(), y.real()
            if self.numeric is None:
                return p, Num(xr / yr)
            return p, Num(self.numeric.op(self, "/", xr, yr))
        if sym == "//":
            p = self.implicit(p, yt == 0, "ZeroDivisionError", node)
            if ints:
                # python floor division; z3 int div is euclidean (floor for positive divisor)
                q = z3.If(yt > 0, xt / yt, (-xt) / (-yt))
                return p, Num(q)
            q = z3.ToInt(x.real() / y.real())
            return p, Num(z3.ToReal(q))
        if sym == "%":
            p = self.implicit(p, yt == 0, "ZeroDivisionError", node)
            if ints:
                r = z3.If(yt > 0, xt % yt, -((-xt) % (-yt)))
                return p, Num(r)
            q = z3.ToInt(x.real() / y.real())
            return p, Num(x.real() - z3.ToReal(q) * y.real())
        if sym == "**":
            yv = z3.simplify(yt)
            if z3.is_int_value(yv) and 0 <= yv.as_long() <= 4:
                r = z3.IntVal(1) if ints else z3.RealVal(1)
                for _ in range(yv.as_long()):
                    r = r * xt
                return p, Num(r)
            raise Unsupported("power with non-literal exponent")
        raise Unsupported(sym)

    def ev_BoolOp(self, n, p):
        """Value-returning short-circuit and/or."""
        isand = isinstance(n.op, ast.And)
        results = []
        # `xs or []` / `d or {}` with a (possibly None) symbolic list / dict: the empty default equals the empty
        # operand as a value, so the result is one merged list (no path fork)
        if (not isand and len(n.values) == 2 and isinstance(n.values[1], (ast.List, ast.Dict))
                and not getattr(n.values[1], "elts", None) and not getattr(n.values[1], "keys", None)):
            merged = []
            for p1, v in self.ev(n.values[0], p):
                isnone = v.isnone if isinstance(v, Opt) else z3.BoolVal(False)
                inner = v.val if isinstance(v, Opt) else v
                if isinstance(inner, Lst) and isinstance(n.values[1], ast.List):
                    ln = inner.length()
                    merged.append((p1, inner if not isinstance(v, Opt) else Lst(n=z3.If(isnone, 0, ln), at=inner.at if not inner.concrete else (lambda i, inner=inner: inner.at(i)))))
                elif isinstance(inner, DctL) and isinstance(n.values[1], ast.Dict):
                    kn = inner.keys.length()
                    nn = z3.If(isnone, 0, kn)
                    merged.append((p1, DctL(Lst(n=nn, at=inner.keys.at), Lst(n=nn, at=inner.vals.at))))
                elif isinstance(v, NoneV):
                    merged.append((p1, Lst(items=[]) if isinstance(n.values[1], ast.List) else Dct([])))
                else:
                    merged = None
                    break
            if merged is not None:
                return merged

        def go(k, path):
            for p1, v in self.ev(n.values[k], path):
                if k == len(n.values) - 1:
                    results.append((p1, v))
                    continue
                t = truth(v)
                stop = z3.Not(t) if isand else t
                cont = t if isand else z3.Not(t)
                ps = p1.fork(stop)
                if self.feasible(ps.cond):
                    results.append((ps, v))
                pc = p1.fork(cont)
                if self.feasible(pc.cond):
                    go(k + 1, pc)

        go(0, p)
        # merge boolean results back into one path when nothing else forked
        if all(isinstance(v, Bool) for _, v in results) and len(results) > 1:
            base = len(p.cond)
            if all(r[0].env is not None for r in results):
                try:
                    disj = []
                    for rp, v in results:
                        extra = rp.cond[base:]
                        disj.append(z3.And(*extra, v.t) if extra else v.t)
                    # results' extra conditions partition the space below p (when sub-evaluations don't raise)
                    if not self.implicit_exc or self._no_implicit_between(n):
                        return [(p, Bool(z3.Or(*disj)))]
                except Exception:
                    pass
        return results

    def _no_implicit_between(self, n):
        # conservative: only merge when operands are simple (names, constants, comparisons of such, attribute reads)
        for sub in ast.walk(n):
            if isinstance(sub, (ast.Call, ast.Subscript, ast.BinOp)):
                return False
        return True

    def ev_Compare(self, n, p):
        out = []
        for p1, left in self.ev(n.left, p):
            cur = [(p1, left, [])]
            for op, comp in zip(n.ops, n.comparators):
                nxt = []
                for p2, lv, ts in cur:
                    for p3, rv in self.ev(comp, p2):
                        try:
                            p4, t = self.compare(op, lv, rv, p3, n)
                        except DeadPath:
                            continue
                        nxt.append((p4, rv, ts + [t]))
                cur = nxt
            out += [(p2, Bool(z3.And(*ts) if len(ts) > 1 else ts[0])) for p2, _, ts in cur]
        return out

    def compare(self, op, a, b, p, node):
        o = type(op).__name__
        if o in ("Is", "IsNot"):
            if isinstance(b, NoneV):
                t = is_none(a)
            elif isinstance(a, NoneV):
                t = is_none(b)
            elif isinstance(a, Bool) and isinstance(b, Bool):
                t = a.t == b.t
            else:
                raise Unsupported("`is` on non-None")
            return p, (t if o == "Is" else z3.Not(t))
        if o in ("Eq", "NotEq"):
            t = eq(a, b)
            from .values import filter_uniqueness
            lem = filter_uniqueness(a, b)
            if lem is not None:
                self.trace["assumed"].add("engine lemma: uniqueness of the order-preserving enumeration of a filter (paper proof)")
                self.bg_local(p, [lem])
            return p, (t if o == "Eq" else z3.Not(t))
        if o in ("In", "NotIn"):
            t = self.contains(b, a, p, node)
            return p, (t if o == "In" else z3.Not(t))
        # ordering
        if isinstance(a, (Opt, NoneV)) or isinstance(b, (Opt, NoneV)) or isinstance(a, (Num, Bool)) and isinstance(b, (Num, Bool)):
            p, x = self.as_num(a, p, node)
            p, y = self.as_num(b, p, node)
            xt, yt, _ = num_pair(x, y)
            if self.numeric is not None:
                t = self.numeric.cmp(self, o, xt, yt)
                if t is not None:
                    return p, t
            return p, {"Lt": xt < yt, "LtE": xt <= yt, "Gt": xt > yt, "GtE": xt >= yt}[o]
        raise Unsupported(f"ordering of {type(a).__name__} and {type(b).__name__}")

    def contains(self, cont, item, p, node):
        if isinstance(cont, Opt):
            cont = cont.val
        if isinstance(cont, (Lst, Tup, SetV)):
            items = cont.items if not isinstance(cont, Lst) or cont.concrete else None
            if items is not None:
                return z3.Or([eq(item, x) for x in items]) if items else z3.BoolVal(False)
            i = fresh_int("in")
            return z3.Exists([i], z3.And(i >= 0, i < cont.n, eq(item, cont.at(i))))
        if isinstance(cont, SetL):
            from .values import member
            return member(cont.lst, item)
        if isinstance(cont, DctL):
            from .values import member
            return member(cont.keys, item)
        if isinstance(cont, Dct):
            return z3.Or([eq(item, k) for k, _ in cont.pairs]) if cont.pairs else z3.BoolVal(False)
        if isinstance(cont, Opq):
            h = self.handlers.get("contains:" + cont.kind)
            if h:
                return h(self, p, [cont, item], {}, node)
        raise Unsupported(f"`in` on {type(cont).__name__}")

    def ev_Subscript(self, n, p):
        out = []
        for p1, base in self.ev(n.value, p):
            sl = n.slice
            if isinstance(sl, ast.Slice):
                out += self.slice(base, sl, p1, n)
                continue
            for p2, idx in self.ev(sl, p1):
                try:
                    out += self.index(base, idx, p2, n)
                except DeadPath:
                    pass
        return out

    def index(self, base, idx, p, node):
        if isinstance(base, Opt):
            p = self.implicit(p, base.isnone, "TypeError", node)
            base = base.val
        if isinstance(base, ModV) and ("getitem:" + base.qual) in self.handlers:    # e.g. numpy.c_[a, b]
            return self.handlers["getitem:" + base.qual](self, p, [idx], {}, node)
        if isinstance(base, Dct):
            hits = []
            for k, v in base.pairs:
                hits.append((eq(idx, k), v))
            anyhit = z3.Or([c for c, _ in hits]) if hits else z3.BoolVal(False)
            p = self.implicit(p, z3.Not(anyhit), "KeyError", node)
            if not hits:
                raise DeadPath()
            # dict keys are distinct: first hit is the only one
            res = hits[-1][1]
            for c, v in reversed(hits[:-1]):
                try:
                    res = ite(c, v, res)
                except Unsupported:
                    # fork instead of merging
                    outs = []
                    for c2, v2 in hits:
                        q = p.fork(c2)
                        if self.feasible(q.cond):
                            outs.append((q, v2))
                    return outs
            return [(p, res)]
        if isinstance(base, Tup):
            base = Lst(items=base.items)
        if isinstance(base, Lst):
            p, i = self.as_num(idx, p, node)
            if not i.is_int:
                raise Unsupported("non-int index")
            n = base.length()
            it = z3.simplify(i.t)
            if z3.is_int_value(it) and it.as_long() < 0:
                it = z3.simplify(n + it)
            elif not z3.is_int_value(it) and self.feasible(p.cond + [it < 0]):
                it = z3.If(it < 0, n + it, it)   # negative indices count from the end
            p = self.implicit(p, z3.Not(z3.And(it >= 0, it < n)), "IndexError", node)
            if base.concrete and not base.items:
                raise DeadPath()
            return [(p, base.at(it))]
        if isinstance(base, Obj) and ("getitem:" + base.cls) in self.handlers:
            return self.handlers["getitem:" + base.cls](self, p, [base, idx], {}, node)
        if isinstance(base, NDArr):
            p, i = self.as_num(idx, p, node)
            it = i.t
            p = self.implicit(p, z3.Not(z3.And(it >= -base.n, it < base.n)), "IndexError", node)
            if self.feasible(p.cond + [it < 0]):
                it = z3.If(it < 0, base.n + it, it)
            return [(p, base.at(it))]
        if isinstance(base, DctL):
            from .calls import last_match
            found, w = last_match(self, p, base.keys.length(), lambda j: eq(idx, base.keys.at(j)), node, "didx")
            p = self.implicit(p, z3.Not(found), "KeyError", node)
            return [(p, base.vals.at(w))]
        if isinstance(base, Opq):
            h = self.handlers.get("getitem:" + base.kind)
            if h:
                return h(self, p, [base, idx], {}, node)
        if isinstance(base, Fn) and base.kind in ("class", "builtin"):
            return [(p, base)]  # typing subscripts e.g. defaultdict[...]; ignored
        raise Unsupported(f"{self.module.name}:{node.lineno}: subscript of {type(base).__name__}")

    def slice(self, base, sl, p, node):
        def one(e):
            if e is None:
                return None
            r = self.ev(e, p)
            if len(r) != 1:
                raise Unsupported("forking slice bound")
            v = r[0][1]
            if not isinstance(v, Num) or not v.is_int:
                raise Unsupported("slice bound")
            return z3.simplify(v.t)
        lo, hi, st = one(sl.lower), one(sl.upper), one(sl.step)
        if isinstance(base, NDArr):
            from .array_model import coord_data_slice
            return [(p, coord_data_slice(self, base, lo, hi, st))]
        if isinstance(base, Tup):
            base = Lst(items=base.items)
        if not isinstance(base, Lst):
            raise Unsupported("slice of non-list")
        n = base.length()
        if st is not None:
            if z3.is_int_value(st) and st.as_long() == -1 and lo is None and hi is None:
                if base.concrete:
                    return [(p, Lst(items=base.items[::-1]))]
                return [(p, Lst(n=n, at=lambda i: base.at(n - 1 - i)))]
            raise Unsupported("slice step")
        if base.concrete and (lo is None or z3.is_int_value(lo)) and (hi is None or z3.is_int_value(hi)):
            a = lo.as_long() if lo is not None else None
            b = hi.as_long() if hi is not None else None
            return [(p, Lst(items=base.items[a:b]))]

        def clamp(x, default):
            if x is None:
                return default
            x = z3.If(x < 0, n + x, x)
            return z3.If(x < 0, 0, z3.If(x > n, n, x))
        a = clamp(lo, z3.IntVal(0))
        b = clamp(hi, n)
        ln = z3.If(b >= a, b - a, 0)
        return [(p, Lst(n=ln, at=lambda i: base.at(a + i)))]

    # comprehensions -----------------------------------------------------------------
    def ev_ListComp(self, n, p):
        return self.comprehension(n, p, "list")

    def ev_GeneratorExp(self, n, p):
        return self.comprehension(n, p, "list")

    def ev_SetComp(self, n, p):
        out = []
        for q, lst in self.comprehension(n, p, "list"):
            out.append((q, SetV(lst.items) if lst.concrete else SetL(lst)))
        return out

    def ev_DictComp(self, n, p):
        return self.comprehension(n, p, "dict")

    def comprehension(self, n, p, kind):
        if len(n.generators) != 1:
            raise Unsupported("nested comprehension")
        g = n.generators[0]
        out = []
        for p1, seq in self.ev(g.iter, p):
            seq = self.as_list(seq, p1, n)
            if seq.concrete:
                paths = [(p1, [])]
                for item in seq.items:
                    nxt = []
                    for q, acc in paths:
                        for q2 in self.assign(g.target, item, q, n):
                            conds = [(q2, [])]
                            for cnd in g.ifs:
                                conds = [(q3, ts + [truth(v)]) for (q2b, ts) in conds for (q3, v) in self.ev(cnd, q2b)]
                            for q3, ts in conds:
                                keep = z3.And(*ts) if ts else z3.BoolVal(True)
                                qk = q3.fork(keep)
                                if self.feasible(qk.cond):
                                    if kind == "dict":
                                        for q4, kv in self.ev_seq([n.key, n.value], qk):
                                            nxt.append((self._restore(q4, q), acc + [tuple(kv)]))
                                    else:
                                        for q4, v in self.ev(n.elt, qk):
                                            nxt.append((self._restore(q4, q), acc + [v]))
                                if ts:
                                    qs = q3.fork(z3.Not(keep))
                                    if self.feasible(qs.cond):
                                        nxt.append((self._restore(qs, q), acc))
                    paths = nxt
                for q, acc in paths:
                    out.append((q, Dct(acc) if kind == "dict" else Lst(items=acc)))
                continue
            if kind == "dict":
                kn = ast.copy_location(ast.ListComp(elt=n.key, generators=n.generators), n)
                vn = ast.copy_location(ast.ListComp(elt=n.value, generators=n.generators), n)
                out.append((p1, DctL(self.sym_comprehension(kn, g, seq, p1), self.sym_comprehension(vn, g, seq, p1))))
                continue
            out.append((p1, self.sym_comprehension(n, g, seq, p1)))
        return out

    def _restore(self, q, base):
        # comprehension variables do not leak
        r = Path(q.cond, base.env, q.yields, q.heap)
        return r

    def sym_comprehension(self, n, g, seq: Lst, p):
        """[elt for x in seq if c] over a symbolic list: map (no filter) -> elementwise list;
        filter -> fresh list with monotone source-index function (see loops.summarise)."""
        if g.ifs:
            from .loops import filtered_list
            return filtered_list(self, n.elt, g, seq, p)
        from .loops import comp_key, cache_lookup
        cache = self.trace.setdefault("_comp_cache", {})
        key = comp_key(self, n.elt, g, seq, p)
        hit = cache_lookup(cache, key, p)
        if hit is not None:
            return hit
        res = self._map_comprehension(n, g, seq, p)
        cache.setdefault(key, []).append((res, seq, {c.get_id() for c in p.cond}, list(p.cond)))
        return res

    def _map_comprehension(self, n, g, seq: Lst, p):

        def at(i):
            sub = self.child()
            sub.implicit_exc = False
            sub.replay = True     # a re-evaluation of an element expression: ghost effects were logged by the eager pass
            sub.index_ctx = self.index_ctx + [i]
            self.enter_iteration(sub, p)
            qs = sub.assign(g.target, seq.at(i), Path(p.cond + [i >= 0, i < seq.n], p.env, None, p.heap), n)
            res = [(q2, v) for q in qs for (q2, v) in sub.ev(n.elt, q)]
            if len(res) != 1:
                # merge
                val = res[-1][1]
                for q2, v in reversed(res[:-1]):
                    extra = q2.cond[len(p.cond):]
                    val = ite(z3.And(*extra) if extra else z3.BoolVal(True), v, val)
                return val
            return res[0][1]
        if self.implicit_exc:
            # implicit exceptions inside the element expression: checked for a generic index
            i = fresh_int("ci")
            sub = self.enter_iteration(self.child(), p)
            sub.index_ctx = self.index_ctx + [i]
            qs = sub.assign(g.target, seq.at(i), p.fork(i >= 0, i < seq.n), n)  # p carries the heap
            for q in qs:
                sub.ev(n.elt, q)
            for o in sub.outcomes:
                self.outcomes.append(o)  # existence of such an index: cond mentions free i (existential)
        # a map over a filtered list keeps the filter's index structure (used by the uniqueness lemma in values.eq)
        keep = seq.tag if isinstance(seq.tag, tuple) and seq.tag[0] == "filter" else None
        return Lst(n=seq.n, at=at, tag=keep)

    def as_list(self, v, p, node) -> Lst:
        if isinstance(v, Opt):
            v = v.val
        if isinstance(v, Lst):
            return v
        if isinstance(v, (Tup, SetV)):
            return Lst(items=v.items)
        if isinstance(v, SetL):
            raise Unsupported("iteration order of a set")
        if isinstance(v, NDArr):
            return Lst(n=v.n, at=v.at)
        if isinstance(v, Dct):
            return Lst(items=[k for k, _ in v.pairs])
        if isinstance(v, Obj):
            h = self.handlers.get("iter:" + v.cls)
            if h:
                r = h(self, p, [v], {}, node)
                return r[0][1]
            from .calls import _is_model
            if _is_model(self, v.cls):
                # pydantic: iterating a model yields (field name, value) for the declared fields, in order
                self.trace["assumed"].add("pydantic: iterating a model yields (name, value) for its declared fields in order")
                names = [f["name"] for f in self.repo.class_fields(v.cls)]
                return Lst(items=[Tup([Str(k), v.fields[k]]) for k in names if k in v.fields])
        raise Unsupported(f"{self.module.name}:{getattr(node, 'lineno', '?')}: iteration over {type(v).__name__}")

    # calls ----------------------------------------------------------------------------
    def ev_Call(self, n, p):
        from .calls import do_call
        return do_call(self, n, p)

    def call_repo_function(self, fmod: Module, fnode: ast.FunctionDef, args, kwargs, p: Path, qual=None, cls=None):
        """Inline the real body of a repo function at a call site."""
        if self.depth > 14:
            raise Unsupported("inlining depth")
        self.trace["inlined"].add(qual or fnode.name)
        env = bind_arguments(self, fmod, fnode, args, kwargs, p)
        if cls is not None:
            env["__class__"] = Fn("class", cls)
        sub = self.child(fmod)
        is_gen = any(isinstance(x, (ast.Yield, ast.YieldFrom)) for x in ast.walk(fnode))
        start = Path(p.cond, env, Lst(items=[]) if is_gen else None, p.heap)
        sub.run_body(fnode, start)
        out = []
        for o in sub.outcomes:
            if o.kind == "return":
                q = Path(o.cond, p.env, p.yields, o.heap if o.heap is not None else p.heap)
                out.append((q, o.yields if is_gen else o.val))
            else:
                self.outcomes.append(Outcome("raise", o.cond, exc=o.exc, line=o.line, yields=p.yields, env=p.env, heap=o.heap))
        self.side += sub.side
        return out

    # statements -----------------------------------------------------------------------
    def run_body(self, fnode, path: Path):
        body = strip_docstring(fnode.body)
        rest = self.run_block(body, [path])
        for q in rest:  # fell off the end: return None
            self.outcomes.append(Outcome("return", q.cond, val=NONE, yields=q.yields, env=q.env, heap=q.heap,
                                         line=getattr(fnode, "end_lineno", None)))

    def run_block(self, stmts, paths):
        for st in stmts:
            nxt = []
            for p in paths:
                m = getattr(self, "st_" + type(st).__name__, None)
                if m is None:
                    raise Unsupported(f"{self.module.name}:{st.lineno}: statement {type(st).__name__}")
                try:
                    nxt += m(st, p)
                except DeadPath:
                    pass
            paths = nxt
            if not paths:
                break
        return paths

    def st_Pass(self, n, p):
        return [p]

    def st_Expr(self, n, p):
        if isinstance(n.value, ast.Constant):
            return [p]
        if isinstance(n.value, ast.Yield):
            out = []
            for p1, v in self.ev(n.value.value, p):
                out.append(self.do_yield(p1, v))
            return out
        if isinstance(n.value, ast.Call):
            from .calls import call_statement
            r = call_statement(self, n.value, p)
            if r is not None:
                return r
        return [p1 for p1, _ in self.ev(n.value, p)]

    def do_yield(self, p, v):
        q = Path(p.cond, p.env, p.yields, p.heap)
        if q.yields is None:
            raise Unsupported("yield outside generator")
        q.yields = self.concat(q.yields, Lst(items=[v]))
        return q

    def st_Assign(self, n, p):
        out = []
        for p1, v in self.ev(n.value, p):
            paths = [p1]
            for t in n.targets:
                paths = [q2 for q in paths for q2 in self.assign(t, v, q, n)]
            out += paths
        return out

    def st_AnnAssign(self, n, p):
        if n.value is None:
            return [p]
        out = []
        for p1, v in self.ev(n.value, p):
            out += self.assign(n.target, v, p1, n)
        return out

    def st_AugAssign(self, n, p):
        load = ast.copy_location(_as_load(n.target), n)
        fake = ast.copy_location(ast.BinOp(left=load, op=n.op, right=n.value), n)
        ast.fix_missing_locations(fake)
        out = []
        for p1, v in self.ev(fake, p):
            out += self.assign(n.target, v, p1, n)
        return out

    def assign(self, target, v, p, node):
        if isinstance(target, ast.Name):
            return [p.bind(target.id, v)]
        if isinstance(target, (ast.Tuple, ast.List)):
            k = len(target.elts)
            if isinstance(v, Opt):
                p = self.implicit(p, v.isnone, "TypeError", node)
                v = v.val
            if isinstance(v, Tup):
                v = Lst(items=v.items)
            if isinstance(v, Lst):
                if v.concrete:
                    if len(v.items) != k:
                        if self.implicit_exc:
                            self.emit_raise(p, "ValueError", node)
                        return []
                    paths = [p]
                    for t, item in zip(target.elts, v.items):
                        paths = [q2 for q in paths for q2 in self.assign(t, item, q, node)]
                    return paths
                p = self.implicit(p, v.n != k, "ValueError", node)
                paths = [p]
                for j, t in enumerate(target.elts):
                    paths = [q2 for q in paths for q2 in self.assign(t, v.at(z3.IntVal(j)), q, node)]
                return paths
            raise Unsupported(f"unpacking {type(v).__name__}")
        if isinstance(target, ast.Attribute):
            from .calls import set_attribute
            return set_attribute(self, target, v, p, node)
        if isinstance(target, ast.Subscript):
            from .calls import set_item
            return set_item(self, target, v, p, node)
        raise Unsupported(f"assignment target {type(target).__name__}")

    def st_If(self, n, p):
        out = []
        for p1, c in self.ev(n.test, p):
            t = truth(c)
            pt, pf = p1.fork(t), p1.fork(z3.Not(t))
            if self.feasible(pt.cond):
                out += self.run_block(n.body, [pt])
            if self.feasible(pf.cond):
                out += self.run_block(n.orelse, [pf]) if n.orelse else [pf]
        return out

    def st_Raise(self, n, p):
        exc = "Exception"
        e = n.exc
        if e is None:
            exc = p.env.get("__handled_exc__", ExcV("Exception")).name
        else:
            if isinstance(e, ast.Call):
                e = e.func
            if isinstance(e, ast.Name):
                if e.id in p.env and isinstance(p.env[e.id], ExcV):
                    exc = p.env[e.id].name
                else:
                    exc = e.id
            elif isinstance(e, ast.Attribute):
                exc = e.attr
        self.emit_raise(p, exc, n)
        return []

    def st_Return(self, n, p):
        if n.value is None:
            self.outcomes.append(Outcome("return", p.cond, val=NONE, line=n.lineno, yields=p.yields, env=p.env, heap=p.heap))
            return []
        for p1, v in self.ev(n.value, p):
            self.outcomes.append(Outcome("return", p1.cond, val=v, line=n.lineno, yields=p1.yields, env=p1.env, heap=p1.heap))
        return []

    def st_Break(self, n, p):
        self.outcomes.append(Outcome("break", p.cond, line=n.lineno, yields=p.yields, env=p.env, heap=p.heap))
        return []

    def st_Continue(self, n, p):
        self.outcomes.append(Outcome("continue", p.cond, line=n.lineno, yields=p.yields, env=p.env, heap=p.heap))
        return []

    def st_Assert(self, n, p):
        out = []
        for p1, c in self.ev(n.test, p):
            t = truth(c)
            self.emit_raise(p1, "AssertionError", n, extra=z3.Not(t))
            out.append(p1.fork(t))
        return out

    def st_FunctionDef(self, n, p):
        return [p.bind(n.name, Fn("closure", (n, dict(p.env), self.module)))]

    def st_Import(self, n, p):
        return [p]

    st_ImportFrom = st_Import

    def st_For(self, n, p):
        from .loops import exec_for
        return exec_for(self, n, p)

    def st_With(self, n, p):
        """`with ctx as name:` -- the context expression is evaluated, bound, and the body executed; the manager's
        __enter__ is taken to return the object itself and __exit__ to do nothing observable (files, locks)"""
        paths = [p]
        for item in n.items:
            nxt = []
            for q in paths:
                for q1, val in self.ev(item.context_expr, q):
                    if item.optional_vars is None:
                        nxt.append(q1)
                    else:
                        nxt += self.assign(item.optional_vars, val, q1, n)
            paths = nxt
        self.trace["assumed"].add("with-statement: __enter__ returns the object, __exit__ has no effect on the result")
        return self.run_block(n.body, paths)

    def st_While(self, n, p):
        raise Unsupported(f"{self.module.name}:{n.lineno}: while loop without invariant")

    def st_Try(self, n, p):
        from .calls import exec_try
        return exec_try(self, n, p)


class DeadPath(Exception):
    """The current path cannot continue (an implicit exception is certain)."""


def _as_load(t):
    if isinstance(t, ast.Name):
        return ast.Name(id=t.id, ctx=ast.Load())
    if isinstance(t, ast.Attribute):
        return ast.Attribute(value=t.value, attr=t.attr, ctx=ast.Load())
    if isinstance(t, ast.Subscript):
        return ast.Subscript(value=t.value, slice=t.slice, ctx=ast.Load())
    raise Unsupported("augassign target")


def bind_arguments(ex: Exec, fmod: Module, fnode, args, kwargs, p: Path, closure_env=None):
    """Python argument binding for a FunctionDef / Lambda; defaults evaluated in the defining module."""
    a = fnode.args
    env = dict(closure_env or {})
    pos = list(a.posonlyargs) + list(a.args)
    names = [x.arg for x in pos]
    if len(args) > len(names) and a.vararg is None:
        raise Unsupported(f"too many positional arguments for {getattr(fnode, 'name', 'lambda')}")
    for nm, v in zip(names, args):
        env[nm] = v
    if a.vararg is not None:
        env[a.vararg.arg] = Tup(args[len(names):])
    extra = {}
    kwnames = names + [x.arg for x in a.kwonlyargs]
    for k, v in kwargs.items():
        if k in kwnames:
            if k in env and k in names[: len(args)]:
                raise Unsupported(f"multiple values for argument {k}")
            env[k] = v
        elif a.kwarg is not None:
            extra[k] = v
        else:
            raise Unsupported(f"unexpected keyword {k} for {getattr(fnode, 'name', 'lambda')}")
    if a.kwarg is not None:
        env[a.kwarg.arg] = Dct([(Str(k), v) for k, v in extra.items()])
    # defaults
    defaults = list(a.defaults)
    dstart = len(pos) - len(defaults)
    dex = Exec(ex.repo, fmod, ex.handlers, ex.inline, ex.mode, False, ex.feas_timeout_ms, ex.bg, ex.numeric, ex.trace)
    for i, x in enumerate(pos):
        if x.arg not in env:
            if i >= dstart:
                r = dex.ev(defaults[i - dstart], Path())
                env[x.arg] = r[0][1]
            else:
                raise Unsupported(f"missing argument {x.arg} for {getattr(fnode, 'name', 'lambda')}")
    for x, d in zip(a.kwonlyargs, a.kw_defaults):
        if x.arg not in env:
            if d is None:
                raise Unsupported(f"missing keyword-only argument {x.arg}")
            env[x.arg] = dex.ev(d, Path())[0][1]
    return env


CONSTANT_HANDLERS = {"uuid.NAMESPACE_DNS"}
BUILTIN_NAMES = {"len", "min", "max", "abs", "int", "float", "bool", "str", "isinstance", "any", "all", "next", "set",
                 "list", "dict", "tuple", "zip", "enumerate", "range", "sum", "hasattr", "getattr", "iter", "sorted",
                 "round", "print", "repr", "id", "hash", "type", "super", "reversed", "map", "filter", "noop", "slice",
                 # contract-language builtins
                 "forall", "exists", "implies", "old", "distinct"}
BUILTIN_EXC = {"ValueError", "KeyError", "TypeError", "IndexError", "NotImplementedError", "AssertionError",
               "Exception", "ZeroDivisionError", "AttributeError", "StopIteration", "FileNotFoundError", "RuntimeError"}
EXTERNAL_CONSTS = {"math.pi": math.pi, "math.inf": None}
