"""Contracts (sidecar classes under /verif/contracts) and obligation generation.

A contract class names its target and gives `requires`, `ensures`, `raises_<Exc>`
as plain Python functions.  The *same* function text is (a) executed symbolically
by the engine to build verification conditions and (b) imported and executed
natively by the replayer and the bounded stand-ins.
"""
from __future__ import annotations

import ast
import os

import z3

from .repo import Repo, Module, Unsupported, source_hash, strip_docstring
from .values import (V, Num, Bool, Str, NoneV, NONE, Opt, Tup, Lst, Dct, Obj, Opq, Fn, truth, eq, fresh_name,
                     str_distinct_axioms, theory_axioms, opaque_sort, StrSort)
from .symex import Exec, Path, Outcome, bind_arguments, is_assumed
from .sym import SymBuilder

VERIF_ROOT = os.path.dirname(os.path.dirname(os.path.abspath(__file__)))


class Contract:
    def __init__(self, name, module: Module, cls: ast.ClassDef):
        self.name = name
        self.module = module
        self.cls = cls
        self.attrs = {}
        self.funcs: dict[str, ast.FunctionDef] = {}
        for st in cls.body:
            if isinstance(st, ast.Assign) and isinstance(st.targets[0], ast.Name):
                try:
                    self.attrs[st.targets[0].id] = ast.literal_eval(st.value)
                except Exception:
                    pass
            elif isinstance(st, ast.FunctionDef):
                self.funcs[st.name] = st
        self.target = self.attrs.get("target")
        self.types = self.attrs.get("types", {})
        self.result = self.attrs.get("result")
        self.result_switch = self.attrs.get("result_switch")  # (param, {type tag: spec}): result spec by the argument's tag
        self.assumed = bool(self.attrs.get("assumed", False))
        self.mode = self.attrs.get("mode", "R")
        self.params = self.attrs.get("params")  # for externals: parameter names (with defaults None)
        self.raises = {k[len("raises_"):]: f for k, f in self.funcs.items() if k.startswith("raises_")}
        self.never = self.attrs.get("never_raises", [])  # implicit exceptions that must be infeasible

    def __repr__(self):
        return f"Contract({self.name} -> {self.target})"


class Obligation:
    def __init__(self, oid, kind, assertions, expect="unsat", inputs=None, meta=None, result=None):
        self.id = oid
        self.kind = kind
        self.assertions = list(assertions)
        self.expect = expect
        self.inputs = inputs or {}
        self.result_val = result
        self.meta = meta or {}
        self.verdict = None

    def smt2(self):
        if getattr(self, "_smt2", None) is None:
            from .smt import to_smt2
            self._smt2 = to_smt2(self.assertions + theory_axioms(self.assertions))
        return self._smt2

    def smt2_expanded(self, B):
        cache = self.__dict__.setdefault("_smt2_b", {})
        if B not in cache:
            self.materialise()
            from .smt import to_smt2, bounded_expand
            size = []
            if self.expect == "sat" and self.inputs:
                # a witness with short input lists is as good as any: `sat` of the strengthened query is a genuine `sat`
                from .sym import length_constraints
                for v_ in self.inputs.values():
                    try:
                        size += length_constraints(v_, B)
                    except Exception:
                        pass
            exp = bounded_expand(self.assertions + size, B)
            cache[B] = to_smt2(exp + theory_axioms(exp))
        return cache[B]

    def stub(self, deep=True):
        """picklable form (no z3 objects) for obligations generated in a worker process
        (deep: also ship the larger bounded expansions of a witness obligation)"""
        exps, witness = {}, None
        if self.expect == "sat":
            # witnesses (reachability covers, canaries) are searched right here, in the generating process, on bounded
            # expansions of growing size: a `sat` there is a genuine `sat`; only the outcome travels to the main process
            import time as _t
            t0 = _t.time()
            try:
                sol = z3.Solver()
                sol.set("timeout", 1500)
                sol.from_string(self.smt2_expanded(2))
                r = str(sol.check())
            except Exception:
                r = "error"
            if r == "sat":
                witness = dict(B=2, time_s=round(_t.time() - t0, 3))
            else:
                # not found at once: ship the expansions, the main process searches them in parallel with larger budgets
                for B in ((2, 3, 4) if deep else (2,)):
                    try:
                        q = self.smt2_expanded(B)
                    except Exception:
                        break
                    if B > 2 and len(q) > 1_500_000:
                        break
                    exps[B] = q
        return dict(id=self.id, kind=self.kind, expect=self.expect, meta=self.meta, smt2=self.smt2(), smt2_b=exps, witness=witness)

    @classmethod
    def from_stub(cls, d, regen):
        o = cls(d["id"], d["kind"], [], expect=d["expect"], meta=d["meta"])
        o._smt2, o._smt2_b, o.regen = d["smt2"], dict(d["smt2_b"]), regen
        o.witness = d.get("witness")
        return o

    def materialise(self):
        """z3 objects for an obligation that came from a worker: regenerate in this process"""
        if self.assertions or getattr(self, "regen", None) is None:
            return self
        for o in self.regen():
            if o.id == self.id:
                self.assertions, self.inputs, self.result_val = o.assertions, o.inputs, o.result_val
                return self
        raise RuntimeError(f"obligation {self.id} not regenerated")


class Verifier:
    def __init__(self, repo: Repo | None = None, numeric=None):
        self.repo = repo or Repo()
        self.contracts: dict[str, Contract] = {}
        self.by_target: dict[str, Contract] = {}
        self.handlers: dict[str, object] = {}
        self.inline: set[str] = set()
        self.numeric = numeric
        self.trace = {"inlined": set(), "handlers": set(), "assumed": set()}
        self.functions_under_contract: dict[str, str] = {}
        self.result_builders: dict[str, object] = {}
        self.ann_resolver = None

    # ------------------------------------------------------------------ loading
    def load_contracts(self, modname: str):
        """modname like 'contracts.geometry' (file /verif/contracts/geometry.py)."""
        path = os.path.join(VERIF_ROOT, modname.replace(".", "/") + ".py")
        self.repo.add_module_path(modname, path)
        m = self.repo.module(modname)
        for name, node in m.defs.items():
            if isinstance(node, ast.ClassDef):
                c = Contract(name, m, node)
                if c.target:
                    self.contracts[name] = c
                    self.by_target[c.target] = c
        return m

    def use(self, *names, assumed=None):
        """Install call handlers for the named contracts (callers see the contract, not the body)."""
        for nm in names:
            c = self.contracts[nm]
            key = c.target.replace(":", ".")
            self.handlers[key] = self.make_handler(c)

    # ------------------------------------------------------------------ predicates
    def pred(self, ex: Exec, c: Contract, fname: str, values: dict, path: Path, assumptions_out=None):
        """z3 Bool for contract predicate `fname` applied to `values` (names -> V) under `path`."""
        fnode = c.funcs[fname]
        return self.pred_node(ex, c.module, fnode, values, path, assumptions_out)

    def pred_node(self, ex, module, fnode, values, path, assumptions_out=None):
        sub = Exec(self.repo, module, self.handlers, ex.inline, ex.mode, False, ex.feas_timeout_ms, ex.bg,
                   ex.numeric, ex.trace)
        sub.index_ctx = list(ex.index_ctx)
        sub.loop_tag = ex.loop_tag
        sub.inline_prefixes = ("contracts.",)
        env = {}
        a = fnode.args
        for x in list(a.posonlyargs) + list(a.args) + list(a.kwonlyargs):
            if x.arg not in values:
                raise Unsupported(f"contract predicate {fnode.name}: no value for parameter {x.arg}")
            env[x.arg] = values[x.arg]
        sub.run_body(fnode, Path(path.cond, env, None, path.heap))
        base = len(path.cond)
        disj = []
        for o in sub.outcomes:
            if o.kind != "return":
                raise Unsupported(f"contract predicate {fnode.name} may raise {o.exc} (line {o.line})")
            e = o.cond[base:]
            if assumptions_out is not None:
                # the postconditions assumed along THIS evaluation path hold under its branch decisions only: handing them out
                # unguarded would conjoin facts of different paths (e.g. `result == time IoU` from one branch and `result ==
                # area ratio` from another, about the same pure function value) -- contradictory or simply false elsewhere
                # -- each fact is guarded by exactly the branch decisions that PRECEDE it on the path (guarding by the later ones
                # too would lose it on sibling branches that were pruned as infeasible because of that very fact)
                seen_f = getattr(assumptions_out, "_seen", None)
                prefix = []
                for c_ in e:
                    if is_assumed(c_):
                        f_ = z3.Implies(z3.And(*prefix), c_) if prefix else c_
                        if not any(f_.eq(g_) for g_ in assumptions_out):
                            assumptions_out.append(f_)
                    else:
                        prefix.append(c_)
                e = [c_ for c_ in e if not is_assumed(c_)]
            elif any(is_assumed(c_) for c_ in e):
                raise Unsupported(f"contract predicate {fnode.name} calls a function under contract (only lemmas may)")
            disj.append(z3.And(*e, truth(o.val)) if e else truth(o.val))
        ex.side += sub.side
        if not disj:
            return z3.BoolVal(False)
        return z3.Or(disj) if len(disj) > 1 else disj[0]

    # ------------------------------------------------------------------ call sites
    def make_handler(self, c: Contract):
        ver = self

        def handler(ex: Exec, p: Path, args, kwargs, node):
            values = ver.bind(c, args, kwargs, ex, p)
            if c.assumed:
                ex.trace["assumed"].add(c.name)
            label = f"call-pre/{c.name}@{ex.module.name}:{getattr(node, 'lineno', 0)}"
            if "requires" in c.funcs:
                goal = ver.pred(ex, c, "requires", values, p)
                ex.side.append((label, list(p.cond), goal))
                p = p.assume(goal)  # continue under the (separately checked) precondition
            for exc, fn in c.raises.items():
                cond = ver.pred_node(ex, c.module, fn, values, p)
                ex.emit_raise(p, exc, node, extra=cond)
                p = p.fork(z3.Not(cond))
            if not ex.feasible(p.cond):
                return []
            ctx = tuple(ex.index_ctx)
            pure_terms = None
            if c.attrs.get("pure"):
                # a pure function: its result is a *function* of the arguments (same arguments, same result)
                from .sym import flatten_terms
                pure_terms = []
                for nm in sorted(values):
                    f_ = flatten_terms(values[nm])
                    if f_ is None:
                        pure_terms = None
                        break
                    pure_terms += f_
            if pure_terms is not None:
                ctx, suffix = tuple(pure_terms), "@pure"
            elif ctx:
                suffix = f"@{getattr(node, 'lineno', 0)}_{getattr(node, 'col_offset', 0)}#{'_'.join(map(str, ex.loop_tag))}"
            else:
                suffix = fresh_name("")
            sb = SymBuilder(ver.repo, ver.ann_resolver, ctx=ctx, suffix=suffix)
            if "result_value" in c.funcs:
                # the result is given as an expression of the arguments (functional contract)
                rv = ver.value_of(ex, c, "result_value", values, p)
                return [(p, rv)]
            rspec = c.result
            if c.result_switch:
                arg = values.get(c.result_switch[0])
                tagv = arg.fields.get("type") if isinstance(arg, Obj) else None
                if isinstance(tagv, Str) and tagv.concrete and tagv.c in c.result_switch[1]:
                    rspec = c.result_switch[1][tagv.c]
            if c.attrs.get("result_builder"):
                res = ver.result_builders[c.attrs["result_builder"]](ex, node, suffix, ctx)
            else:
                res = sb.make(rspec, "res_" + c.name + ("_" + rspec.replace(":", "_").replace(".", "_")[-24:] if pure_terms is not None else "")) if rspec else NONE
            for w in sb.wf:
                ex.bg.append(w)
            if "ensures" in c.funcs:
                vals = dict(values)
                vals["result"] = res
                extra = []  # postconditions of pure functions the callee's spec itself mentions
                post = ver.pred(ex, c, "ensures", vals, p, assumptions_out=extra)
                p = p.assume(*extra, post)
            return [(p, res)]

        return handler

    def fresh_value(self, ex, spec, name, node):
        """an unconstrained symbolic value of type `spec` (a function of the enclosing loop indices, named after the site)"""
        ctx = tuple(ex.index_ctx)
        if ctx:
            suffix = f"@{getattr(node, 'lineno', 0)}_{getattr(node, 'col_offset', 0)}#{'_'.join(map(str, ex.loop_tag))}"
        else:
            suffix = fresh_name("")
        sb = SymBuilder(self.repo, self.ann_resolver, ctx=ctx, suffix=suffix)
        val = sb.make(spec, name)
        for w in sb.wf:
            ex.bg.append(w)
        return val

    def value_of(self, ex, c, fname, values, path):
        fnode = c.funcs[fname]
        sub = Exec(self.repo, c.module, self.handlers, ex.inline, ex.mode, False, ex.feas_timeout_ms, ex.bg,
                   ex.numeric, ex.trace)
        sub.inline_prefixes = ("contracts.",)
        env = {x.arg: values[x.arg] for x in fnode.args.args}
        sub.run_body(fnode, Path(path.cond, env, None, path.heap))
        from .values import ite
        base = len(path.cond)
        val = None
        for o in reversed(sub.outcomes):
            if o.kind != "return":
                raise Unsupported("result_value may raise")
            e = o.cond[base:]
            val = o.val if val is None else ite(z3.And(*e) if e else z3.BoolVal(True), o.val, val)
        return val

    def signature(self, c: Contract):
        if ":" in c.target:
            m, fnode, cls = self.repo.function(c.target)
            return m, fnode, cls
        return None, None, None

    def bind(self, c: Contract, args, kwargs, ex, p):
        m, fnode, cls = self.signature(c)
        if isinstance(fnode, ast.ClassDef):
            if args:
                raise Unsupported(f"positional arguments to model constructor {c.target}")
            return dict(kwargs)
        if fnode is not None:
            return bind_arguments(ex, m, fnode, args, kwargs, p)
        names = c.params or []
        vals = {}
        for nm, v in zip(names, args):
            vals[nm] = v
        for k, v in kwargs.items():
            vals[k] = v
        for nm in names:
            vals.setdefault(nm, NONE)
        return vals

    # ------------------------------------------------------------------ verification of a function body
    def verify(self, cname: str, prop: str, types=None, extra_pre=None, tag="", fixed=None, prelude=None, ghost=None):
        """Obligations for contract `cname` against the real body of its target.

        types: overrides of parameter type specs (e.g. one geometry type at a time)
        fixed: dict param -> V (concrete values for some parameters)
        """
        c = self.contracts[cname]
        m, fnode, cls = self.repo.function(c.target)
        self.functions_under_contract[c.target] = source_hash(m, fnode)
        sb = SymBuilder(self.repo, self.ann_resolver)
        specs = dict(c.types)
        specs.update(types or {})
        is_class = isinstance(fnode, ast.ClassDef)
        if is_class:
            params = list(specs)
        else:
            a = fnode.args
            params = [x.arg for x in list(a.posonlyargs) + list(a.args) + list(a.kwonlyargs)]
        values = {}
        if not is_class:
            if a.kwarg is not None:
                values[a.kwarg.arg] = Dct([])
            if a.vararg is not None:
                values[a.vararg.arg] = Tup([])
        for nm in params:
            if fixed and nm in fixed:
                values[nm] = fixed[nm](sb) if callable(fixed[nm]) else fixed[nm]
            elif nm in specs:
                values[nm] = sb.make(specs[nm], nm)
            elif nm in ("cls", "self"):
                values[nm] = NONE
            else:
                raise Unsupported(f"contract {cname}: no type for parameter {nm}")
        if cls is not None and not is_class:
            self._method_cls = c.target.replace(":", ".").rsplit(".", 1)[0]
        for nm, spec in (ghost or {}).items():
            # ghost values: named in the contract (entry state of an object, a universally quantified probe) but not
            # parameters of the function
            values[nm] = spec(sb) if callable(spec) else sb.make(spec, nm)
        bg = list(sb.wf)
        ex = Exec(self.repo, m, self.handlers, self.inline, c.mode, True, 120, bg, self.numeric, self.trace)
        ex.inline_prefixes = ("contracts.",)
        p0 = Path([], {})
        if prelude is not None:
            # symbolic set-up executed before the body (e.g. building the adapter object graph with the real __init__s)
            p0 = prelude(ex, p0, values)
        pre_assumed = []   # postconditions of functions under contract that the precondition itself mentions
        pre = self.pred(ex, c, "requires", values, p0, assumptions_out=pre_assumed) if "requires" in c.funcs else z3.BoolVal(True)
        if pre_assumed:
            pre = z3.And(pre, *pre_assumed)
        if extra_pre is not None:
            pre = z3.And(pre, extra_pre(values))
        is_gen = (not is_class) and any(isinstance(x, (ast.Yield, ast.YieldFrom)) for x in ast.walk(fnode))
        start = Path(list(p0.cond) + [pre], dict(values), Lst(items=[]) if is_gen else None, p0.heap)
        if is_class:
            # the target is a pydantic model: run the construction contract (real validators inlined)
            from .models import construct_model
            qual = c.target.replace(":", ".")
            for q, obj in construct_model(ex, start, qual, dict(values), fnode):
                ex.outcomes.append(Outcome("return", q.cond, val=obj, line=fnode.lineno))
        else:
            if cls is not None:
                start.env["__class__"] = Fn("class", c.target.replace(":", ".").rsplit(".", 1)[0])
            ex.run_body(fnode, start)
        if not ex.outcomes:
            # every path was pruned as infeasible: a contradictory precondition or a contradictory assumed callee contract
            raise Unsupported(f"contract {cname}: symbolic execution of {c.target} produced no outcome (vacuous)")
        obls = []
        base = f"{prop}/{c.target.split(':')[0].replace('soundevent.', '')}.{c.target.split(':')[1]}{tag}"
        inputs = dict(values)
        k = 0
        ret_conds = []
        for o in ex.outcomes:
            k += 1
            bgx = list(ex.bg)
            if o.kind == "return":
                res = o.yields if is_gen else o.val
                ret_conds.append(z3.And(*o.cond))
                if "ensures" in c.funcs:
                    vals = dict(values)
                    vals["result"] = res
                    spec_assumed = []  # postconditions of (verified, pure) functions the spec itself calls
                    goal = self.pred(ex, c, "ensures", vals, Path(o.cond, None, None, o.heap), assumptions_out=spec_assumed)
                    parts = _conjuncts(goal)
                    for j, part in enumerate(parts):
                        sfx = f".{j}" if len(parts) > 1 else ""
                        obls.append(Obligation(f"{base}/post@L{o.line}#{k}{sfx}", "post", list(ex.bg) + o.cond + spec_assumed + [z3.Not(part)],
                                               inputs=inputs, result=res, meta=dict(contract=cname, line=o.line, mode=c.mode)))
                        # the same obligation with a declared known-finding region excluded (decides, in the same batch,
                        # whether a failure lies entirely inside that region)
                        for rname in c.attrs.get("regions", []):
                            rfn = c.module.defs[rname]
                            region = self.pred_node(ex, c.module, rfn, {**vals}, Path(o.cond, None, None, o.heap))
                            obls.append(Obligation(f"{base}/post@L{o.line}#{k}{sfx}/outside:{rname}", "post-outside-region",
                                                   list(ex.bg) + o.cond + spec_assumed + [z3.Not(part), z3.Not(region)],
                                                   inputs=inputs, result=res, meta=dict(contract=cname, line=o.line, region=rname)))
                obls.append(Obligation(f"{base}/cover-return@L{o.line}#{k}", "cover", list(ex.bg) + o.cond, expect="sat",
                                       inputs=inputs, meta=dict(contract=cname, line=o.line)))
            elif o.kind == "raise":
                if o.exc in c.raises:
                    goal = self.pred_node(ex, c.module, c.raises[o.exc], values, Path(o.cond, None, None, o.heap))
                    obls.append(Obligation(f"{base}/exc-{o.exc}@L{o.line}#{k}", "exc", list(ex.bg) + o.cond + [z3.Not(goal)],
                                           inputs=inputs, meta=dict(contract=cname, line=o.line, exc=o.exc)))
                    obls.append(Obligation(f"{base}/cover-raise-{o.exc}@L{o.line}#{k}", "cover", list(ex.bg) + o.cond, expect="sat",
                                           inputs=inputs, meta=dict(contract=cname, line=o.line)))
                else:
                    # an exception the contract does not mention must be impossible under the precondition
                    obls.append(Obligation(f"{base}/no-{o.exc}@L{o.line}#{k}", "exc", list(ex.bg) + o.cond,
                                           inputs=inputs, meta=dict(contract=cname, line=o.line, exc=o.exc, unexpected=True)))
            else:
                raise Unsupported(f"stray {o.kind} outcome")
        # converse: whenever the contract says E is raised, no normal return is possible (one obligation per return path)
        rets = [o for o in ex.outcomes if o.kind == "return"]
        for exc, fn in c.raises.items():
            for r_i, o in enumerate(rets):
                cond = self.pred_node(ex, c.module, fn, values, Path(o.cond, None, None, o.heap))
                sfx = f"#{r_i + 1}" if len(rets) > 1 else ""
                obls.append(Obligation(f"{base}/exc-conv-{exc}{sfx}", "exc-conv", list(ex.bg) + list(o.cond) + [cond],
                                       inputs=inputs, meta=dict(contract=cname, exc=exc)))
            if not rets:
                obls.append(Obligation(f"{base}/exc-conv-{exc}", "exc-conv", [z3.BoolVal(False)], inputs=inputs, meta=dict(contract=cname, exc=exc)))
        for j, (label, cond, goal) in enumerate(ex.side):
            obls.append(Obligation(f"{base}/{label}#{j}", "call-pre", list(ex.bg) + list(cond) + [z3.Not(goal)],
                                   inputs=inputs, meta=dict(contract=cname)))
        obls.append(Obligation(f"{base}/cover-pre", "cover", list(ex.bg) + [pre], expect="sat", inputs=inputs,
                               meta=dict(contract=cname)))
        return obls, ex, values

    # ------------------------------------------------------------------ lemmas over contracts
    def lemma(self, oid, module_name, fname, types: dict, prop: str, mode="R", expect="unsat"):
        """A lemma is a Python predicate over symbolic inputs whose body may call functions under
        contract (through their handlers); it must hold for all inputs."""
        m = self.repo.module(module_name)
        fnode = m.defs[fname]
        sb = SymBuilder(self.repo, self.ann_resolver)
        values = {nm: sb.make(spec, nm) for nm, spec in types.items()}
        bg = list(sb.wf)
        ex = Exec(self.repo, m, self.handlers, self.inline, mode, False, 300, bg, self.numeric, self.trace)
        ex.inline_prefixes = ("contracts.",)
        assumed = []
        goal = self.pred_node(ex, m, fnode, values, Path([], {}), assumptions_out=assumed)
        side = [Obligation(f"{prop}/lemma/{oid}/{label}#{j}", "call-pre", list(ex.bg) + list(cond) + [z3.Not(g)],
                           inputs=values, meta=dict(lemma=fname)) for j, (label, cond, g) in enumerate(ex.side)]
        out = [Obligation(f"{prop}/lemma/{oid}", "lemma" if expect == "unsat" else "canary", list(ex.bg) + assumed + [z3.Not(goal)],
                          expect=expect, inputs=values, meta=dict(lemma=fname, mode=mode))] + side
        if expect == "unsat":
            # the hypotheses the lemma is proved from (background facts and the assumed postconditions of the functions under
            # contract it calls) must be jointly satisfiable -- otherwise the lemma would hold vacuously
            out.append(Obligation(f"{prop}/lemma/{oid}/cover-pre", "cover", list(ex.bg) + assumed, expect="sat", inputs=values,
                                  meta=dict(lemma=fname)))
        return out




def _conjuncts(goal, limit=24):
    """top-level conjuncts of a goal (each becomes its own, smaller obligation)"""
    out, stack = [], [goal]
    while stack:
        g = stack.pop(0)
        if z3.is_and(g) and len(out) + len(stack) + g.num_args() <= limit:
            stack = list(g.children()) + stack
        else:
            out.append(g)
    return out
