"""Entry point: ./check Cxx --tier quick|thorough [--replay file]"""
import argparse
import importlib
import json
import os
import sys

from .session import Session, native_replay, VERIF_ROOT, NATIVE_PY


def main():
    ap = argparse.ArgumentParser()
    ap.add_argument("prop")
    ap.add_argument("--tier", default=os.environ.get("VERIF_TIER", "quick"), choices=["quick", "thorough"])
    ap.add_argument("--replay")
    a = ap.parse_args()
    seed = int(os.environ.get("VERIF_SEED", "0") or 0)
    os.chdir(VERIF_ROOT)
    if a.replay:
        rec = json.load(open(a.replay))
        if "standin" in rec:
            mod = importlib.import_module(f"props.{a.prop}")
            return mod.replay_standin(rec)
        ok, detail = native_replay(a.replay)
        print(json.dumps(detail, indent=1))
        if ok:
            print(f"VIOLATION property={a.prop} replay={a.replay}")
            return 1
        return 0
    try:
        mod = importlib.import_module(f"props.{a.prop}")
    except ModuleNotFoundError:
        print(f"no check for {a.prop}", file=sys.stderr)
        return 3
    s = Session(a.prop, a.tier, seed)
    try:
        mod.run(s)
    except Exception as e:
        import traceback
        s.errors.append(f"driver crashed: {type(e).__name__}: {e}\n{traceback.format_exc()}")
    return s.finish()


if __name__ == "__main__":
    sys.exit(main())
