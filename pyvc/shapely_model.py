"""Assumed contract of shapely (trusted base), as an abstract *shape view*: kind + coordinate structure.

Every constructor the repository calls yields an opaque Shape whose `meta` carries the view; `.bounds`,
`.geoms`, `.area` ... are defined on views.  Conformance of these assumptions on the installed shapely is
checked by the bounded stand-ins (geometry_measures, affinity_pairs), never counted as proved.
"""
from __future__ import annotations

import z3

from .repo import Unsupported
from .values import (V, Num, Bool, Str, NoneV, NONE, Opt, Tup, Lst, Dct, Obj, Opq, Fn, opaque_sort, fresh_name, ite, eq,
                     fresh_int, fresh_real)

SHAPE = opaque_sort("Shape")


def _shape(ex, kind, node, **parts):
    t = ex.fresh_sym(SHAPE, "shp", node)
    ex.trace["assumed"].add(f"shapely: {kind} constructor stores the given coordinates (view)")
    return Opq("Shape", t, dict(kind=kind, **parts))


def closed(ex, ring: Lst) -> Lst:
    """shapely closes rings: ring + [ring[0]] unless first == last"""
    n = ring.length()
    first, last = ring.at(0), ring.at(n - 1)
    is_closed = eq(first, last)
    ext = ex.concat(ring, Lst(items=[first]))
    return ite(is_closed, ring, ext)


def h_box(ex, p, args, kw, node):
    a, b, c, d = [ex.as_num(x, p, node)[1] for x in args[:4]]
    # shapely.geometry.box(minx, miny, maxx, maxy, ccw=True): corner order fixed by the library
    shell = Lst(items=[Lst(items=[c, b]), Lst(items=[c, d]), Lst(items=[a, d]), Lst(items=[a, b]), Lst(items=[c, b])])
    return [(p, _shape(ex, "Polygon", node, shell=shell, holes=Lst(items=[])))]


def h_point(ex, p, args, kw, node):
    c = ex.as_list(args[0], p, node)
    p = ex.implicit(p, c.length() < 2, "ValueError", node)
    return [(p, _shape(ex, "Point", node, coords=Lst(items=[c.at(0), c.at(1)])))]


def h_linestring(ex, p, args, kw, node):
    return [(p, _shape(ex, "LineString", node, coords=ex.as_list(args[0], p, node)))]


def h_linestrings(ex, p, args, kw, node):
    return [(p, _shape(ex, "LineString", node, coords=ex.as_list(args[0], p, node)))]


def h_polygon(ex, p, args, kw, node):
    shell = ex.as_list(args[0], p, node)
    holes = ex.as_list(args[1], p, node) if len(args) > 1 else ex.as_list(kw.get("holes", Lst(items=[])), p, node)
    cs = closed(ex, shell)
    if holes.concrete:
        ch = Lst(items=[closed(ex, ex.as_list(h, p, node)) for h in holes.items])
    else:
        ch = Lst(n=holes.n, at=lambda i: closed(ex, ex.as_list(holes.at(i), p, node)))
    return [(p, _shape(ex, "Polygon", node, shell=cs, holes=ch))]


def h_multipoint(ex, p, args, kw, node):
    return [(p, _shape(ex, "MultiPoint", node, coords=ex.as_list(args[0], p, node)))]


def h_multilinestring(ex, p, args, kw, node):
    return [(p, _shape(ex, "MultiLineString", node, lines=ex.as_list(args[0], p, node)))]


def h_multipolygon(ex, p, args, kw, node):
    polys = ex.as_list(args[0], p, node)
    return [(p, _shape(ex, "MultiPolygon", node, polys=polys))]


# ----------------------------------------------------------------------------- extrema
def extremum(ex, which, dims, elem, p, tag):
    """Fresh m = min/max over a (possibly nested) index space.

    dims: list of functions; dims[k](i0..i(k-1)) -> length term of level k
    elem: function (i0..ik) -> z3 Real term
    The defining facts (attained at a witness, bound for all indices) are a definitional extension,
    guarded by non-emptiness of the index space at the witness path.
    """
    k = len(dims)
    m = ex.fresh_sym(z3.RealSort(), f"{which}_{tag}")
    ws = [ex.fresh_sym(z3.IntSort(), f"w{j}_{which}_{tag}") for j in range(k)]
    inr = []
    for j in range(k):
        inr += [ws[j] >= 0, ws[j] < dims[j](*ws[:j])]
    js = [fresh_int(f"e{j}") for j in range(k)]
    rng = []
    for j in range(k):
        rng += [js[j] >= 0, js[j] < dims[j](*js[:j])]
    bound = (m <= elem(*js)) if which == "min" else (m >= elem(*js))
    facts = inr + [m == elem(*ws), z3.ForAll(js, z3.Implies(z3.And(rng), bound))]
    # guard: the all-zero index tuple is in range (sufficient for non-emptiness; holds for valid geometries)
    zeros = [z3.IntVal(0)] * k
    guard = z3.And([dims[j](*zeros[:j]) > 0 for j in range(k)])
    ex.bg_local(p, facts, guard=guard)
    return m


def _coord(lst: Lst, axis):
    v = lst.at(axis)
    if not isinstance(v, Num):
        raise Unsupported("non-numeric coordinate")
    return v.real()


def view_bounds(ex, shp: Opq, p):
    v = shp.meta
    kind = v["kind"]
    from .calls import BUILTINS
    if kind == "Point":
        c = v["coords"]
        return [c.at(0), c.at(1), c.at(0), c.at(1)]
    if kind in ("LineString", "MultiPoint", "Polygon"):
        pts = v["coords"] if kind != "Polygon" else v["shell"]  # GEOS: a polygon's envelope is its shell's
        if pts.concrete:
            out = []
            for which, axis in (("min", 0), ("min", 1), ("max", 0), ("max", 1)):
                vals = [x.at(axis) for x in pts.items]
                r = BUILTINS[which](ex, p, vals, {}, None) if len(vals) > 1 else [(p, vals[0])]
                out.append(r[0][1])
            return out
        return [Num(extremum(ex, which, [lambda: pts.length()], lambda i, axis=axis: _coord(pts.at(i), axis), p, f"{kind}{axis}"))
                for which, axis in (("min", 0), ("min", 1), ("max", 0), ("max", 1))]
    if kind == "MultiLineString":
        ls = v["lines"]
        return [Num(extremum(ex, which, [lambda: ls.length(), lambda l: ls.at(l).length()],
                             lambda l, k, axis=axis: _coord(ls.at(l).at(k), axis), p, f"MLS{axis}"))
                for which, axis in (("min", 0), ("min", 1), ("max", 0), ("max", 1))]
    if kind == "MultiPolygon":
        ps = v["polys"]
        shell = lambda q: ps.at(q).meta["shell"]
        return [Num(extremum(ex, which, [lambda: ps.length(), lambda q: shell(q).length()],
                             lambda q, k, axis=axis: _coord(shell(q).at(k), axis), p, f"MPG{axis}"))
                for which, axis in (("min", 0), ("min", 1), ("max", 0), ("max", 1))]
    raise Unsupported(f"bounds of {kind}")


def a_bounds(ex, p, args, kw, node):
    shp = args[0]
    ex.trace["assumed"].add("shapely: .bounds = (min x, min y, max x, max y) over the coordinates (polygon: over the shell)")
    return [(p, Tup(view_bounds(ex, shp, p)))]


def a_geoms(ex, p, args, kw, node):
    v = args[0].meta
    ex.trace["assumed"].add("shapely: len(multi.geoms) = number of members")
    if v["kind"] == "MultiPoint":
        return [(p, v["coords"])]
    if v["kind"] == "MultiLineString":
        return [(p, v["lines"])]
    if v["kind"] == "MultiPolygon":
        return [(p, v["polys"])]
    raise Unsupported("geoms of a single geometry")


def shape_view(ex, p, args, kw, node):
    """spec function `shape_view(shp)` (contracts.geometry): the view as a comparable tuple"""
    v = args[0].meta
    k = v["kind"]
    if k == "Point":
        return [(p, Tup([Str(k), v["coords"]]))]
    if k in ("LineString", "MultiPoint"):
        return [(p, Tup([Str(k), v["coords"]]))]
    if k == "Polygon":
        return [(p, Tup([Str(k), v["shell"], v["holes"]]))]
    if k == "MultiLineString":
        return [(p, Tup([Str(k), v["lines"]]))]
    if k == "MultiPolygon":
        ps = v["polys"]
        if ps.concrete:
            polys = Lst(items=[Tup([q.meta["shell"], q.meta["holes"]]) for q in ps.items])
        else:
            polys = Lst(n=ps.n, at=lambda i: Tup([ps.at(i).meta["shell"], ps.at(i).meta["holes"]]))
        return [(p, Tup([Str(k), polys]))]
    raise Unsupported(k)


def a_some_point(ex, p, args, kw, node):
    """centroid / point_on_surface: some point (nothing assumed about where: GEOS; bounded stand-in only)"""
    x = Num(ex.fresh_sym(z3.RealSort(), "px", node))
    y = Num(ex.fresh_sym(z3.RealSort(), "py", node))
    return [(p, _shape(ex, "Point", node, coords=Lst(items=[x, y])))]


def a_coords(ex, p, args, kw, node):
    v = args[0].meta
    if v["kind"] == "Point":
        return [(p, Lst(items=[Tup(list(v["coords"].items))]))]
    if v["kind"] == "LineString":
        return [(p, v["coords"])]
    raise Unsupported("coords of " + v["kind"])


SHAPELY = {
    "attr:Shape.centroid": a_some_point, "shapely.point_on_surface": a_some_point, "attr:Shape.coords": a_coords,
    "shapely.geometry.box": h_box, "shapely.geometry.Point": h_point, "shapely.geometry.LineString": h_linestring,
    "shapely.geometry.Polygon": h_polygon, "shapely.geometry.MultiPoint": h_multipoint,
    "shapely.geometry.MultiLineString": h_multilinestring, "shapely.geometry.MultiPolygon": h_multipolygon,
    "shapely.linestrings": h_linestrings,
    "attr:Shape.bounds": a_bounds, "attr:Shape.geoms": a_geoms,
    "contracts.geometry.shape_view": shape_view,
}
