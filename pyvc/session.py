"""One check run for one property: collect obligations, discharge them, triage failures against
KNOWN_FINDINGS.txt, replay counterexamples on the real code, run bounded stand-ins, write evidence."""
from __future__ import annotations

import fnmatch
import json
import os
import subprocess
import sys
import time
import traceback

import z3

from .repo import Unsupported, REPO_ROOT
from .contract import Obligation, Verifier, VERIF_ROOT
from .smt import discharge, solve_model
from .sym import concretise
from .values import str_distinct_axioms, theory_axioms, str_lit_table

NATIVE_PY = os.environ.get("VERIF_NATIVE_PY", "/venv/bin/python")
KNOWN_FILE = os.path.join(VERIF_ROOT, "KNOWN_FINDINGS.txt")
OUT_ROOT = os.environ.get("VERIF_OUT", VERIF_ROOT)  # evidence/ and replays/ (redirected by tools/selftest.py)


def load_known(prop):
    known, fixed = [], []
    if not os.path.isfile(KNOWN_FILE):
        return known, fixed
    for line in open(KNOWN_FILE, encoding="utf-8"):
        line = line.strip()
        if not line or line.startswith("#"):
            continue
        head, _, rest = line.partition(" ")
        toks = rest.split(" ")
        kv = {}
        text = []
        for t in toks:
            if "=" in t and not text and t.split("=", 1)[0] in ("property", "key", "region"):
                k, v = t.split("=", 1)
                kv[k] = v
            else:
                text.append(t)
        if kv.get("property") != prop:
            continue
        entry = dict(key=kv.get("key", ""), region=kv.get("region"), text=" ".join(text))
        (known if head == "known:" else fixed).append(entry)
    return known, fixed


class Session:
    def __init__(self, prop, tier="quick", seed=0, level="proof"):
        self.prop = prop
        self.tier = tier
        self.seed = seed
        self.level = level
        self.t0 = time.time()
        self.obligations: list[Obligation] = []
        self.undecided: list[dict] = []
        self.standins: list[dict] = []
        self.violations: list[dict] = []
        self.known_printed: list[str] = []
        self.errors: list[str] = []
        self.assumptions: list[str] = []
        self.trusted: set[str] = set()
        self.ver: Verifier | None = None
        self.known, self.fixed = load_known(prop)
        self.min_obligations = 1
        self.timeout_ms = 20000 if tier == "quick" else 120000
        self.samples = []
        self.explanation = ""
        self.extra_coverage = {}

    # ------------------------------------------------------------------ collecting
    def add(self, obls):
        self.obligations += list(obls)

    def attempt(self, label, fn):
        """Run an obligation generator; an Unsupported construct makes its obligations UNDECIDED."""
        try:
            r = fn()
            if r is not None:
                obls = r[0] if isinstance(r, tuple) else r
                self.add(obls if isinstance(obls, list) else [obls])
            return r
        except Unsupported as e:
            self.undecided.append(dict(what=label, reason=f"outside the verified subset: {e}"))
        except Exception as e:  # engine crash: checker error, never a verdict
            self.errors.append(f"{label}: {type(e).__name__}: {e}\n" + "".join(traceback.format_exc().splitlines(True)[-7:]))
        return None

    def table(self, oid, ok: bool, detail=""):
        """A finite fact about module-level literals, computed from the AST values (obligation kind `table`)."""
        o = Obligation(f"{self.prop}/table/{oid}", "table", [z3.Not(z3.BoolVal(bool(ok)))], meta=dict(detail=detail))
        self.obligations.append(o)
        return o

    def _phase(self, name, t0):
        if os.environ.get("VERIF_TIMING"):
            import sys as _s
            print(f"  [timing] {name}: {time.time() - t0:.1f}s", file=_s.stderr, flush=True)

    def attempt_all(self, tasks, procs=None):
        """Run obligation generators in forked worker processes (symbolic execution dominates the wall time).
        tasks: list of (label, fn).  Obligations come back as SMT-LIB text; a failing one is regenerated
        in this process to obtain z3 objects for model extraction and replay."""
        global _TASKS
        _TASKS = tasks
        if not tasks:
            return
        import multiprocessing as mp
        procs = procs or min(16, os.cpu_count() or 4, len(tasks))
        if False:
            outs = [_run_task(i) for i in range(len(tasks))]
        else:
            # one fresh process per task: no solver / cache / counter state leaks from one task into the next, so the
            # outcome does not depend on how many workers the machine offers
            t0 = time.time()
            pool = mp.get_context("fork").Pool(procs, maxtasksperchild=1)
            try:
                outs = pool.map(_run_task, range(len(tasks)), chunksize=1)
            finally:
                pool.close()
                pool.join()
            self._phase("generation (worker pool)", t0)
        for (label, fn), (status, payload, extra) in zip(tasks, outs):
            if status == "ok":
                def regen(fn=fn, memo={}):
                    if "r" not in memo:     # one regeneration per task, shared by all of its obligations
                        r = fn()
                        r = r[0] if isinstance(r, tuple) else r
                        memo["r"] = r if isinstance(r, list) else [r]
                    return memo["r"]
                self.add([Obligation.from_stub(d, regen) for d in payload])
                if self.ver is not None and extra:
                    self.ver.functions_under_contract.update(extra["fuc"])
                    for k, v in extra["trace"].items():
                        self.ver.trace.setdefault(k, set()).update(v)
            elif status == "unsupported":
                self.undecided.append(dict(what=label, reason=f"outside the verified subset: {payload}"))
            else:
                self.errors.append(f"{label}: {payload}")

    # ------------------------------------------------------------------ discharging
    def discharge_all(self):
        obls = self.obligations
        from .smt import bounded_expand, to_smt2
        _t0 = time.time()
        # witnesses first: covers / canaries are tried on their bounded expansion (a `sat` there is genuine)
        pre = {}
        wit = [o for o in obls if o.expect == "sat"]
        for o in wit:     # found by the generating process already
            w = getattr(o, "witness", None)
            if w:
                pre[id(o)] = dict(result="sat", backend=f"z3+bounded-expansion(B={w['B']})", time_s=w["time_s"], reason="", log=[("z3 (generator process)", "sat", w["time_s"])])
        wit = [o for o in wit if id(o) not in pre]
        if wit:
            qs = []
            for o in wit:
                qs.append(o.smt2_expanded(2))
            for o, r in zip(wit, discharge(qs, timeout_ms=min(self.timeout_ms, 5000), cross=False, cvc5=False)):
                if r["result"] == "sat":
                    r["backend"] += "+bounded-expansion(B=2)"
                    pre[id(o)] = r
            # covers whose precondition needs longer lists (a polygon ring has >= 3 points): larger expansions
            for B, tmo in ((3, 8000), (4, 12000)):
                todo = [o for o in wit if id(o) not in pre and B in getattr(o, "_smt2_b", {})]
                if not todo:
                    continue
                for o, r in zip(todo, discharge([o._smt2_b[B] for o in todo], timeout_ms=min(self.timeout_ms, tmo), cross=False, cvc5=False)):
                    if r["result"] == "sat":
                        r["backend"] += f"+bounded-expansion(B={B})"
                        pre[id(o)] = r
        self._phase("witness pass", _t0)
        _t0 = time.time()
        rest = [o for o in obls if id(o) not in pre]
        tms = [self.timeout_ms if o.expect == "unsat" else min(self.timeout_ms, 8000) for o in rest]
        results = discharge([o.smt2() for o in rest], timeout_ms=tms, cross=(self.tier == "thorough"))
        self._phase("main discharge", _t0)
        for o, r in zip(rest, results):
            o.verdict = r
        for o in obls:
            if id(o) in pre:
                o.verdict = pre[id(o)]
        # second round: bounded expansion of index quantifiers, for witnesses only (a `sat` there is a
        # genuine `sat`): covers/canaries that stayed unknown, and proof obligations that stayed unknown
        from .smt import bounded_expand, to_smt2
        again = [o for o in obls if o.verdict["result"] == "unknown" and o.expect == "unsat"]
        for B in (2, 4):
            if not again:
                break
            qs = []
            for o in again:
                try:
                    qs.append(o.smt2_expanded(B))
                except Exception as e:
                    self.errors.append(f"{o.id}: bounded expansion failed: {type(e).__name__}: {e}")
                    qs.append("(assert false)(check-sat)")
            rs = discharge(qs, timeout_ms=self.timeout_ms, cross=False)
            nxt = []
            for o, r in zip(again, rs):
                o.verdict["log"] += [(f"bounded-expansion(B={B})",) + tuple(l[1:]) for l in r["log"]]
                o.verdict["time_s"] = round(o.verdict["time_s"] + r["time_s"], 3)
                if r["result"] == "sat":
                    o.verdict.update(result="sat", backend=f"{r['backend']}+bounded-expansion(B={B})", reason="")
                    o.expanded_B = B
                else:
                    nxt.append(o)
            again = nxt
        return results

    def triage(self):
        dead_covers = []
        self._triage_main(dead_covers)
        # an individual unreachable path is dead code, not a problem; ALL paths of a function unreachable means its
        # hypotheses (precondition / assumed callee contracts) are contradictory
        by_fn = {}
        for o in self.obligations:
            if o.kind == "cover" and not o.id.endswith("/cover-pre"):
                by_fn.setdefault(o.id.rsplit("/", 1)[0], []).append(o)
        for fn, covers in by_fn.items():
            if covers and all(c in dead_covers for c in covers):
                self.undecided.append(dict(what=fn, reason="no path of this function is reachable under its hypotheses (vacuous)"))
            elif covers and not any(c.verdict and c.verdict["result"] == "sat" for c in covers):
                # reachability of at least one path must be SHOWN (a witness), not merely not refuted
                self.undecided.append(dict(what=fn, reason="no path of this function was shown reachable (every cover is unknown or dead): vacuity not excluded"))
        for o in self.obligations:
            if o.id.endswith("/cover-pre") and o.verdict and o.verdict["result"] == "unknown":
                self.undecided.append(dict(what=o.id, reason="the precondition was not shown satisfiable (solver unknown): vacuity not excluded"))
        self.dead_covers = [o.id for o in dead_covers]

    def _triage_main(self, dead_covers):
        for o in self.obligations:
            r = o.verdict["result"]
            if r in ("error", "disagree"):
                self.errors.append(f"{o.id}: solver {r}: {o.verdict['reason']}")
                continue
            if o.expect == "sat":
                if r == "unsat":
                    if o.kind == "canary":
                        self.errors.append(f"{o.id}: canary was proved - the engine is vacuous")
                    elif o.id.endswith("/cover-pre"):
                        self.undecided.append(dict(what=o.id, reason="the precondition is unsatisfiable (vacuous contract)"))
                    else:
                        dead_covers.append(o)
                continue
            if r == "unsat":
                continue
            if r == "unknown":
                self.undecided.append(dict(what=o.id, reason=f"solver unknown/timeout: {o.verdict['reason']}"))
                continue
            # sat on an obligation that must hold
            self.failed(o)

    def failed(self, o: Obligation):
        entry = next((k for k in self.known if fnmatch.fnmatch(o.id, k["key"])), None)
        if entry is not None and entry["region"]:
            sib = next((x for x in self.obligations if x.id == f"{o.id}/outside:{entry['region'].partition(':')[2]}"), None)
            if sib is not None and sib.verdict:
                o.verdict["outside_region"] = sib.verdict["result"]
                if sib.verdict["result"] == "unsat":
                    self.note_known(entry, o)
                    return
                if sib.verdict["result"] == "sat":
                    self.report_violation(sib.materialise())   # a violation outside the known region
                    return
        if o.kind == "post-outside-region":
            return   # reported through its parent obligation
        if entry is None and self._over_cap(o):
            return
        o.materialise()
        if entry is not None:
            if entry["region"]:
                # re-pose with the known region excluded: a different violation is still reported
                mod, _, fn = entry["region"].partition(":")
                m = self.ver.repo.module(mod) or self.ver.load_contracts(mod)
                from .symex import Exec, Path
                ex = Exec(self.ver.repo, m, self.ver.handlers, self.ver.inline, "R", False, 1000, [], self.ver.numeric)
                ex.inline_prefixes = ("contracts.",)
                vals = dict(o.inputs)
                if o.result_val is not None:
                    vals["result"] = o.result_val
                region = self.ver.pred_node(ex, m, m.defs[fn], vals, Path([], {}))
                res = discharge([Obligation(o.id + "/outside-known-region", o.kind, o.assertions + [z3.Not(region)]).smt2()],
                                timeout_ms=self.timeout_ms)[0]
                o.verdict["outside_region"] = res["result"]
                if res["result"] == "unsat":
                    self.note_known(entry, o)
                    return
                if res["result"] != "sat":
                    self.undecided.append(dict(what=o.id, reason="known-region re-query undecided"))
                    return
                o.assertions = o.assertions + [z3.Not(region)]
            else:
                self.note_known(entry, o)
                return
        self.report_violation(o)

    def note_known(self, entry, o=None, what=None):
        line = f"KNOWN-FINDING: property={self.prop} {entry['text']}"
        if line not in self.known_printed:
            self.known_printed.append(line)
            print(line, flush=True)
        if o is not None:
            o.verdict["known"] = entry["key"]

    MAX_REPLAYS_PER_FUNCTION = 3
    MAX_REPLAYS_TOTAL = 8
    MAX_REGENERATED_TASKS = 3

    def _over_cap(self, o: Obligation):
        """a broken function usually fails on many paths: the first few failing obligations of a function (and of the run)
        get a model, a replay file and a native replay; the rest are counted and listed in evidence (bounded work on a
        broken tree -- regenerating a task and replaying natively cost seconds each)"""
        fn_key = o.id.split("/post@")[0].split("/no-")[0].split("/exc-")[0].split("/call-pre/")[0]
        seen = self._per_fn_reports = getattr(self, "_per_fn_reports", {})
        seen[fn_key] = seen.get(fn_key, 0) + 1
        total = sum(min(n, self.MAX_REPLAYS_PER_FUNCTION) for n in seen.values())
        # obligations that came from a worker are regenerated task by task in this process to get z3 objects back:
        # at most MAX_REGENERATED_TASKS tasks are regenerated
        tasks = self._regen_tasks = getattr(self, "_regen_tasks", [])
        rg = getattr(o, "regen", None)
        new_task = rg is not None and not o.assertions and all(rg is not t for t in tasks)
        if (seen[fn_key] <= self.MAX_REPLAYS_PER_FUNCTION and total <= self.MAX_REPLAYS_TOTAL
                and not (new_task and len(tasks) >= self.MAX_REGENERATED_TASKS)):
            if new_task:
                tasks.append(rg)
            return False
        if not getattr(self, "_cap_announced", False):
            self._cap_announced = True
            print("  further failing obligations are listed in the evidence file only (replay cap reached)", flush=True)
        self.violations.append(dict(obligation=o.id, replay=None, reproduced=False, note="not replayed (cap)"))
        return True

    def report_violation(self, o: Obligation):
        os.makedirs(os.path.join(OUT_ROOT, "replays"), exist_ok=True)
        safe = "".join(ch if ch.isalnum() or ch in "-_." else "_" for ch in o.id)
        path = os.path.join(OUT_ROOT, "replays", f"{safe}.json")
        rec = dict(property=self.prop, obligation=o.id, kind=o.kind, meta=o.meta, solver=o.verdict,
                   smt2=o.smt2()[:20000])
        model = self.shrunk_model(o)
        reproduced = None
        if model is not None:
            try:
                inputs = {k: concretise(model, v, str_table=str_lit_table()) for k, v in o.inputs.items()}
                rec["inputs"] = inputs
                if o.result_val is not None:
                    rec["model_result"] = concretise(model, o.result_val, str_table=str_lit_table())
            except Exception as e:
                rec["inputs_error"] = f"{type(e).__name__}: {e}"
        if "inputs" in rec and o.meta.get("contract") and self.ver is not None and o.kind in ("post", "exc", "exc-conv"):
            c = self.ver.contracts.get(o.meta["contract"])
            if c is not None:
                rec["contract_module"] = c.module.name
                rec["contract"] = c.name
                rec["target"] = c.target
                with open(path, "w") as f:
                    json.dump(rec, f, indent=1, default=str)
                reproduced, detail = native_replay(path)
                rec["replay"] = detail
        rec["reproduced"] = bool(reproduced)
        with open(path, "w") as f:
            json.dump(rec, f, indent=1, default=str)
        tail = "" if reproduced else " no-failing-input-found"
        print(f"VIOLATION property={self.prop} replay={path}{tail}", flush=True)
        print(f"  failed obligation: {o.id} ({o.kind}); replay: {'reproduced on the real code' if reproduced else 'no failing input found'}", flush=True)
        self.violations.append(dict(obligation=o.id, replay=path, reproduced=bool(reproduced)))

    MODEL_BUDGET_S = 25        # per failed obligation
    MODEL_BUDGET_RUN_S = 180   # per run (a broken tree fails many obligations; the verdict does not depend on the models)

    def shrunk_model(self, o: Obligation):
        """a model of the failed obligation with small lists (B = 2, 3, 6), on the bounded expansion first; bounded time"""
        from .smt import bounded_expand
        from .sym import length_constraints
        spent = self._model_time = getattr(self, "_model_time", 0.0)
        t0 = time.time()

        def left():
            return min(self.MODEL_BUDGET_S - (time.time() - t0), self.MODEL_BUDGET_RUN_S - spent - (time.time() - t0))

        def attempt(assertions):
            ms = int(min(left(), 10) * 1000)
            if ms < 500:
                return None
            model, _ = solve_model(assertions, timeout_ms=ms)
            return model
        try:
            for B in (getattr(o, "expanded_B", None) or 2, 3, 6):
                size = []
                for v in o.inputs.values():
                    size += length_constraints(v, B)
                try:
                    exp = bounded_expand(o.assertions + size, max(B, 2))
                    model = attempt(exp + theory_axioms(exp))
                    if model is not None:
                        return model
                except Exception:
                    pass
                model = attempt(o.assertions + size + theory_axioms(o.assertions))
                if model is not None:
                    return model
            return attempt(o.assertions + theory_axioms(o.assertions))
        finally:
            self._model_time = spent + (time.time() - t0)

    # ------------------------------------------------------------------ bounded stand-ins (native)
    def standin(self, module, name=None, extra_args=()):
        """Run /verif/bounded/<module>.py under the repo's interpreter; it prints one JSON object."""
        out_path = os.path.join(OUT_ROOT, "replays", f".standin_{self.prop}_{module}.json")
        os.makedirs(os.path.dirname(out_path), exist_ok=True)
        cmd = [NATIVE_PY, "-m", f"bounded.{module}", "--tier", self.tier, "--seed", str(self.seed), "--out", out_path,
               *extra_args]
        env = dict(os.environ, PYTHONPATH=VERIF_ROOT + os.pathsep + os.path.join(REPO_ROOT, "src"), PYTHONHASHSEED="0")
        t = time.time()
        try:
            pr = subprocess.run(cmd, cwd=VERIF_ROOT, env=env, capture_output=True, text=True, timeout=3600)
        except subprocess.TimeoutExpired:
            self.errors.append(f"stand-in {module} timed out")
            return None
        if pr.returncode != 0 or not os.path.isfile(out_path):
            self.errors.append(f"stand-in {module} crashed (exit {pr.returncode}): {pr.stderr[-2000:]}")
            return None
        res = json.load(open(out_path))
        os.unlink(out_path)
        res["name"] = name or module
        res["wall_s"] = round(time.time() - t, 2)
        if res.get("repo_file") and not os.path.realpath(res["repo_file"]).startswith(os.path.realpath(REPO_ROOT)):
            self.errors.append(f"stand-in imported soundevent from {res['repo_file']}, not from {REPO_ROOT}")
        shown = 0
        for fail in res.get("failures", []):
            entry = next((k for k in self.known if fnmatch.fnmatch("standin:" + fail["key"], k["key"])), None)
            if entry is not None:
                self.note_known(entry)
                continue
            os.makedirs(os.path.join(OUT_ROOT, "replays"), exist_ok=True)
            safe = "".join(ch if ch.isalnum() or ch in "-_." else "_" for ch in fail["key"])[:150]
            path = os.path.join(OUT_ROOT, "replays", f"{self.prop}_standin_{safe}.json")
            with open(path, "w") as f:
                json.dump(dict(property=self.prop, standin=module, case=fail), f, indent=1, default=str)
            shown += 1
            if shown <= 3:
                print(f"VIOLATION property={self.prop} replay={path}", flush=True)
                print(f"  bounded stand-in {module}: {str(fail.get('what', fail['key']))[:400]}", flush=True)
            elif shown == 4:
                print(f"  bounded stand-in {module}: further failing cases are written to replays/ only", flush=True)
            self.violations.append(dict(standin=module, key=fail["key"], replay=path, reproduced=True))
        res["failures"] = len(res.get("failures", []))
        self.standins.append(res)
        return res

    # ------------------------------------------------------------------ finishing
    def finish(self):
        wall = time.time() - self.t0
        known_obls = [o for o in self.obligations if o.verdict and o.verdict.get("known")]
        n = len([o for o in self.obligations if o.expect == "unsat" and o not in known_obls])
        discharged = len([o for o in self.obligations if o.expect == "unsat" and o.verdict and o.verdict["result"] == "unsat" and o not in known_obls])
        covers = [o for o in self.obligations if o.kind == "cover"]
        canaries = [o for o in self.obligations if o.kind == "canary"]
        if n < self.min_obligations:
            self.errors.append(f"only {n} obligations generated (expected >= {self.min_obligations}): generator is vacuous")
        if not canaries and self.obligations:
            pass
        by_backend = {}
        solver_time = 0.0
        for o in self.obligations:
            if o.verdict:
                by_backend[o.verdict["backend"]] = by_backend.get(o.verdict["backend"], 0) + 1
                solver_time += o.verdict["time_s"]
        ver = self.ver
        trusted = sorted(self.trusted | ({f"assumed contract: {a}" for a in ver.trace["assumed"]} if ver else set()))
        samples = list(self.samples)
        for o in self.obligations[:2]:
            samples.append(dict(obligation=o.id, kind=o.kind, expect=o.expect, result=o.verdict and o.verdict["result"],
                                smt2=o.smt2()[:1500]))
        for s in self.standins:
            for smp in s.get("samples", [])[:2]:
                samples.append(dict(standin=s["name"], case=smp))
        cov = dict(
            obligations=n,
            discharged=discharged,
            checker_cmd=f"./check {self.prop} --tier {self.tier}",
            trusted_base=trusted,
            samples=samples,
            covers=len(covers),
            covers_reached=len([o for o in covers if o.verdict and o.verdict["result"] == "sat"]),
            canaries=len(canaries),
            canaries_refuted=len([o for o in canaries if o.verdict and o.verdict["result"] == "sat"]),
            by_backend=by_backend,
            solver_time_s=round(solver_time, 3),
            undecided=self.undecided,
            functions_under_contract=ver.functions_under_contract if ver else {},
            inlined_helpers=sorted(ver.trace["inlined"]) if ver else [],
            per_obligation=[dict(id=o.id, kind=o.kind, expect=o.expect, mode=o.meta.get("mode", "R"),
                                 result=o.verdict and o.verdict["result"], backend=o.verdict and o.verdict["backend"],
                                 time_s=o.verdict and o.verdict["time_s"], known=o.verdict and o.verdict.get("known"))
                            for o in self.obligations],
            bounded_standins=[{k: v for k, v in s.items() if k != "samples"} for s in self.standins],
            known_findings_printed=self.known_printed,
            obligations_inside_known_finding_regions=[o.id for o in known_obls],
            explanation=self.explanation,
        )
        # generic keys (measured): evaluations = solver queries + stand-in cases
        cov["evaluations"] = len(self.obligations) + sum(s.get("evaluations", 0) for s in self.standins)
        cov["distinct_nontrivial"] = len({o.id for o in self.obligations if o.expect == "unsat"}) + sum(
            s.get("distinct_nontrivial", 0) for s in self.standins)
        cov["rule"] = ("one case per generated obligation with a distinct id (non-trivial: expects unsat, i.e. a proof "
                       "obligation rather than a cover); stand-in cases counted by each stand-in's own rule")
        cov.update(self.extra_coverage)
        generic = ["the verifier pyvc itself (symbolic execution of the Python subset, loop summaries, pydantic construction model) and the SMT solvers",
                   "machine arithmetic treated as mathematical (floats read as reals) in every discharged obligation; rounding is exercised by the bounded stand-ins only",
                   "CPython semantics of the constructs outside the modelled subset are not used: a function that leaves the subset makes its obligations undecided"]
        ev = dict(property_id=self.prop, tier=self.tier, seed=self.seed, level=self.level, coverage=cov,
                  assumptions=list(self.assumptions) + list(trusted) + generic, wall_s=round(wall, 2), violations=len(self.violations))
        if self.errors:
            ev["errors"] = self.errors
        os.makedirs(os.path.join(OUT_ROOT, "evidence"), exist_ok=True)
        with open(os.path.join(OUT_ROOT, "evidence", f"{self.prop}.json"), "w") as f:
            json.dump(ev, f, indent=1, default=str)
        print(f"{self.prop} [{self.tier}] obligations={n} discharged={discharged} covers={cov['covers_reached']}/{cov['covers']} "
              f"canaries={cov['canaries_refuted']}/{cov['canaries']} standins={[(s['name'], s.get('evaluations')) for s in self.standins]} "
              f"undecided={len(self.undecided)} violations={len(self.violations)} known={len(self.known_printed)} "
              f"errors={len(self.errors)} wall={wall:.1f}s", flush=True)
        for u in self.undecided:
            print(f"  UNDECIDED {u['what']}: {u['reason']}", flush=True)
        for e in self.errors:
            print(f"  ERROR {e}", file=sys.stderr, flush=True)
        if self.violations:
            return 1
        if self.errors:
            return 3
        if self.undecided:
            return 2
        return 0


_TASKS = []


def _run_task(i):
    label, fn = _TASKS[i]
    try:
        r = fn()
        ver = None
        if isinstance(r, tuple):
            obls = r[0]
        else:
            obls = r
        obls = obls if isinstance(obls, list) else [obls]
        extra = None
        v = getattr(fn, "ver", None)
        if v is not None:
            extra = dict(fuc=dict(v.functions_under_contract), trace={k: set(map(str, s_)) for k, s_ in v.trace.items() if not k.startswith("_")})
        # larger witness expansions only where vacuity is decided: the precondition cover and the first path cover of a function
        deep, seen_fn = set(), set()
        for o in obls:
            if o.expect == "sat":
                fn = o.id.rsplit("/", 1)[0]
                if o.id.endswith("/cover-pre") or fn not in seen_fn:
                    deep.add(id(o))
                if not o.id.endswith("/cover-pre"):
                    seen_fn.add(fn)
        return "ok", [o.stub(deep=id(o) in deep) for o in obls], extra
    except Unsupported as e:
        return "unsupported", str(e), None
    except Exception as e:
        return "error", f"{type(e).__name__}: {e}\n" + "".join(traceback.format_exc().splitlines(True)[-7:]), None


def native_replay(path):
    env = dict(os.environ, PYTHONPATH=VERIF_ROOT + os.pathsep + os.path.join(REPO_ROOT, "src"), PYTHONHASHSEED="0")
    try:
        pr = subprocess.run([NATIVE_PY, "-m", "native.replay", path], cwd=VERIF_ROOT, env=env, capture_output=True,
                            text=True, timeout=600)
        last = [l for l in pr.stdout.strip().splitlines() if l.startswith("{")]
        if not last:
            return False, dict(error=(pr.stdout + pr.stderr)[-1500:])
        d = json.loads(last[-1])
        return bool(d.get("reproduced")), d
    except Exception as e:
        return False, dict(error=f"{type(e).__name__}: {e}")
