"""Symbolic inputs from type specifications, and concretisation of solver models."""
from __future__ import annotations

import ast
from fractions import Fraction

import z3

from .repo import Unsupported
from .values import (V, Num, Bool, Str, NoneV, NONE, Opt, Tup, Lst, Dct, Obj, Opq, StrSort, opaque_sort, fresh_name)


class SymBuilder:
    """Builds symbolic values from type-spec strings.

    Specs: float int bool str | Optional[T] | Tuple[T1,T2,...] | List[T] | Obj:<qualified class> | Opq:<Kind>
    Symbols are named after `name`; list elements are uninterpreted functions of their index tuple.
    `wf` collects well-formedness axioms (list lengths are non-negative).
    """

    def __init__(self, repo=None, ann_resolver=None, ctx=(), suffix=""):
        self.repo = repo
        self.wf: list = []
        self.ann_resolver = ann_resolver
        self.symbols: dict[str, object] = {}
        self.ctx = tuple(ctx)      # enclosing loop indices: every symbol is a function of them
        self.suffix = suffix

    def make(self, spec: str, name: str, idx=()) -> V:
        node = ast.parse(spec.replace("Obj:", "Obj__").replace("Opq:", "Opq__"), mode="eval").body
        return self._make(node, name, tuple(idx))

    def _sym(self, sort, name, idx):
        full = name + self.suffix
        allidx = self.ctx + tuple(idx)
        if not allidx:
            c = z3.Const(full, sort)
            self.symbols[name] = c
            return c
        f = z3.Function(full, *[t.sort() if z3.is_expr(t) else z3.IntSort() for t in allidx], sort)
        self.symbols[name] = f
        return f(*allidx)

    def _make(self, node, name, idx) -> V:
        if isinstance(node, ast.Name):
            k = node.id
            if k == "float":
                return Num(self._sym(z3.RealSort(), name, idx))
            if k == "int":
                return Num(self._sym(z3.IntSort(), name, idx))
            if k == "bool":
                return Bool(self._sym(z3.BoolSort(), name, idx))
            if k == "str":
                return Str(t=self._sym(StrSort, name, idx))
            if k == "None":
                return NONE
            if k == "SMatrix":   # a 2-d float matrix: rows, columns and a cell function
                from .array_model import smatrix, SMAT
                n_ = self._sym(z3.IntSort(), name + ".rows", idx)
                m_ = self._sym(z3.IntSort(), name + ".cols", idx)
                self.wf.append(z3.And(n_ >= 0, m_ >= 0) if not (idx or self.ctx) else z3.BoolVal(True))
                self._sym(z3.RealSort(), name + "[][]", tuple(idx) + (z3.Int("wfi"), z3.Int("wfj")))
                f = self.symbols[name + "[][]"]
                allidx = self.ctx + tuple(idx)
                return smatrix(n_, m_, lambda i, j, f=f, allidx=allidx: f(*allidx, i, j), t=self._sym(SMAT, name, idx))
            if k == "NDArray":   # a 1-d float array: length + element function
                from .values import NDArr
                ln = self._sym(z3.IntSort(), name + ".len", idx)
                self.wf.append(ln >= 0 if not (idx or self.ctx) else z3.BoolVal(True))
                self._sym(z3.RealSort(), name + "[]", tuple(idx) + (z3.Int("wfi"),))
                f = self.symbols[name + "[]"]
                allidx = self.ctx + tuple(idx)
                return NDArr(ln, lambda i, f=f, allidx=allidx: Num(f(*allidx, i)), "float64")
            if k.startswith("Opq__"):
                kind = k[5:]
                return Opq(kind, self._sym(opaque_sort(kind), name, idx))
            if k.startswith("Obj__"):
                return self.make_obj(k[5:].replace("__", "."), name, idx)
            raise Unsupported(f"type spec {k}")
        if isinstance(node, ast.Attribute):  # Obj:pkg.mod.Class parsed as attribute chain
            parts = []
            cur = node
            while isinstance(cur, ast.Attribute):
                parts.append(cur.attr)
                cur = cur.value
            parts.append(cur.id)
            q = ".".join(reversed(parts))
            if q.startswith("Obj__"):
                return self.make_obj(q[5:], name, idx)
            raise Unsupported(f"type spec {q}")
        if isinstance(node, ast.Subscript):
            head = node.value.id
            args = node.slice.elts if isinstance(node.slice, ast.Tuple) else [node.slice]
            if head == "Optional":
                isnone = self._sym(z3.BoolSort(), name + ".isnone", idx)
                return Opt(isnone, self._make(args[0], name, idx))
            if head == "Tuple":
                return Tup([self._make(a, f"{name}.{j}", idx) for j, a in enumerate(args)])
            if head == "List":
                ln = self._sym(z3.IntSort(), name + ".len", idx)
                if idx or self.ctx:
                    vs = [z3.Const(f"wfc{j}", t.sort()) for j, t in enumerate(self.ctx)] + [z3.Int(f"wf{j}") for j in range(len(idx))]
                    f = self.symbols[name + ".len"]
                    self.wf.append(z3.ForAll(vs, f(*vs) >= 0))
                else:
                    self.wf.append(ln >= 0)
                inner = args[0]
                # an identity term of this list value (uninterpreted sort): lets a pure function under contract be a
                # function of the list it is applied to (see flatten_terms)
                lid = self._sym(opaque_sort("ListId"), name + ".id", idx)
                return Lst(n=ln, at=lambda i, inner=inner: self._make(inner, name + "[]", idx + (i,)), tag=("sym", lid))
            if head == "Dict":
                from .values import DctL, distinct_list
                ln = self._sym(z3.IntSort(), name + ".len", idx)
                self.wf.append(ln >= 0 if not (idx or self.ctx) else z3.BoolVal(True))
                kspec, vspec = args
                keys = Lst(n=ln, at=lambda i: self._make(kspec, name + ".keys[]", idx + (i,)))
                vals = Lst(n=ln, at=lambda i: self._make(vspec, name + ".vals[]", idx + (i,)))
                if not (idx or self.ctx):
                    self.wf.append(distinct_list(keys))   # a dict has pairwise distinct keys
                return DctL(keys, vals)
            raise Unsupported(f"type spec {head}[...]")
        raise Unsupported("type spec")

    def make_obj(self, qual, name, idx):
        fields = {}
        self._depth = getattr(self, "_depth", 0) + 1
        try:
            for f in self.repo.class_fields(qual):
                d = f["default"]
                if f["name"] == "type" and isinstance(d, ast.Constant) and isinstance(d.value, str):
                    fields["type"] = Str(d.value)  # discriminator tag: fixed per class
                    continue
                spec = self.ann_resolver(f["module"], f["ann"]) if self.ann_resolver else None
                if spec is None or (self._depth > 3 and "Obj:" in spec):
                    continue
                fields[f["name"]] = self.make(spec, f"{name}.{f['name']}", idx)
        finally:
            self._depth -= 1
        return Obj(qual, fields)


# ----------------------------------------------------------------------------- model -> python
def _val(model, t):
    v = model.eval(t, model_completion=True)
    if z3.is_int_value(v):
        return v.as_long()
    if z3.is_rational_value(v):
        fr = Fraction(v.numerator_as_long(), v.denominator_as_long())
        return fr
    if z3.is_algebraic_value(v):
        return Fraction(str(v.approx(20).as_fraction())) if hasattr(v.approx(20), "as_fraction") else float(v.approx(20).as_decimal(17).rstrip("?"))
    if z3.is_true(v):
        return True
    if z3.is_false(v):
        return False
    return str(v)


def concretise(model, v: V, max_len=8, str_table=None):
    """Python (JSON-able) value of symbolic value `v` in `model`.  Fractions become
    {'frac': [num, den]} so the replayer can rebuild the exact number."""
    if isinstance(v, Num):
        x = _val(model, v.t)
        if isinstance(x, Fraction):
            if x.denominator == 1 and not v.is_int:
                return float(x.numerator)
            return {"frac": [x.numerator, x.denominator]}
        if isinstance(x, int) and not v.is_int:
            return float(x)
        return x
    if isinstance(v, Bool):
        return bool(_val(model, v.t))
    if isinstance(v, NoneV):
        return None
    if isinstance(v, Opt):
        return None if _val(model, v.isnone) else concretise(model, v.val, max_len, str_table)
    if isinstance(v, Str):
        if v.concrete:
            return v.c
        val = model.eval(v.t, model_completion=True)
        for s, c in (str_table or {}).items():
            if z3.is_true(model.eval(c == val, model_completion=True)):
                return s
        return "s_" + str(val).replace("!", "_").replace("PyStr", "")
    if isinstance(v, Tup):
        return {"tuple": [concretise(model, x, max_len, str_table) for x in v.items]}
    if isinstance(v, Lst):
        if v.concrete:
            return [concretise(model, x, max_len, str_table) for x in v.items]
        n = _val(model, v.n)
        if n > max_len:
            raise ValueError(f"model list too long ({n})")
        return [concretise(model, v.at(z3.IntVal(i)), max_len, str_table) for i in range(max(n, 0))]
    if isinstance(v, Obj):
        return {"obj": v.cls, "fields": {k: concretise(model, x, max_len, str_table) for k, x in v.fields.items()}}
    if isinstance(v, Opq):
        out = {"opaque": v.kind, "id": str(model.eval(v.t, model_completion=True))}
        if v.kind == "Geometry":
            # what the model says about this geometry: its type tag and bounds (the uninterpreted functions of
            # props/common.opaque_geometry_specs) -- enough for the replayer to build a real geometry with those bounds
            try:
                from .values import StrSort
                gs = v.t.sort()
                bs = [_val(model, z3.Function(f"bounds_{k}", gs, z3.RealSort())(v.t)) for k in range(4)]
                out["bounds"] = [float(b) if not isinstance(b, str) else None for b in bs]
                tval = model.eval(z3.Function("geometry_type", gs, StrSort)(v.t), model_completion=True)
                for s_, c_ in (str_table or {}).items():
                    if z3.is_true(model.eval(c_ == tval, model_completion=True)):
                        out["type"] = s_
            except Exception:
                pass
        return out
    if isinstance(v, Dct):
        return {"dict": [[concretise(model, k, max_len, str_table), concretise(model, x, max_len, str_table)] for k, x in v.pairs]}
    return {"unmodelled": type(v).__name__}


def length_terms(v: V, depth=3):
    """All list-length terms reachable in v up to `depth` (for size-bounded re-queries)."""
    out = []
    if isinstance(v, Lst) and not v.concrete:
        out.append(v.n)
    if isinstance(v, Opt):
        out += length_terms(v.val, depth)
    if isinstance(v, Tup):
        for x in v.items:
            out += length_terms(x, depth)
    if isinstance(v, Obj):
        for x in v.fields.values():
            out += length_terms(x, depth)
    return out


def length_constraints(v: V, B: int, depth=4):
    """size bounds for a shrunk counterexample: every list reachable through indices < B has length <= B"""
    out = []
    if depth < 0:
        return out
    if isinstance(v, Lst) and not v.concrete:
        out.append(v.n <= B)
        for i in range(B):
            try:
                out += length_constraints(v.at(z3.IntVal(i)), B, depth - 1)
            except Exception:
                break
    elif isinstance(v, Lst):
        for x in v.items:
            out += length_constraints(x, B, depth - 1)
    elif isinstance(v, Opt):
        out += length_constraints(v.val, B, depth)
    elif isinstance(v, Tup):
        for x in v.items:
            out += length_constraints(x, B, depth - 1)
    elif isinstance(v, Obj):
        for x in v.fields.values():
            out += length_constraints(x, B, depth - 1)
    return out


def flatten_terms(v: V):
    """z3 terms determining a value (None if it contains a symbolic list or an unmodelled part)"""
    if isinstance(v, (Num, Bool, Opq)):
        return [v.t]
    if isinstance(v, Str):
        return [v.t]
    if isinstance(v, NoneV):
        return []
    if isinstance(v, Opt):
        inner = flatten_terms(v.val)
        return None if inner is None else [v.isnone] + inner
    if isinstance(v, Lst) and not v.concrete and isinstance(v.tag, tuple) and v.tag[0] == "sym":
        return [v.tag[1]]
    if isinstance(v, Tup) or (isinstance(v, Lst) and v.concrete):
        out = []
        for x in v.items:
            f = flatten_terms(x)
            if f is None:
                return None
            out += f
        return out
    if isinstance(v, Obj):
        out = []
        for k in sorted(v.fields):
            f = flatten_terms(v.fields[k])
            if f is None:
                return None
            out += f
        return out
    if isinstance(v, Dct) and not v.pairs:
        return []
    return None
