"""Type annotations (AST) -> type-spec strings / values for SymBuilder."""
from __future__ import annotations

import ast

from .repo import Repo, Module, Unsupported
from .values import Str

PRIMS = {"float": "float", "int": "int", "bool": "bool", "str": "str"}
OPAQUE_EXTERNAL = {
    "uuid.UUID": "Opq:UUID", "datetime.datetime": "Opq:DateTime", "datetime.date": "Opq:Date",
    "datetime.time": "Opq:Time", "pathlib.Path": "Opq:Path", "os.PathLike": "Opq:Path",
}


def make_resolver(repo: Repo, obj_depth=3, skip_classes=()):
    def resolve(module: Module, ann, depth=0):
        if isinstance(ann, ast.Constant):
            if ann.value is None:
                return "None"
            if isinstance(ann.value, str):
                try:
                    return resolve(module, ast.parse(ann.value, mode="eval").body, depth)
                except SyntaxError:
                    return None
            return None
        if isinstance(ann, ast.Name):
            if ann.id in PRIMS:
                return PRIMS[ann.id]
            if ann.id in module.assigns:
                return resolve(module, module.assigns[ann.id], depth)
            if ann.id in module.defs and isinstance(module.defs[ann.id], ast.ClassDef):
                q = module.name + "." + ann.id
                return None if q in skip_classes or depth >= obj_depth else "Obj:" + q
            if ann.id in module.imports:
                return by_qual(module.imports[ann.id], depth)
            return None
        if isinstance(ann, ast.Attribute):
            q = repo.qualify(module, ann)
            return by_qual(q, depth) if q else None
        if isinstance(ann, ast.Subscript):
            head = ann.value.id if isinstance(ann.value, ast.Name) else (ann.value.attr if isinstance(ann.value, ast.Attribute) else None)
            args = ann.slice.elts if isinstance(ann.slice, ast.Tuple) else [ann.slice]
            if head in ("List", "list", "Sequence"):
                inner = resolve(module, args[0], depth)
                return f"List[{inner}]" if inner else None
            if head == "Optional":
                inner = resolve(module, args[0], depth)
                return f"Optional[{inner}]" if inner else None
            if head in ("Tuple", "tuple"):
                inner = [resolve(module, a, depth) for a in args]
                return f"Tuple[{', '.join(inner)}]" if all(inner) else None
            if head in ("Dict", "dict"):
                inner = [resolve(module, a, depth) for a in args]
                return f"Dict[{', '.join(inner)}]" if len(inner) == 2 and all(inner) else None
            if head == "Literal":
                if all(isinstance(a, ast.Constant) and isinstance(a.value, str) for a in args):
                    return "str"
                return None
            if head == "Union":
                non_none = [a for a in args if not (isinstance(a, ast.Constant) and a.value is None)]
                if len(non_none) == 1:
                    inner = resolve(module, non_none[0], depth)
                    return f"Optional[{inner}]" if inner and len(non_none) < len(args) else inner
                return None
            if head == "Annotated":
                return resolve(module, args[0], depth)
            return None
        if isinstance(ann, ast.BinOp) and isinstance(ann.op, ast.BitOr):
            sides = [ann.left, ann.right]
            non_none = [a for a in sides if not (isinstance(a, ast.Constant) and a.value is None)]
            if len(non_none) == 1:
                inner = resolve(module, non_none[0], depth)
                return f"Optional[{inner}]" if inner else None
            return None
        return None

    def by_qual(q, depth):
        if q in OPAQUE_EXTERNAL:
            return OPAQUE_EXTERNAL[q]
        r = repo.resolve(q)
        if r[0] == "class":
            return None if r[3] in skip_classes or depth >= obj_depth else "Obj:" + r[3]
        if r[0] == "value":
            return resolve(r[1], r[2], depth)
        return None

    def top(module, ann):
        return resolve(module, ann, 0)

    return top
