"""Assumed contracts of numpy / pandas / xarray for one-dimensional coordinate handling (trusted base).

An xarray.DataArray is abstracted along ONE dimension: coordinates c_0..c_{n-1} (strictly increasing where the
operation needs it), the attrs of that coordinate, and data d_i attached to each coordinate (all other dimensions are
folded into the opaque value d_i).  Conformance on the installed libraries: bounded stand-ins range_dims / crop_extend.
"""
from __future__ import annotations

import z3

from .repo import Unsupported
from .values import (V, Num, Bool, Str, NoneV, NONE, Opt, Tup, Lst, Dct, Obj, Opq, Fn, NDArr, ModV, opaque_sort, fresh_name, ite, eq,
                     fresh_int)

ARR = opaque_sort("DataArray")
DATUM = opaque_sort("Datum")


def _int_or_real(x: Num):
    return x.t


def np_arange(ex, p, args, kw, node):
    """numpy.arange(start, stop, step): length max(0, ceil((stop - start) / step)), element i = start + i * step
    (exact for integers; for floats this is the mathematical (mode R) reading of the documented behaviour)"""
    names = ["start", "stop", "step"]
    vals = dict(zip(names, args)) if len(args) != 1 else {"stop": args[0]}
    for k in names:
        if k in kw:
            vals[k] = kw[k]
    start = vals.get("start", Num(0))
    step = vals.get("step", Num(1))
    stop = vals["stop"]
    p, a = ex.as_num(start, p, node)
    p, b = ex.as_num(stop, p, node)
    p, s_ = ex.as_num(step, p, node)
    ex.trace["assumed"].add("numpy.arange(start, stop, step): ceil((stop-start)/step) elements start + i*step (floats read as reals)")
    p = ex.implicit(p, s_.t == 0, "ZeroDivisionError", node)
    if a.is_int and b.is_int and s_.is_int:
        d = b.t - a.t
        # ceil division for either sign of step
        q = z3.If(s_.t > 0, (d + s_.t - 1) / s_.t, (-d + (-s_.t) - 1) / (-s_.t))
        n = z3.If(q > 0, q, 0)
        return [(p, NDArr(n, lambda i, a=a, s_=s_: Num(a.t + i * s_.t), "int64"))]
    q = (b.real() - a.real()) / s_.real()
    n = z3.If(q > 0, -z3.ToInt(-q), 0)
    return [(p, NDArr(n, lambda i, a=a, s_=s_: Num(a.real() + z3.ToReal(i) * s_.real()), "float64"))]


def nd_slice(ex, base: NDArr, lo, hi, step):
    n = base.n

    def clamp(x, default):
        if x is None:
            return default
        x = z3.If(x < 0, n + x, x)
        return z3.If(x < 0, 0, z3.If(x > n, n, x))
    if step is not None:
        if z3.is_int_value(step) and step.as_long() == -1 and lo is None and hi is None:
            return NDArr(n, lambda i: base.at(n - 1 - i), base.dtype)
        raise Unsupported("array slice step")
    a = clamp(lo, z3.IntVal(0))
    b = clamp(hi, n)
    ln = z3.If(b >= a, b - a, 0)
    return NDArr(ln, lambda i: base.at(a + i), base.dtype)


def np_concatenate(ex, p, args, kw, node):
    parts = ex.as_list(args[0], p, node)
    if not parts.concrete or not all(isinstance(x, NDArr) for x in parts.items):
        raise Unsupported("concatenate of non-arrays")
    ex.trace["assumed"].add("numpy.concatenate joins the arrays in order")
    items = parts.items
    total = items[0].n
    for x in items[1:]:
        total = total + x.n

    def at(i):
        res, off = None, z3.IntVal(0)
        offs = []
        for x in items:
            offs.append(off)
            off = off + x.n
        res = items[-1].at(i - offs[-1])
        for x, o in reversed(list(zip(items[:-1], offs[:-1]))):
            res = ite(i < o + x.n, x.at(i - o), res)
        return res
    return [(p, NDArr(total, at, items[0].dtype))]


def nd_binop(ex, sym, a, b, p, node):
    """scalar (op) array, elementwise"""
    arr, sc, arr_left = (a, b, True) if isinstance(a, NDArr) else (b, a, False)
    p, scn = ex.as_num(sc, p, node)

    def at(i):
        el = arr.at(i)
        x, y = (el, scn) if arr_left else (scn, el)
        return ex.arith(sym, x, y, p, node)[1]
    return [(p, NDArr(arr.n, at, "float64" if not scn.is_int else arr.dtype))]


NDSUM = z3.Function("ndsum", z3.ArraySort(z3.IntSort(), z3.RealSort()), z3.IntSort(), z3.RealSort())


def nd_sum(ex, base: NDArr):
    """assumed (numpy): arr.sum() is a function of the array's length and entries (uninterpreted: ndsum(entries, n))"""
    i = z3.Int("ndsum_i")
    ex.trace["assumed"].add("numpy: arr.sum() is a function of the array's entries and length (uninterpreted)")
    return Num(NDSUM(z3.Lambda([i], base.at(i).real()), base.n))


def np_mean(ex, p, args, kw, node):
    """assumed (numpy): mean of a non-empty list of reals = sum / count"""
    xs = ex.as_list(args[0], p, node)
    if not xs.concrete or not xs.items:
        raise Unsupported("numpy.mean of a list of unknown or zero length")
    ex.trace["assumed"].add("numpy.mean(xs) = sum(xs) / len(xs) (floats read as reals)")
    tot = None
    for x in xs.items:
        r = ex.as_num(x, p, node)[1].real()
        tot = r if tot is None else tot + r
    return [(p, Num(tot / len(xs.items)))]


def np_isnan(ex, p, args, kw, node):
    ex.trace["assumed"].add("numpy.isnan is false on the values modelled here (reals)")
    return [(p, Bool(z3.BoolVal(False)))]


def nd_method(ex, p, base: NDArr, attr, args, kw, node):
    if attr == "astype":
        return [(p, base)]
    if attr == "copy":
        return [(p, base)]
    if attr == "sum" and not args and not kw:
        return [(p, nd_sum(ex, base))]
    raise Unsupported(f"ndarray.{attr}")


# ----------------------------------------------------------------------------- xarray, one dimension
def make_dataarray(name, dim: str, n=None, with_step=None):
    """a symbolic 1-D view: strictly increasing coordinates, data values, coordinate attrs"""
    n = n if n is not None else z3.Int(name + ".n")
    C = z3.Function(name + ".coord", z3.IntSort(), z3.RealSort())
    D = z3.Function(name + ".data", z3.IntSort(), DATUM)
    coords = NDArr(n, lambda i: Num(C(i)), "float64")
    data = NDArr(n, lambda i: Opq("Datum", D(i)), "float64")
    i, j = z3.Int(name + ".mono_i"), z3.Int(name + ".mono_j")
    wf = [n >= 1, z3.ForAll([i, j], z3.Implies(z3.And(i >= 0, i < j, j < n), C(i) < C(j)))]   # strictly increasing axis
    attrs = Dct([(Str("step"), with_step)]) if with_step is not None else Dct([])
    return Opq("DataArray", z3.Const(name, ARR), dict(dim=dim, coords=coords, data=data, attrs=attrs)), wf


def _meta(v):
    if not (isinstance(v, Opq) and v.kind == "DataArray"):
        raise Unsupported("DataArray expected")
    return v.meta


def da_getattr(attr):
    def h(ex, p, args, kw, node):
        m = _meta(args[0])
        if attr == "coords":
            return [(p, Obj("xarray.Coords", {"__arr": args[0]}))]
        if attr in ("sizes",):
            return [(p, Dct([(Str(m["dim"]), Num(m["coords"].n))]))]
        if attr == "indexes":
            return [(p, Dct([(Str(m["dim"]), Opq("Index", z3.Const(fresh_name("index"), opaque_sort("Index")), dict(coords=m["coords"])))]))]
        if attr == "dims":
            return [(p, Tup([Str(m["dim"])]))]
        if attr == "data":
            return [(p, m["data"])]
        raise Unsupported(f"DataArray.{attr}")
    return h


def coords_getitem(ex, p, args, kw, node):
    cs, dim = args
    arr = cs.fields["__arr"]
    m = _meta(arr)
    if not (isinstance(dim, Str) and dim.concrete and dim.c == m["dim"]):
        pass  # the single modelled dimension
    return [(p, Obj("xarray.Coord", {"data": m["coords"], "attrs": m["attrs"], "dtype": Str("float64")}))]


def index_min(ex, p, args, kw, node):
    c = args[0].meta["coords"]
    ex.trace["assumed"].add("pandas Index.min()/max() on a monotone increasing index are the first/last label")
    p = ex.implicit(p, c.n <= 0, "ValueError", node)
    return [(p, c.at(z3.IntVal(0)))]


def index_max(ex, p, args, kw, node):
    c = args[0].meta["coords"]
    p = ex.implicit(p, c.n <= 0, "ValueError", node)
    return [(p, c.at(c.n - 1))]


def index_slice_bound(ex, p, args, kw, node):
    """Index.get_slice_bound(v, 'right') on a monotone increasing index: the number of labels <= v"""
    idx, v, side = args[0], args[1], args[2]
    c = idx.meta["coords"]
    ex.trace["assumed"].add("pandas Index.get_slice_bound(v, 'right') = number of labels <= v (monotone increasing index)")
    if not (isinstance(side, Str) and side.concrete and side.c == "right"):
        raise Unsupported("get_slice_bound side")
    p, x = ex.as_num(v, p, node)
    k = ex.fresh_sym(z3.IntSort(), "bound", node)
    i = fresh_int("gsb")
    ex.bg_local(p, [k >= 0, k <= c.n, z3.ForAll([i], z3.Implies(z3.And(i >= 0, i < c.n), (c.at(i).real() <= x.real()) == (i < k)))])
    return [(p, Num(k))]


def new_array_like(ex, arr, coords: NDArr, data: NDArr, node, attrs=None):
    m = _meta(arr)
    return Opq("DataArray", ex.fresh_sym(ARR, "arr", node), dict(dim=m["dim"], coords=coords, data=data, attrs=attrs if attrs is not None else m["attrs"]))


def da_sel(ex, p, args, kw, node):
    """arr.sel({dim: slice(a, b)}) keeps exactly the labels in [a, b]; arr.sel({dim: labels}) the given labels, in order,
    each with the data attached to that label (labels must be labels of the array)"""
    arr, sel = args
    m = _meta(arr)
    c, d = m["coords"], m["data"]
    (k, what), = sel.pairs
    ex.trace["assumed"].add("xarray sel: slice(a, b) on a monotone float index selects exactly the labels in [a, b]; a label array selects those labels with their data")
    if isinstance(what, Opq) and what.kind == "Slice":
        a, b = what.meta["start"], what.meta["stop"]
        p, an = ex.as_num(a, p, node)
        p, bn = ex.as_num(b, p, node)
        lo, hi = ex.fresh_sym(z3.IntSort(), "sel_lo", node), ex.fresh_sym(z3.IntSort(), "sel_hi", node)
        i = fresh_int("seli")
        ex.bg_local(p, [lo >= 0, lo <= hi, hi <= c.n,
                        z3.ForAll([i], z3.Implies(z3.And(i >= 0, i < c.n),
                                                  z3.And(c.at(i).real() >= an.real(), c.at(i).real() <= bn.real()) == z3.And(i >= lo, i < hi)))])
        return [(p, new_array_like(ex, arr, NDArr(hi - lo, lambda j: c.at(lo + j), "float64"), NDArr(hi - lo, lambda j: d.at(lo + j), "float64"), node))]
    if isinstance(what, NDArr):
        # labels taken from the array's own coordinates (a contiguous block c[s : s + w])
        off = getattr(what, "offset_of", None)
        src = _offset_in(what, c)
        if src is None:
            raise Unsupported("sel with labels that are not a block of the array's own coordinates")
        return [(p, new_array_like(ex, arr, what, NDArr(what.n, lambda j: d.at(src + j), "float64"), node))]
    raise Unsupported("sel argument")


_BLOCKS = {}


def _offset_in(sub: NDArr, base: NDArr):
    return _BLOCKS.get(id(sub), (None, None))[0] if _BLOCKS.get(id(sub), (None, None))[1] is base else None


def coord_data_slice(ex, base: NDArr, lo, hi, step):
    """slicing the coordinate array remembers where the block came from (for sel / reindex by label)"""
    out = nd_slice(ex, base, lo, hi, step)
    if step is None:
        n = base.n

        def clamp(x, default):
            if x is None:
                return default
            x = z3.If(x < 0, n + x, x)
            return z3.If(x < 0, 0, z3.If(x > n, n, x))
        _BLOCKS[id(out)] = (clamp(lo, z3.IntVal(0)), base, out)
    return out


def da_reindex(ex, p, args, kw, node):
    """arr.reindex({dim: labels}, fill_value=f): the new axis is `labels`; data at a label equal to an old label is kept,
    every other cell holds f"""
    arr, sel = args
    m = _meta(arr)
    c, d = m["coords"], m["data"]
    (k, labels), = sel.pairs
    fill = kw.get("fill_value", NONE)
    ex.trace["assumed"].add("xarray reindex keeps the data at labels equal to old labels and fills the rest")
    if not isinstance(labels, NDArr):
        raise Unsupported("reindex labels")
    FILL = Opq("Datum", z3.Const("fill_datum", DATUM))

    def data_at(j):
        from .calls import last_match
        lab = labels.at(j).real()
        old = ex.index_ctx
        ex.index_ctx = list(old) + [j]      # the matching index is a function of the queried position
        try:
            found, w = last_match(ex, p, c.n, lambda i: c.at(i).real() == lab, node, "reidx")
        finally:
            ex.index_ctx = old
        return ite(found, d.at(w), FILL)
    return [(p, new_array_like(ex, arr, labels, NDArr(labels.n, data_at, "float64"), node))]


def h_slice(ex, p, args, kw, node):
    a = args + [NONE] * (3 - len(args))
    if len(args) == 1:
        a = [NONE, args[0], NONE]
    return [(p, Opq("Slice", z3.Const(fresh_name("slice"), opaque_sort("Slice")), dict(start=a[0], stop=a[1], step=a[2])))]


def xr_variable(ex, p, args, kw, node):
    ex.trace["assumed"].add("xarray.Variable(dims, data, attrs) stores data and attrs as given")
    return [(p, Obj("xarray.Variable", {"dims": kw.get("dims", args[0] if args else NONE), "data": kw.get("data", args[1] if len(args) > 1 else NONE),
                                        "attrs": kw.get("attrs", Dct([]))}))]


ARRAY_MODEL = {
    "numpy.arange": np_arange, "numpy.concatenate": np_concatenate, "numpy.mean": np_mean, "numpy.isnan": np_isnan, "xarray.Variable": xr_variable,
    "attr:DataArray.coords": da_getattr("coords"), "attr:DataArray.sizes": da_getattr("sizes"), "attr:DataArray.indexes": da_getattr("indexes"),
    "attr:DataArray.dims": da_getattr("dims"), "attr:DataArray.data": da_getattr("data"),
    "method:DataArray.sel": da_sel, "method:DataArray.reindex": da_reindex,
    "method:Index.min": index_min, "method:Index.max": index_max, "method:Index.get_slice_bound": index_slice_bound,
    "slice": h_slice,
}


# ----------------------------------------------------------------------------- small dense matrices (concrete shape)
class Matrix2:
    """meta of an Opq('Matrix'): concrete shape, entries[(i, j)] -> Num"""


def np_zeros_nd(ex, p, args, kw, node):
    shape = args[0] if args else kw["shape"]
    if not (isinstance(shape, Tup) and len(shape.items) == 2):
        raise Unsupported("zeros with a shape that is not a pair")
    dims = [z3.simplify(d.t) for d in shape.items]
    if not all(z3.is_int_value(d) for d in dims):
        raise Unsupported("matrix with symbolic shape (bounded check: concrete sizes only)")
    n, m = dims[0].as_long(), dims[1].as_long()
    ex.trace["assumed"].add("numpy.zeros((n, m)): an n x m matrix of zeros; item assignment writes exactly the addressed cell")
    return [(p, Opq("Matrix", z3.Const(fresh_name("mat"), opaque_sort("Matrix")), dict(n=n, m=m, cells={(i, j): Num(0.0) for i in range(n) for j in range(m)})))]


def matrix_setitem(ex, p, args, kw, node):
    mat, idx, val = args
    i, j = [z3.simplify(x.t) for x in idx.items]
    if not (z3.is_int_value(i) and z3.is_int_value(j)):
        raise Unsupported("matrix store at a symbolic index")
    cells = dict(mat.meta["cells"])
    p, v = ex.as_num(val, p, node)
    cells[(i.as_long(), j.as_long())] = Num(v.real())
    return [(p, Opq("Matrix", z3.Const(fresh_name("mat"), opaque_sort("Matrix")), dict(n=mat.meta["n"], m=mat.meta["m"], cells=cells)))]


def matrix_getitem(ex, p, args, kw, node):
    mat, idx = args
    n, m, cells = mat.meta["n"], mat.meta["m"], mat.meta["cells"]
    p, i = ex.as_num(idx.items[0], p, node)
    p, j = ex.as_num(idx.items[1], p, node)
    p = ex.implicit(p, z3.Not(z3.And(i.t >= 0, i.t < n, j.t >= 0, j.t < m)), "IndexError", node)
    if not cells:
        from .symex import DeadPath
        raise DeadPath()
    res = None
    for (a, b), v in cells.items():
        res = v if res is None else ite(z3.And(i.t == a, j.t == b), v, res)
    return [(p, res)]


def matrix_shape(ex, p, args, kw, node):
    return [(p, Tup([Num(args[0].meta["n"]), Num(args[0].meta["m"])]))]


MATRIX_MODEL = {"numpy.zeros#nd": np_zeros_nd, "setitem:Matrix": matrix_setitem, "getitem:Matrix": matrix_getitem, "attr:Matrix.shape": matrix_shape}


# ----------------------------------------------------------------------------- symbolic 2-d score matrices (C09 wrappers)
SMAT = opaque_sort("SMatrix")
A1 = z3.ArraySort(z3.IntSort(), z3.RealSort())
A1I = z3.ArraySort(z3.IntSort(), z3.IntSort())
A2 = z3.ArraySort(z3.IntSort(), z3.ArraySort(z3.IntSort(), z3.RealSort()))
ROWSUM = z3.Function("np_row_sum", A1, z3.IntSort(), z3.RealSort())          # sum of the first m entries of a row
ARGMAX = z3.Function("np_argmax", A1, z3.IntSort(), z3.IntSort())            # index of the (first) largest of the first m entries


def smatrix(n, m, cell, t=None):
    """an n x m float matrix given by its cell function (n, m: z3 Int terms)"""
    return Opq("SMatrix", t if t is not None else z3.Const(fresh_name("smat"), SMAT), dict(n=n, m=m, cell=cell))


def _row(mat, i):
    j = z3.Int("smat_j")
    return z3.Lambda([j], mat.meta["cell"](i, j))


def sm_shape(ex, p, args, kw, node):
    return [(p, Tup([Num(args[0].meta["n"]), Num(args[0].meta["m"])]))]


def sm_sum(ex, p, args, kw, node):
    mat = args[0]
    ax, keep = kw.get("axis"), kw.get("keepdims")
    if not (isinstance(ax, Num) and z3.is_int_value(z3.simplify(ax.t)) and z3.simplify(ax.t).as_long() == 1
            and isinstance(keep, Bool) and z3.is_true(z3.simplify(keep.t))):
        raise Unsupported("matrix.sum other than sum(axis=1, keepdims=True)")
    ex.trace["assumed"].add("numpy: m.sum(axis=1, keepdims=True) is the n x 1 column of row sums (row sum: uninterpreted function of the row)")
    return [(p, smatrix(mat.meta["n"], z3.IntVal(1), lambda i, j, mat=mat: ROWSUM(_row(mat, i), mat.meta["m"])))]


def sm_binop(ex, p, args, kw, node, sym=None):
    a, b = args
    mat, other, left = (a, b, True) if isinstance(a, Opq) and a.kind == "SMatrix" else (b, a, False)
    if not (isinstance(mat, Opq) and mat.kind == "SMatrix" and isinstance(other, Num)):
        raise Unsupported("matrix arithmetic other than scalar (op) matrix")
    c = other.real()
    ops = {"-": (lambda x: x - c) if left else (lambda x: c - x), "+": lambda x: x + c, "*": lambda x: x * c}
    if sym not in ops:
        raise Unsupported(f"matrix operator {sym}")
    f = ops[sym]
    return [(p, smatrix(mat.meta["n"], mat.meta["m"], lambda i, j, mat=mat, f=f: f(mat.meta["cell"](i, j))))]


def np_c_(ex, p, args, kw, node):
    """assumed (numpy): np.c_[A, B] for an n x m and an n x k matrix is the n x (m + k) matrix [A | B]"""
    idx = args[0]
    if not (isinstance(idx, Tup) and len(idx.items) == 2 and all(isinstance(x, Opq) and x.kind == "SMatrix" for x in idx.items)):
        raise Unsupported("np.c_ of anything but two matrices")
    a, b = idx.items
    ex.side.append((f"np.c_-same-number-of-rows@{ex.module.name}:{getattr(node, 'lineno', 0)}", list(p.cond), a.meta["n"] == b.meta["n"]))
    ex.trace["assumed"].add("numpy: np.c_[A, B] is the column-wise concatenation [A | B]")
    ma = a.meta["m"]
    return [(p, smatrix(a.meta["n"], ma + b.meta["m"],
                        lambda i, j, a=a, b=b, ma=ma: z3.If(j < ma, a.meta["cell"](i, j), b.meta["cell"](i, j - ma))))]


def sm_argmax(ex, p, args, kw, node):
    mat = args[0]
    ax = kw.get("axis")
    if not (isinstance(ax, Num) and z3.is_int_value(z3.simplify(ax.t)) and z3.simplify(ax.t).as_long() == 1):
        raise Unsupported("matrix.argmax other than argmax(axis=1)")
    ex.trace["assumed"].add("numpy: m.argmax(axis=1)[i] is a function of row i (uninterpreted), an index into the row")
    return [(p, NDArr(mat.meta["n"], lambda i, mat=mat: Num(ARGMAX(_row(mat, i), mat.meta["m"])), "int64"))]


def np_array(ex, p, args, kw, node):
    """np.array(list of numbers): the 1-d array with those entries"""
    xs = ex.as_list(args[0], p, node)
    return [(p, NDArr(xs.length(), lambda i, xs=xs: xs.at(i), "int64"))]


def _arr1(v, n_hint=None):
    i = z3.Int("arr_i")
    el = v.at(i)
    t = el.t if getattr(el, "is_int", False) else z3.ToInt(el.real())
    return z3.Lambda([i], t), (v.n if isinstance(v, NDArr) else v.length())


def _mat2(mat):
    i, j = z3.Int("m2_i"), z3.Int("m2_j")
    return z3.Lambda([i], z3.Lambda([j], mat.meta["cell"](i, j)))


SK = {name: z3.Function("sklearn_" + name, A1I, A1I, z3.IntSort(), z3.RealSort()) for name in ("accuracy_score", "balanced_accuracy_score")}
SK_TOPK = z3.Function("sklearn_top_k_accuracy_score", A1I, A2, z3.IntSort(), z3.IntSort(), z3.IntSort(), z3.RealSort())


def sk_labels(name):
    def h(ex, p, args, kw, node):
        """assumed (scikit-learn): the score is a function of (y_true, y_pred) -- uninterpreted"""
        yt, yp = kw.get("y_true", args[0] if args else None), kw.get("y_pred", args[1] if len(args) > 1 else None)
        a, n = _arr1(yt)
        b, n2 = _arr1(yp)
        ex.side.append((f"sklearn.{name}-equal-lengths@{ex.module.name}:{getattr(node, 'lineno', 0)}", list(p.cond), n == n2))
        ex.trace["assumed"].add(f"scikit-learn {name}: a function of the two label arrays (values: stand-in only)")
        return [(p, Num(SK[name](a, b, n)))]
    return h


def sk_topk(ex, p, args, kw, node):
    """assumed (scikit-learn): top_k_accuracy_score(y_true, y_score, k, normalize=True, labels=0..m-1) is a function of
    (y_true, y_score, k); the labels must be exactly the column indices"""
    yt, ys, k = kw["y_true"], kw["y_score"], kw["k"]
    a, n = _arr1(yt)
    norm, labels = kw.get("normalize", Bool(z3.BoolVal(True))), kw.get("labels")
    goal = [n == ys.meta["n"], norm.t]
    if labels is not None:
        ls = ex.as_list(labels, p, node)
        q = z3.Int("lbl_q")
        goal += [ls.length() == ys.meta["m"], z3.ForAll([q], z3.Implies(z3.And(q >= 0, q < ls.length()), ls.at(q).t == q))]
    ex.side.append((f"sklearn.top_k-labels-are-the-column-indices@{ex.module.name}:{getattr(node, 'lineno', 0)}", list(p.cond), z3.And(goal)))
    ex.trace["assumed"].add("scikit-learn top_k_accuracy_score: a function of (y_true, y_score, k) (values: stand-in only)")
    return [(p, Num(SK_TOPK(a, _mat2(ys), n, ys.meta["m"], k.t)))]


SCORE_MATRIX_MODEL = {
    "attr:SMatrix.shape": sm_shape, "method:SMatrix.sum": sm_sum, "method:SMatrix.argmax": sm_argmax,
    "op:-": lambda ex, p, args, kw, node: sm_binop(ex, p, args, kw, node, "-"),
    "getitem:numpy.c_": np_c_, "numpy.array": np_array,
    "sklearn.metrics.accuracy_score": sk_labels("accuracy_score"),
    "sklearn.metrics.balanced_accuracy_score": sk_labels("balanced_accuracy_score"),
    "sklearn.metrics.top_k_accuracy_score": sk_topk,
}
