"""Call dispatch, modelled builtins, mutation statements and try/except for the executor."""
from __future__ import annotations

import ast

import z3

from .repo import Unsupported
from .values import (V, Num, Bool, Str, NoneV, NONE, Opt, Tup, Lst, Dct, SetV, SetL, DctL, NDArr, Ref, Obj, Opq, Fn, ExcV, ModV, member, distinct_list,
                     truth, is_none, strip_opt, ite, eq, num_pair, fresh_int, fresh_real, fresh_name)
from . import symex


# ----------------------------------------------------------------------------- arguments
def eval_args(ex, n: ast.Call, p):
    """-> list of (path, args, kwargs)"""
    res = [(p, [], {})]
    for a in n.args:
        nxt = []
        for q, args, kw in res:
            if isinstance(a, ast.Starred):
                for q2, v in ex.ev(a.value, q):
                    v = ex.as_list(v, q2, n)
                    if not v.concrete:
                        raise Unsupported("*args with symbolic length")
                    nxt.append((q2, args + v.items, kw))
            else:
                for q2, v in ex.ev(a, q):
                    nxt.append((q2, args + [v], kw))
        res = nxt
    for k in n.keywords:
        nxt = []
        for q, args, kw in res:
            for q2, v in ex.ev(k.value, q):
                if k.arg is None:
                    if isinstance(v, Dct) and all(isinstance(kk, Str) and kk.concrete for kk, _ in v.pairs):
                        kw2 = dict(kw)
                        for kk, vv in v.pairs:
                            kw2[kk.c] = vv
                        nxt.append((q2, args, kw2))
                    elif isinstance(v, Obj) and "splat:" + v.cls in ex.handlers:
                        kw2 = dict(kw)
                        kw2.update(ex.handlers["splat:" + v.cls](ex, q2, v))
                        nxt.append((q2, args, kw2))
                    else:
                        raise Unsupported(f"{ex.module.name}:{n.lineno}: **kwargs of {type(v).__name__}")
                else:
                    kw2 = dict(kw)
                    kw2[k.arg] = v
                    nxt.append((q2, args, kw2))
        res = nxt
    return res


def do_call(ex, n: ast.Call, p):
    # direct handler on a qualified name (covers externals such as shapely.geometry.box)
    q = ex.repo.qualify(ex.module, n.func)
    if q is not None and not ex._shadowed(n.func, p) if isinstance(n.func, ast.Attribute) else (q is not None and isinstance(n.func, ast.Name) and n.func.id not in p.env):
        r = resolve_handler_name(ex, q)
        if r is not None:
            out = []
            for p1, args, kw in eval_args(ex, n, p):
                ex.trace["handlers"].add(r)
                out += ex.handlers[r](ex, p1, args, kw, n)
            return out
    out = []
    for p0, f in ex.ev(n.func, p):
        for p1, args, kw in eval_args(ex, n, p0):
            try:
                out += apply(ex, f, args, kw, p1, n)
            except symex.DeadPath:
                pass
    return out


def resolve_handler_name(ex, q):
    if q in ex.handlers:
        return q
    r = ex.repo.resolve(q)
    if r[0] in ("func", "class") and r[3] in ex.handlers:
        return r[3]
    return None


def apply(ex, f: V, args, kw, p, node):
    if isinstance(f, Opt):
        p = ex.implicit(p, f.isnone, "TypeError", node)
        f = f.val
    if not isinstance(f, (Fn, ModV)):
        raise Unsupported(f"{ex.module.name}:{node.lineno}: call of {type(f).__name__}")
    if isinstance(f, ModV):
        if f.qual in ex.handlers:
            ex.trace["handlers"].add(f.qual)
            return ex.handlers[f.qual](ex, p, args, kw, node)
        raise Unsupported(f"{ex.module.name}:{node.lineno}: external call {f.qual} has no assumed contract")
    k, d = f.kind, f.data
    if k == "handler":
        ex.trace["handlers"].add(d)
        return ex.handlers[d](ex, p, args, kw, node)
    if k == "builtin":
        if d in ex.handlers:
            return ex.handlers[d](ex, p, args, kw, node)
        b = BUILTINS.get(d)
        if b is None:
            raise Unsupported(f"{ex.module.name}:{node.lineno}: builtin {d} is not modelled")
        return b(ex, p, args, kw, node)
    if k == "exc":
        return [(p, ExcV(d))]
    if k == "repo":
        if d in ex.handlers:
            ex.trace["handlers"].add(d)
            return ex.handlers[d](ex, p, args, kw, node)
        if d in ex.inline or "*" in ex.inline or any(d.startswith(pf) for pf in ex.inline_prefixes):
            r = ex.repo.resolve(d)
            return ex.call_repo_function(r[1], r[2], args, kw, p, qual=d)
        raise Unsupported(f"{ex.module.name}:{node.lineno}: call to {d}: no contract and not inlined")
    if k == "class":
        if d in ex.handlers:
            ex.trace["handlers"].add(d)
            return ex.handlers[d](ex, p, args, kw, node)
        if ex.repo.find_method(d, "__init__") is not None or not _is_model(ex, d):
            return instantiate(ex, d, args, kw, p, node)
        g = ex.handlers.get("construct:*")
        if g is not None:
            return g(ex, p, [Str(d)] + args, kw, node)
        raise Unsupported(f"{ex.module.name}:{node.lineno}: constructor {d} has no contract")
    if k == "classattr":
        cls, path = d
        name = cls + "." + ".".join(path)
        if name in ex.handlers:
            ex.trace["handlers"].add(name)
            return ex.handlers[name](ex, p, args, kw, node)
        if path == ("model_validate",):
            # pydantic contract: model_validate(mapping) and model_validate(obj, from_attributes=True) run the
            # same validation as the constructor on the mapping's items / the object's attributes
            from .models import construct_model
            src = args[0]
            if isinstance(src, Opt):
                src = src.val
            if isinstance(src, Dct) and all(isinstance(k_, Str) and k_.concrete for k_, _ in src.pairs):
                kwargs = {k_.c: v_ for k_, v_ in src.pairs}
            elif isinstance(src, Obj):
                names = {f["name"] for f in ex.repo.class_fields(cls)}
                kwargs = {k_: v_ for k_, v_ in src.fields.items() if k_ in names}
            else:
                raise Unsupported(f"model_validate of {type(src).__name__}")
            ex.trace["assumed"].add("pydantic: model_validate(dict | attributes) == constructor(**fields)")
            return construct_model(ex, p, cls, kwargs, node)
        found = ex.repo.find_method(cls, path[0]) if len(path) == 1 else None
        if found is not None:
            fm, fnode, fcls, fq = found
            decos = {dd.id for dd in fnode.decorator_list if isinstance(dd, ast.Name)}
            if "classmethod" in decos:
                return ex.call_repo_function(fm, fnode, [Fn("class", cls)] + args, kw, p, qual=fq + "." + path[0])
            if "staticmethod" in decos:
                return ex.call_repo_function(fm, fnode, args, kw, p, qual=fq + "." + path[0])
            return ex.call_repo_function(fm, fnode, args, kw, p, qual=fq + "." + path[0])
        raise Unsupported(f"{ex.module.name}:{node.lineno}: class attribute call {name}")
    if k == "bound":
        selfv, fm, fnode, qual = d
        if qual in ex.handlers:
            ex.trace["handlers"].add(qual)
            return ex.handlers[qual](ex, p, [selfv] + args, kw, node)
        return ex.call_repo_function(fm, fnode, [selfv] + args, kw, p, qual=qual, cls=qual.rsplit(".", 1)[0])
    if k == "handler-method":
        key, selfv = d
        ex.trace["handlers"].add(key)
        return ex.handlers[key](ex, p, [selfv] + args, kw, node)
    if k in ("lambda", "closure"):
        fnode, cenv, fmod = d
        env = symex.bind_arguments(ex, fmod, fnode, args, kw, p, closure_env=cenv)
        sub = ex.child(fmod)
        if k == "lambda":
            res = sub.ev(fnode.body, symex.Path(p.cond, env, None, p.heap))
            ex.outcomes += [o for o in sub.outcomes]
            ex.side += sub.side
            return [(symex.Path(q.cond, p.env, p.yields, q.heap if q.heap is not None else p.heap), v) for q, v in res]
        sub.run_body(fnode, symex.Path(p.cond, env, None, p.heap))
        out = []
        for o in sub.outcomes:
            if o.kind == "return":
                out.append((symex.Path(o.cond, p.env, p.yields, o.heap if o.heap is not None else p.heap), o.val))
            else:
                ex.outcomes.append(symex.Outcome("raise", o.cond, exc=o.exc, line=o.line, yields=p.yields, env=p.env, heap=o.heap))
        ex.side += sub.side
        return out
    if k == "opaque":  # uninterpreted callable parameter: d = python callable(ex, p, args, kw, node)
        return d(ex, p, args, kw, node)
    if k == "method":
        base, attr = d
        return call_method(ex, base, attr, args, kw, p, node)
    raise Unsupported(f"call of Fn<{k}>")


_ref_ids = __import__("itertools").count(1)


def instantiate(ex, qual, args, kw, p, node):
    """A plain (non-pydantic) class: a fresh heap object whose attributes are set by the real __init__."""
    found = ex.repo.find_method(qual, "__init__")
    ref = Ref(next(_ref_ids), qual)
    heap = dict(p.heap or {})
    heap[ref.ident] = {}
    p = p.with_heap(heap)
    if found is None:
        return [(p, ref)]
    fm, fnode, fcls, fq = found
    out = []
    for q, _ in ex.call_repo_function(fm, fnode, [ref] + args, kw, p, qual=fq + ".__init__", cls=fq):
        out.append((q, ref))
    return out


def _is_model(ex, qual):
    """pydantic model (BaseModel somewhere among the bases) vs plain class"""
    try:
        for m, c, q in ex.repo.mro(qual):
            for b in c.bases:
                bq = ex.repo.qualify(m, b)
                if bq and bq.endswith("BaseModel"):
                    return True
    except Unsupported:
        pass
    return False


def last_match(ex, p, n, match, node, tag="lm"):
    """(found, w): found <=> some j < n has match(j); w the LAST such j (definitional, fresh)"""
    j = fresh_int("lmj")
    found = z3.Exists([j], z3.And(j >= 0, j < n, match(j)))
    w = ex.fresh_sym(z3.IntSort(), tag, node)
    k = fresh_int("lmk")
    ex.bg_local(p, [z3.Implies(found, z3.And(w >= 0, w < n, match(w),
                                            z3.ForAll([k], z3.Implies(z3.And(k >= 0, k < n, k > w), z3.Not(match(k))))))])
    return found, w


# ----------------------------------------------------------------------------- methods on values
def call_method(ex, base, attr, args, kw, p, node):
    if isinstance(base, Opq):
        h = ex.handlers.get(f"method:{base.kind}.{attr}")
        if h is None:
            raise Unsupported(f"{ex.module.name}:{node.lineno}: method {attr} of opaque {base.kind}")
        ex.trace["handlers"].add(f"method:{base.kind}.{attr}")
        return h(ex, p, [base] + args, kw, node)
    if isinstance(base, NDArr):
        from .array_model import nd_method
        return nd_method(ex, p, base, attr, args, kw, node)
    if isinstance(base, Str):
        if base.concrete and all(isinstance(a, Str) and a.concrete for a in args):
            cargs = [a.c for a in args]
            if attr == "split":
                return [(p, Lst(items=[Str(s) for s in base.c.split(*cargs)]))]
            if attr in ("lower", "upper", "strip"):
                return [(p, Str(getattr(base.c, attr)(*cargs)))]
            if attr in ("startswith", "endswith"):
                return [(p, Bool(getattr(base.c, attr)(*cargs)))]
        if attr == "join" and base.concrete:
            h = ex.handlers.get("str.join")
            if h:
                return h(ex, p, [base] + args, kw, node)
        raise Unsupported(f"{ex.module.name}:{node.lineno}: str.{attr}")
    if isinstance(base, DctL):
        if attr == "get":
            key = args[0]
            default = args[1] if len(args) > 1 else kw.get("default", NONE)
            found, w = last_match(ex, p, base.keys.length(), lambda j: eq(key, base.keys.at(j)), node, "dget")
            return [(p, ite(found, base.vals.at(w), default))]
        if attr == "items":
            ks, vs = base.keys, base.vals
            # all pairs in insertion order -- provided the keys are pairwise distinct (equal keys would collapse)
            ex.side.append((f"dict-keys-distinct@{ex.module.name}:{getattr(node, 'lineno', 0)}", list(p.cond), distinct_list(ks)))
            return [(p, Lst(n=ks.length(), at=lambda i: Tup([ks.at(i), vs.at(i)])))]
        if attr == "keys":
            return [(p, base.keys)]
        if attr == "values":
            return [(p, base.vals)]
        raise Unsupported(f"dict.{attr} on a symbolic dict")
    if isinstance(base, Dct):
        if attr == "get":
            key = args[0]
            default = args[1] if len(args) > 1 else kw.get("default", NONE)
            res = default
            for k, v in reversed(base.pairs):
                res = ite(eq(key, k), v, res)
            return [(p, res)]
        if attr == "items":
            return [(p, Lst(items=[Tup([k, v]) for k, v in base.pairs]))]
        if attr == "keys":
            return [(p, Lst(items=[k for k, _ in base.pairs]))]
        if attr == "values":
            return [(p, Lst(items=[v for _, v in base.pairs]))]
        if attr == "update" and ex.handlers.get("dict.update#ignore"):
            return [(p, NONE)]   # attribute bookkeeping that no obligation reads (flagged by the driver)
        raise Unsupported(f"dict.{attr}")
    if isinstance(base, (Lst, Tup)):
        if attr == "index" and isinstance(base, Lst) and base.concrete:
            res = None
            for j in range(len(base.items) - 1, -1, -1):
                res = Num(j) if res is None else ite(eq(args[0], base.items[j]), Num(j), res)
            hit = z3.Or([eq(args[0], x) for x in base.items]) if base.items else z3.BoolVal(False)
            p = ex.implicit(p, z3.Not(hit), "ValueError", node)
            return [(p, res)]
        if attr == "copy":
            return [(p, base)]
        raise Unsupported(f"{ex.module.name}:{node.lineno}: list.{attr} in expression position")
    raise Unsupported(f"method {attr} on {type(base).__name__}")


def call_statement(ex, n: ast.Call, p):
    """Statement-level mutating calls on local names: xs.append(v), xs.extend(v), s.add / s.remove."""
    f = n.func
    if not (isinstance(f, ast.Attribute) and isinstance(f.value, ast.Name) and f.value.id in p.env):
        return None
    name, attr = f.value.id, f.attr
    cur = p.env[name]
    if isinstance(cur, Lst) and attr in ("append", "extend") and len(n.args) == 1 and not n.keywords:
        out = []
        for p1, v in ex.ev(n.args[0], p):
            if attr == "append":
                new = ex.concat(cur, Lst(items=[v]))
            else:
                new = ex.concat(cur, ex.as_list(v, p1, n))
            out.append(p1.bind(name, new))
        return out
    if isinstance(cur, SetV) and attr in ("remove", "discard") and len(n.args) == 1:
        out = []
        for p1, v in ex.ev(n.args[0], p):
            hits = [eq(v, x) for x in cur.items]
            anyhit = z3.Or(hits) if hits else z3.BoolVal(False)
            if attr == "remove":
                p1 = ex.implicit(p1, z3.Not(anyhit), "KeyError", n)
            for k, h in enumerate(hits):   # which element is removed (elements of a set are pairwise different)
                q = p1.fork(h)
                if ex.feasible(q.cond):
                    out.append(q.bind(name, SetV(cur.items[:k] + cur.items[k + 1:])))
            if attr == "discard":
                q = p1.fork(z3.Not(anyhit))
                if ex.feasible(q.cond):
                    out.append(q)
        return out
    return None


def set_attribute(ex, target: ast.Attribute, v, p, node):
    if not (isinstance(target.value, ast.Name) and isinstance(p.env.get(target.value.id), Obj)):
        out = []
        for q, base in ex.ev(target.value, p):
            if not isinstance(base, Ref):
                raise Unsupported(f"{ex.module.name}:{node.lineno}: attribute assignment on {type(base).__name__}")
            out.append(q.heap_set(base.ident, target.attr, v))
        return out
    if isinstance(target.value, ast.Name) and target.value.id in p.env and isinstance(p.env[target.value.id], Obj):
        o = p.env[target.value.id]
        flds = dict(o.fields)
        flds[target.attr] = v
        return [p.bind(target.value.id, Obj(o.cls, flds, o.ident))]
    raise Unsupported(f"{ex.module.name}:{node.lineno}: attribute assignment")


def set_item(ex, target: ast.Subscript, v, p, node):
    if isinstance(target.value, ast.Name) and target.value.id in p.env:
        name = target.value.id
        cur = p.env[name]
        out = []
        for p1, idx in ex.ev(target.slice, p):
            if isinstance(cur, Dct):
                pairs = list(cur.pairs)
                for j, (k, _) in enumerate(pairs):
                    c = z3.simplify(eq(idx, k))
                    if z3.is_true(c):
                        pairs[j] = (k, v)
                        break
                    if not z3.is_false(c):
                        raise Unsupported("dict store with undecided key equality")
                else:
                    pairs.append((idx, v))
                out.append(p1.bind(name, Dct(pairs)))
            elif isinstance(cur, NDArr):
                p2, i = ex.as_num(idx, p1, node)
                it = i.t
                p2 = ex.implicit(p2, z3.Not(z3.And(it >= -cur.n, it < cur.n)), "IndexError", node)
                it = z3.If(it < 0, cur.n + it, it) if ex.feasible(p2.cond + [it < 0]) else it
                val = v
                if cur.dtype == "float32" and isinstance(v, Num):
                    val = Num(ex.handlers["numpy.float32#cast"](ex, v)) if "numpy.float32#cast" in ex.handlers else v
                if cur.log is not None:
                    new = NDArr(cur.n, cur._at, cur.dtype, cur.log + [(it, val)])
                else:
                    new = NDArr(cur.n, lambda k, cur=cur, it=it, val=val: ite(k == it, val, cur.at(k)), cur.dtype)
                out.append(p2.bind(name, new))
            elif isinstance(cur, Opq) and ("setitem:" + cur.kind) in ex.handlers:
                for p2, new in ex.handlers["setitem:" + cur.kind](ex, p1, [cur, idx, v], {}, node):
                    out.append(p2.bind(name, new))
            elif isinstance(cur, Lst) and cur.concrete and isinstance(idx, Num) and z3.is_int_value(z3.simplify(idx.t)):
                items = list(cur.items)
                items[z3.simplify(idx.t).as_long()] = v
                out.append(p1.bind(name, Lst(items=items)))
            else:
                raise Unsupported(f"{ex.module.name}:{node.lineno}: item assignment on {type(cur).__name__}")
        return out
    if isinstance(target.value, ast.Attribute):
        # obj.attr[key] = v on a heap object: the dictionary held in the attribute is replaced by its update
        out = []
        for p0, base in ex.ev(target.value.value, p):
            if not isinstance(base, Ref):
                raise Unsupported(f"{ex.module.name}:{node.lineno}: item assignment on an attribute of {type(base).__name__}")
            cur = (p0.heap or {}).get(base.ident, {}).get(target.value.attr)
            for p1, idx in ex.ev(target.slice, p0):
                if isinstance(cur, DctL):
                    # lookups on a symbolic dict take the LAST matching entry, so an update is an appended entry
                    new = DctL(ex.concat(cur.keys, Lst(items=[idx])), ex.concat(cur.vals, Lst(items=[v])))
                elif isinstance(cur, Dct):
                    pairs, decided = list(cur.pairs), True
                    for j_, (k, _) in enumerate(pairs):
                        c = z3.simplify(eq(idx, k))
                        if z3.is_true(c):
                            pairs[j_] = (k, v)
                            break
                        if not z3.is_false(c):
                            decided = False
                            break
                    else:
                        pairs.append((idx, v))
                    if decided:
                        new = Dct(pairs)
                    else:   # undecided key equality: continue with the symbolic (last-match) representation
                        new = DctL(Lst(items=[k for k, _ in cur.pairs] + [idx]), Lst(items=[x for _, x in cur.pairs] + [v]))
                else:
                    raise Unsupported(f"{ex.module.name}:{node.lineno}: item assignment on attribute holding {type(cur).__name__}")
                out.append(p1.heap_set(base.ident, target.value.attr, new))
        return out
    raise Unsupported(f"{ex.module.name}:{node.lineno}: item assignment")


# ----------------------------------------------------------------------------- try / except
EXC_PARENTS = {
    "KeyError": "LookupError", "IndexError": "LookupError", "LookupError": "Exception",
    "ValueError": "Exception", "TypeError": "Exception", "ZeroDivisionError": "ArithmeticError",
    "ArithmeticError": "Exception", "AttributeError": "Exception", "NotImplementedError": "RuntimeError",
    "RuntimeError": "Exception", "AssertionError": "Exception", "StopIteration": "Exception",
    "ValidationError": "ValueError", "JSONDecodeError": "ValueError", "LibsndfileError": "RuntimeError",
    "FileNotFoundError": "OSError", "OSError": "Exception", "CoordinateValidationError": "ValueError",
}


def exc_matches(raised: str, caught: str) -> bool:
    cur = raised
    while cur is not None:
        if cur == caught:
            return True
        cur = EXC_PARENTS.get(cur)
    return caught in ("Exception", "BaseException")


def exec_try(ex, n: ast.Try, p):
    if n.finalbody or n.orelse:
        raise Unsupported(f"{ex.module.name}:{n.lineno}: try with finally/else")
    mark = len(ex.outcomes)
    out = ex.run_block(n.body, [p])
    new = ex.outcomes[mark:]
    del ex.outcomes[mark:]
    for o in new:
        if o.kind != "raise":
            ex.outcomes.append(o)
            continue
        handled = False
        for h in n.handlers:
            names = []
            if h.type is None:
                names = ["BaseException"]
            elif isinstance(h.type, ast.Tuple):
                names = [_exc_name(e) for e in h.type.elts]
            else:
                names = [_exc_name(h.type)]
            if any(exc_matches(o.exc, c) for c in names):
                env = dict(o.env if o.env is not None else p.env)
                env["__handled_exc__"] = ExcV(o.exc)
                if h.name:
                    env[h.name] = ExcV(o.exc)
                q = symex.Path(o.cond, env, o.yields if o.yields is not None else p.yields, p.heap)
                out += ex.run_block(h.body, [q])
                handled = True
                break
        if not handled:
            ex.outcomes.append(o)
    return out


def _exc_name(e):
    if isinstance(e, ast.Name):
        return e.id
    if isinstance(e, ast.Attribute):
        return e.attr
    raise Unsupported("exception class expression")


# ----------------------------------------------------------------------------- builtins
def _num(ex, v, p, node):
    return ex.as_num(v, p, node)


def b_len(ex, p, args, kw, node):
    v = args[0]
    if isinstance(v, Opt):
        p = ex.implicit(p, v.isnone, "TypeError", node)
        v = v.val
    if isinstance(v, Tup):
        return [(p, Num(len(v.items)))]
    if isinstance(v, Lst):
        return [(p, Num(v.length()))]
    if isinstance(v, (Dct,)):
        return [(p, Num(len(v.pairs)))]
    if isinstance(v, NDArr):
        return [(p, Num(v.n))]
    if isinstance(v, DctL):
        # the number of entries of the (insertion-ordered) representation -- equal to len(dict) as long as its keys are
        # pairwise distinct, which is a side obligation at this point
        ex.side.append((f"dict-keys-distinct@{ex.module.name}:{getattr(node, 'lineno', 0)}", list(p.cond), distinct_list(v.keys)))
        return [(p, Num(v.keys.length()))]
    if isinstance(v, SetV):
        v = SetL(Lst(items=v.items)) if len(v.items) > 1 else v
    if isinstance(v, SetV):
        return [(p, Num(len(v.items)))]
    if isinstance(v, SetL):
        # cardinality: a fresh c with 0 <= c <= n, c = n iff the elements are pairwise distinct, c > 0 iff n > 0
        n = v.lst.length()
        c = ex.fresh_sym(z3.IntSort(), "card", node)
        ex.bg_local(p, [c >= 0, c <= n, (c == n) == distinct_list(v.lst), (c > 0) == (n > 0)])
        ex.trace["assumed"].add("len(set(xs)) <= len(xs), with equality iff xs has no repeated element")
        return [(p, Num(c))]
    if isinstance(v, Str) and v.concrete:
        return [(p, Num(len(v.c)))]
    if isinstance(v, Opq):
        h = ex.handlers.get("len:" + v.kind)
        if h:
            return h(ex, p, [v], {}, node)
    raise Unsupported(f"len of {type(v).__name__}")


def _minmax(which):
    def f(ex, p, args, kw, node):
        if len(args) == 1:
            seq = ex.as_list(args[0], p, node)
            if seq.concrete:
                args = seq.items
                if not args:
                    ex.emit_raise(p, "ValueError", node)
                    raise symex.DeadPath()
            else:
                return sym_minmax(ex, which, seq, p, node)
        cur = None
        for a in args:
            p, x = _num(ex, a, p, node)
            if cur is None:
                cur = x
                continue
            xt, yt, _ = num_pair(cur, x)
            c = (yt < xt) if which == "min" else (yt > xt)
            cur = Num(z3.If(c, yt, xt))
        return [(p, cur)]
    return f


def sym_minmax(ex, which, seq: Lst, p, node):
    """min/max of a symbolic numeric list: fresh m with defining axioms (bound + attained)."""
    p = ex.implicit(p, seq.n <= 0, "ValueError", node)
    first = seq.at(z3.IntVal(0))
    if not isinstance(first, Num):
        raise Unsupported("min/max of non-numeric list")
    m = fresh_int("m") if first.is_int else fresh_real("m")
    w = fresh_int("w")
    i = fresh_int("i")
    el = lambda j: seq.at(j).t
    bound = (m <= el(i)) if which == "min" else (m >= el(i))
    facts = [w >= 0, w < seq.n, m == el(w), z3.ForAll([i], z3.Implies(z3.And(i >= 0, i < seq.n), bound))]
    return [(p.assume(*facts), Num(m))]


def b_abs(ex, p, args, kw, node):
    p, x = _num(ex, args[0], p, node)
    return [(p, Num(z3.If(x.t >= 0, x.t, -x.t)))]


def b_int(ex, p, args, kw, node):
    v = args[0]
    if isinstance(v, Bool):
        return [(p, Num(z3.If(v.t, 1, 0)))]
    p, x = _num(ex, v, p, node)
    if x.is_int:
        return [(p, x)]
    t = x.t
    return [(p, Num(z3.If(t >= 0, z3.ToInt(t), -z3.ToInt(-t))))]


def b_float(ex, p, args, kw, node):
    p, x = _num(ex, args[0], p, node)
    return [(p, Num(x.real()))]


def b_bool(ex, p, args, kw, node):
    return [(p, Bool(truth(args[0])))]


def py_kind(v):
    if isinstance(v, Bool):
        return {"bool", "int"}
    if isinstance(v, Num):
        return {"int"} if v.is_int else {"float"}
    if isinstance(v, Str):
        return {"str"}
    if isinstance(v, Lst):
        return {"list"}
    if isinstance(v, Tup):
        return {"tuple"}
    if isinstance(v, Dct):
        return {"dict"}
    if isinstance(v, SetV):
        return {"set"}
    if isinstance(v, NoneV):
        return {"NoneType"}
    return None


def b_isinstance(ex, p, args, kw, node):
    v, t = args
    types = t.items if isinstance(t, Tup) else [t]
    if isinstance(v, Opt):
        inner = b_isinstance(ex, p, [v.val, t], kw, node)[0][1]
        return [(p, Bool(z3.And(z3.Not(v.isnone), inner.t)))]
    names = set()
    for ty in types:
        if isinstance(ty, Fn) and ty.kind == "builtin":
            names.add(ty.data)
        elif isinstance(ty, Fn) and ty.kind == "class":
            names.add(ty.data)
        else:
            raise Unsupported("isinstance type")
    if isinstance(v, Obj):
        try:
            mro = {q for _, _, q in ex.repo.mro(v.cls)}
        except Unsupported:
            mro = {v.cls}
        return [(p, Bool(bool(mro & names)))]
    if isinstance(v, Opq):
        h = ex.handlers.get("isinstance:" + v.kind)
        if h:
            return h(ex, p, args, kw, node)
        return [(p, Bool(False if names <= {"list", "tuple", "dict", "str", "int", "float", "set"} else v.kind in names))]
    k = py_kind(v)
    if k is None:
        raise Unsupported(f"isinstance of {type(v).__name__}")
    return [(p, Bool(bool(k & names)))]


def _quant(which):
    def f(ex, p, args, kw, node):
        seq = ex.as_list(args[0], p, node)
        if seq.concrete:
            ts = [truth(x) for x in seq.items]
            if which == "any":
                return [(p, Bool(z3.Or(ts) if ts else z3.BoolVal(False)))]
            return [(p, Bool(z3.And(ts) if ts else z3.BoolVal(True)))]
        i = fresh_int("q")
        rng = z3.And(i >= 0, i < seq.n)
        body = truth(seq.at(i))
        if which == "any":
            return [(p, Bool(z3.Exists([i], z3.And(rng, body))))]
        return [(p, Bool(z3.ForAll([i], z3.Implies(rng, body))))]
    return f


def b_list(ex, p, args, kw, node):
    if not args:
        return [(p, Lst(items=[]))]
    return [(p, ex.as_list(args[0], p, node))]


def b_tuple(ex, p, args, kw, node):
    if not args:
        return [(p, Tup([]))]
    seq = ex.as_list(args[0], p, node)
    if seq.concrete:
        return [(p, Tup(seq.items))]
    return [(p, seq)]  # symbolic-length tuple is represented as a list


def b_dict(ex, p, args, kw, node):
    if not args:
        return [(p, Dct([(Str(k), v) for k, v in kw.items()]))]
    if isinstance(args[0], Dct):
        return [(p, Dct(args[0].pairs + [(Str(k), v) for k, v in kw.items()]))]
    if isinstance(args[0], Obj) and _is_model(ex, args[0].cls):
        names = [f["name"] for f in ex.repo.class_fields(args[0].cls)]
        return [(p, Dct([(Str(k), args[0].fields[k]) for k in names if k in args[0].fields]))]
    if isinstance(args[0], Obj) and ("splat:" + args[0].cls) in ex.handlers:
        d = ex.handlers["splat:" + args[0].cls](ex, p, args[0])
        return [(p, Dct([(Str(k), v) for k, v in d.items()]))]
    raise Unsupported("dict() of non-dict")


def b_range(ex, p, args, kw, node):
    nums = []
    for a in args:
        p, x = _num(ex, a, p, node)
        if not x.is_int:
            ex.emit_raise(p, "TypeError", node)
            raise symex.DeadPath()
        nums.append(x.t)
    if len(nums) == 1:
        lo, hi = z3.IntVal(0), nums[0]
    elif len(nums) == 2:
        lo, hi = nums
    else:
        raise Unsupported("range with step")
    n = z3.simplify(z3.If(hi > lo, hi - lo, 0))
    if z3.is_int_value(n) and n.as_long() <= 64:
        lo_s = z3.simplify(lo)
        return [(p, Lst(items=[Num(z3.simplify(lo_s + j)) for j in range(n.as_long())]))]
    return [(p, Lst(n=n, at=lambda i: Num(lo + i), tag="range"))]


def b_enumerate(ex, p, args, kw, node):
    seq = ex.as_list(args[0], p, node)
    if seq.concrete:
        return [(p, Lst(items=[Tup([Num(j), x]) for j, x in enumerate(seq.items)]))]
    return [(p, Lst(n=seq.n, at=lambda i: Tup([Num(i), seq.at(i)]), tag=("enumerate", seq)))]


def b_zip(ex, p, args, kw, node):
    seqs = [ex.as_list(a, p, node) for a in args]
    if all(s.concrete for s in seqs):
        k = min(len(s.items) for s in seqs)
        return [(p, Lst(items=[Tup([s.items[j] for s in seqs]) for j in range(k)]))]
    n = seqs[0].length()
    for s in seqs[1:]:
        n = z3.If(s.length() < n, s.length(), n)
    return [(p, Lst(n=n, at=lambda i: Tup([s.at(i) for s in seqs])))]


def b_sum(ex, p, args, kw, node):
    seq = ex.as_list(args[0], p, node)
    if not seq.concrete:
        h = ex.handlers.get("sum")
        if h:
            return h(ex, p, args, kw, node)
        raise Unsupported("sum over symbolic list")
    acc = Num(0)
    for x in seq.items:
        p, xn = _num(ex, x, p, node)
        p, acc = ex.arith("+", acc, xn, p, node)
    return [(p, acc)]


def b_next(ex, p, args, kw, node):
    seq = ex.as_list(args[0], p, node)
    default = args[1] if len(args) > 1 else None
    if seq.concrete:
        if seq.items:
            return [(p, seq.items[0])]
        if default is not None:
            return [(p, default)]
        ex.emit_raise(p, "StopIteration", node)
        return []
    out = []
    pe = p.fork(seq.n <= 0)
    if ex.feasible(pe.cond):
        if default is not None:
            out.append((pe, default))
        else:
            ex.emit_raise(pe, "StopIteration", node)
    pn = p.fork(seq.n > 0)
    if ex.feasible(pn.cond):
        out.append((pn, seq.at(z3.IntVal(0))))
    return out


def b_hasattr(ex, p, args, kw, node):
    v, name = args
    if isinstance(v, Obj) and isinstance(name, Str) and name.concrete:
        return [(p, Bool(name.c in v.fields))]
    k = py_kind(v)
    if k is not None:
        return [(p, Bool(False))]
    raise Unsupported("hasattr")


def b_getattr(ex, p, args, kw, node):
    v, name = args[0], args[1]
    if isinstance(name, Str) and name.concrete:
        return ex.getattr(v, name.c, p, node)
    raise Unsupported("getattr with symbolic name")


def b_type(ex, p, args, kw, node):
    v = args[0]
    if isinstance(v, Obj):
        return [(p, Fn("class", v.cls))]
    raise Unsupported("type() of non-object")


_HASH = {}


def _hash_fn(sort):
    key = str(sort)
    if key not in _HASH:
        _HASH[key] = z3.Function("pyhash_" + key, sort, z3.IntSort())
    return _HASH[key]


def b_hash(ex, p, args, kw, node):
    """hash(): an uninterpreted function of the value (congruent: equal values hash equally -- assumed for str, UUID,
    numbers, tuples); objects of repository classes use their real __hash__"""
    v = args[0]
    ex.trace["assumed"].add("builtin hash is a function of the value (x == y => hash(x) == hash(y)) on str/UUID/float/tuple")
    if isinstance(v, Opt):
        p = ex.implicit(p, v.isnone, "TypeError", node) if False else p
        inner = b_hash(ex, p, [v.val], kw, node)[0][1]
        return [(p, Num(z3.If(v.isnone, z3.IntVal(0), inner.t)))]
    if isinstance(v, Num):
        return [(p, Num(_hash_fn(z3.RealSort())(v.real())))]   # hash(1) == hash(1.0): hashed as a real number
    if isinstance(v, (Str, Opq, Bool)):
        return [(p, Num(_hash_fn(v.t.sort())(v.t)))]
    if isinstance(v, NoneV):
        return [(p, Num(0))]
    if isinstance(v, Tup):
        hs = []
        for x in v.items:
            r = b_hash(ex, p, [x], kw, node)
            if len(r) != 1:
                raise Unsupported("forking hash")
            hs.append(r[0][1].t)
        f = z3.Function(f"pyhash_tuple{len(hs)}", *[z3.IntSort()] * len(hs), z3.IntSort())
        return [(p, Num(f(*hs)))]
    if isinstance(v, Obj):
        found = ex.repo.find_method(v.cls, "__hash__") if ex.repo.resolve(v.cls)[0] == "class" else None
        if found is None:
            ex.emit_raise(p, "TypeError", node)  # pydantic models without __hash__ are unhashable
            return []
        fm, fnode, fcls, fq = found
        return ex.call_repo_function(fm, fnode, [v], {}, p, qual=fq + ".__hash__")
    raise Unsupported(f"hash of {type(v).__name__}")


def b_id(ex, p, args, kw, node):
    """id(x): the object's identity -- NOT a function of its value (two equal objects have unrelated ids)"""
    ids = ex.trace.setdefault("_ids", {})
    key = id(args[0])
    if key not in ids:
        ids[key] = (z3.Int(fresh_name("objid")), args[0])
    return [(p, Num(ids[key][0]))]


def np_zeros(ex, p, args, kw, node):
    shape = args[0] if args else kw["shape"]
    dt = kw.get("dtype")
    dtype = dt.qual.rsplit(".", 1)[1] if isinstance(dt, ModV) else "float64"
    ex.trace["assumed"].add("numpy.zeros(n): an array of n zeros; item assignment writes exactly the indexed cell")
    if isinstance(shape, Num):
        zero = Num(0) if dtype.startswith("int") else Num(0.0)
        return [(p, NDArr(shape.t, lambda i, zero=zero: zero, dtype))]
    h = ex.handlers.get("numpy.zeros#nd")
    if h:
        return h(ex, p, args, kw, node)
    raise Unsupported("numpy.zeros with a non-scalar shape")


def b_super(ex, p, args, kw, node):
    if args:
        raise Unsupported("super() with arguments")
    cls = p.env.get("__class__")
    selfv = p.env.get("self")
    if cls is None or selfv is None:
        raise Unsupported("super() outside a method")
    return [(p, Fn("super", (selfv, cls.data)))]


def b_noop(ex, p, args, kw, node):
    return [(p, NONE)]


def b_set(ex, p, args, kw, node):
    if not args:
        return [(p, SetV([]))]
    if isinstance(args[0], (SetL, SetV)):
        return [(p, args[0])]
    seq = ex.as_list(args[0], p, node)
    if seq.concrete:
        return [(p, SetV(seq.items))]
    return [(p, SetL(seq))]


# contract-language builtins ------------------------------------------------------------
def b_implies(ex, p, args, kw, node):
    return [(p, Bool(z3.Implies(truth(args[0]), truth(args[1]))))]


def _cquant(which):
    """forall(n, lambda i: ...) / forall(lo, hi, lambda i: ...): i ranges over [0,n) resp. [lo,hi)."""
    def f(ex, p, args, kw, node):
        *bounds, lam = args
        if len(bounds) == 1:
            lo, hi = z3.IntVal(0), bounds[0].t
        else:
            lo, hi = bounds[0].t, bounds[1].t
        lo_s, hi_s = z3.simplify(lo), z3.simplify(hi)
        if z3.is_int_value(lo_s) and z3.is_int_value(hi_s) and hi_s.as_long() - lo_s.as_long() <= 6:
            # a concrete small range: the instances are written out (elements looked up by a concrete index stay the
            # caller's own objects instead of an if-then-else merge)
            parts = []
            for k in range(lo_s.as_long(), hi_s.as_long()):
                res_k = apply(ex, lam, [Num(k)], {}, symex.Path(p.cond, p.env, None, p.heap), node)
                dk = []
                for q, v in res_k:
                    extra = q.cond[len(p.cond):]
                    dk.append(z3.And(*extra, truth(v)) if extra else truth(v))
                parts.append(z3.Or(dk) if len(dk) != 1 else dk[0])
            if which == "forall":
                return [(p, Bool(z3.And(parts) if parts else z3.BoolVal(True)))]
            return [(p, Bool(z3.Or(parts) if parts else z3.BoolVal(False)))]
        i = fresh_int("k")
        res = apply(ex, lam, [Num(i)], {}, symex.Path(p.cond + [i >= lo, i < hi], p.env, None, p.heap), node)
        # merge forked evaluation of the body
        base = len(p.cond) + 2
        disj = []
        for q, v in res:
            extra = q.cond[base:]
            disj.append(z3.And(*extra, truth(v)) if extra else truth(v))
        body = z3.Or(disj) if len(disj) != 1 else disj[0]
        rng = z3.And(i >= lo, i < hi)
        if which == "forall":
            return [(p, Bool(z3.ForAll([i], z3.Implies(rng, body))))]
        return [(p, Bool(z3.Exists([i], z3.And(rng, body))))]
    return f


def b_distinct(ex, p, args, kw, node):
    return [(p, Bool(distinct_list(ex.as_list(args[0], p, node))))]


def b_slice(ex, p, args, kw, node):
    from .array_model import h_slice
    return h_slice(ex, p, args, kw, node)


BUILTINS = {
    "slice": b_slice,
    "len": b_len, "min": _minmax("min"), "max": _minmax("max"), "abs": b_abs, "int": b_int, "float": b_float,
    "bool": b_bool, "isinstance": b_isinstance, "any": _quant("any"), "all": _quant("all"), "list": b_list,
    "tuple": b_tuple, "dict": b_dict, "range": b_range, "enumerate": b_enumerate, "zip": b_zip, "sum": b_sum,
    "next": b_next, "hasattr": b_hasattr, "getattr": b_getattr, "type": b_type, "hash": b_hash, "id": b_id, "super": b_super, "noop": b_noop, "set": b_set, "iter": b_list,
    "implies": b_implies, "forall": _cquant("forall"), "exists": _cquant("exists"), "distinct": b_distinct,
}
