"""Development-time guard of the engine (DESIGN.md 6.5), not a MANIFEST command.

Applies each catalogued source mutation to a scratch copy of /repo/src (outside /repo and /verif),
runs the named property's check against it via VERIF_REPO, and expects exit 1 (mutants) or exit 0
(semantics-preserving refactors).  Usage: python3 tools/selftest.py [Cxx ...] [-j N]
"""
import concurrent.futures as cf
import os
import shutil
import subprocess
import sys
import tempfile

ROOT = os.path.dirname(os.path.dirname(os.path.abspath(__file__)))
sys.path.insert(0, ROOT)
from tools.mutants import MUTANTS  # noqa: E402


def run_one(k, m):
    d = tempfile.mkdtemp(prefix=f"pyvc_mut_{k}_", dir="/tmp")
    try:
        shutil.copytree("/repo/src", os.path.join(d, "src"))
        path = os.path.join(d, "src/soundevent", m["file"])
        text = open(path).read()
        if text.count(m["old"]) != 1:
            return k, m, "BAD-MUTANT", f"pattern occurs {text.count(m['old'])} times"
        open(path, "w").write(text.replace(m["old"], m["new"]))
        env = dict(os.environ, VERIF_REPO=d, VERIF_TMP=d, VERIF_OUT=d)
        pr = subprocess.run(["./check", m["prop"], "--tier", "quick"], cwd=ROOT, env=env, capture_output=True, text=True, timeout=1800)
        want = 1 if m.get("expect", "caught") == "caught" else 0
        status = "ok" if pr.returncode == want else "MISSED" if want == 1 else "FALSE-ALARM"
        tail = [l for l in pr.stdout.splitlines() if l.startswith(("VIOLATION", "  failed", "  bounded", m["prop"], "  UNDECIDED"))]
        ded = any("failed obligation" in l for l in tail)
        return k, m, status, f"exit={pr.returncode} deductive={'yes' if ded else 'no'} " + " | ".join(t[:160] for t in tail[:3])
    finally:
        shutil.rmtree(d, ignore_errors=True)


def main():
    props = [a for a in sys.argv[1:] if a.startswith("C")]
    jobs = 4
    if "-j" in sys.argv:
        jobs = int(sys.argv[sys.argv.index("-j") + 1])
    todo = [(k, m) for k, m in enumerate(MUTANTS) if not props or m["prop"] in props]
    if "-k" in sys.argv:     # only catalogue entries whose name contains the given text
        pat = sys.argv[sys.argv.index("-k") + 1]
        todo = [(k, m) for k, m in todo if pat in m["name"]]
    bad = 0
    with cf.ThreadPoolExecutor(jobs) as ex:
        for k, m, status, info in ex.map(lambda km: run_one(*km), todo):
            print(f"[{status}] {m['prop']} #{k} {m['name']}: {info}", flush=True)
            bad += status != "ok"
    print(f"{len(todo) - bad}/{len(todo)} as expected")
    return 1 if bad else 0


if __name__ == "__main__":
    sys.exit(main())
