#!/bin/sh
# tools/seedtest.sh <seed-dir> [tier]   -- development tool (not a MANIFEST command)
# Confirms a seeded change in a scratch worktree (tests pass with it; demo fails with it and passes without), then applies it
# to /repo's working tree, runs the property's check (evidence redirected), and restores /repo.
set -u
d=$(cd "$1" && pwd); cd "$(dirname "$0")/.."; tier="${2:-quick}"
prop=$(python3 -c "import json,sys;print(json.load(open('$d/meta.json'))['property'])")
wt=$(mktemp -d /tmp/seedchk.XXXXXX); rmdir "$wt"
git -C /repo worktree add -q --detach "$wt" HEAD || exit 3
trap 'git -C /repo worktree remove --force "$wt" 2>/dev/null; git -C /repo checkout -q -- . ; rm -rf "$out"' EXIT
out=$(mktemp -d /tmp/seedout.XXXXXX)
demo=$(ls "$d"/demo*.py | head -1)
( cd "$wt" && PYTHONPATH="$wt/src" /venv/bin/python -W ignore "$demo" >/dev/null 2>&1 ); base=$?
git -C "$wt" apply "$d/patch.diff" || { echo "patch does not apply"; exit 3; }
( cd "$wt" && PYTHONPATH="$wt/src" /venv/bin/python -W ignore "$demo" >"$out/demo.txt" 2>&1 ); changed=$?
fails=$( cd "$wt" && PYTHONPATH="$wt/src" /venv/bin/python -m pytest -q -p no:cacheprovider --timeout=900 --continue-on-collection-errors 2>&1 | grep "^FAILED" | grep -v "tests/test_audio/" | wc -l )
echo "confirm: demo-without=$base demo-with=$changed non-audio-test-failures=$fails"
git -C /repo apply "$d/patch.diff" || exit 3
VERIF_OUT="$out" ./check "$prop" --tier "$tier" >"$out/check.txt" 2>&1; rc=$?
git -C /repo checkout -q -- .
echo "check $prop --tier $tier: exit=$rc"
grep -E "^(VIOLATION|KNOWN-FINDING|  failed|  bounded|  UNDECIDED)" "$out/check.txt" | cut -c1-220 | head -8
{ echo "confirmed in a scratch worktree: demo exit without change=$base, with change=$changed; non-audio test failures with change=$fails"
  echo "./check $prop --tier $tier on /repo with the change applied: exit=$rc"
  grep -E "^(VIOLATION|  failed|  bounded|  UNDECIDED)" "$out/check.txt" | sed "s|$out/||" | cut -c1-200 | head -6; } > "$d/result.txt"
