#!/bin/sh
# run every claimed check (quick) sequentially; print one summary line each
cd "$(dirname "$0")/.." || exit 3
for p in $(python3 -c "import json;print(' '.join(c['property_id'] for c in json.load(open('MANIFEST.json'))['checks']))"); do
  ./check "$p" --tier "${1:-quick}" > /tmp/runall_$p.log 2>&1; rc=$?
  echo "$p exit=$rc $(grep "^$p \[" /tmp/runall_$p.log | cut -c1-220)"
done
