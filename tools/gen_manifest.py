"""Regenerates MANIFEST.json from the table below and validates it (and any evidence files) against the schemas."""
import json, os, sys
ROOT = os.path.dirname(os.path.dirname(os.path.abspath(__file__)))
sys.path.insert(0, ROOT)
from props.registry import CLAIMED, NOT_APPLICABLE  # noqa: E402

BASE = "cd /repo && /venv/bin/python -m pytest -ra -q -p no:cacheprovider --timeout=900 --continue-on-collection-errors"

man = {
    "version": 1,
    "setup_cmd": "./setup.sh",
    "hooks": {
        "guard": "SOUNDEVENT_VERIF",
        "enable": "none needed: contracts are sidecar files under /verif/contracts; the engine parses /repo/src as text on every run and the native replayer/stand-ins import it with PYTHONPATH=/repo/src",
        "baseline_off_cmd": BASE,
        "source_commits": [],
        "add_only": True,
    },
    "engines": [
        {"name": "pyvc", "path": "pyvc/", "serves_properties": sorted(CLAIMED),
         "kind_free_text": "self-built deductive verifier: Python AST of the real source -> verification conditions (forward symbolic execution, contracts at calls, first-exit loop summaries) -> z3 5.1 / cvc5; contracts in /verif/contracts are the same Python text executed natively for replay and bounded stand-ins"},
    ],
    "checks": [],
    "not_applicable": [{"property_id": k, "reason": v} for k, v in sorted(NOT_APPLICABLE.items())],
    "notes": "exit codes: 0 held, 1 violation (VIOLATION line), 2 undecided, 3 checker error. See DESIGN.md.",
}
for pid in sorted(CLAIMED):
    c = CLAIMED[pid]
    man["checks"].append({
        "property_id": pid,
        "quick_cmd": f"./check {pid} --tier quick",
        "thorough_cmd": f"./check {pid} --tier thorough",
        "evidence_file": f"evidence/{pid}.json",
        "replay_cmd_template": f"./check {pid} --replay {{path}}",
        "engine": "pyvc",
        "level_claimed": {"category": c["level"], "text": c["text"], "design_ref": c.get("design_ref", "DESIGN.md section 8")},
        "level_note": c["note"],
        "technique": c["technique"],
    })
json.dump(man, open(os.path.join(ROOT, "MANIFEST.json"), "w"), indent=1)
try:
    import jsonschema
    jsonschema.validate(man, json.load(open("/root/.vp/MANIFEST.schema.json")))
    es = json.load(open("/root/.vp/EVIDENCE.schema.json"))
    for f in sorted(os.listdir(os.path.join(ROOT, "evidence"))):
        if f.endswith(".json"):
            ev = json.load(open(os.path.join(ROOT, "evidence", f)))
            jsonschema.validate(ev, es)
            c = ev["coverage"]
            print(f, "ok", ev["level"], c.get("obligations"), c.get("discharged"))
    print("MANIFEST ok:", len(man["checks"]), "checks,", len(man["not_applicable"]), "n/a")
except ImportError:
    print("jsonschema not available under this interpreter; wrote MANIFEST.json unvalidated")
