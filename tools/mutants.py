"""Catalogue of seeded source mutations / refactors for tools/selftest.py (paths relative to src/soundevent)."""
GO = "geometry/operations.py"
MUTANTS = [
    # ---- C12
    dict(prop="C12", name="ge->gt in intervals_overlap", file=GO, old="return stop - start >= overlap", new="return stop - start > overlap"),
    dict(prop="C12", name="min width -> max width", file=GO, old="        min_width = min(\n            stop1 - start1,", new="        min_width = max(\n            stop1 - start1,"),
    dict(prop="C12", name="rel range check dropped upper", file=GO, old="if min_relative_overlap < 0 or min_relative_overlap > 1:", new="if min_relative_overlap < 0:"),
    dict(prop="C12", name="temporal overlap uses freq bounds of geom2", file=GO, old="    start_time_2, _, end_time_2, _ = compute_bounds(geom2)", new="    _, start_time_2, _, end_time_2 = compute_bounds(geom2)"),
    dict(prop="C12", name="is_in_clip <= to <", file=GO, old="    if (end_time <= clip.start_time + minimum_overlap) or (", new="    if (end_time < clip.start_time + minimum_overlap) or ("),
    dict(prop="C12", name="is_in_clip negative guard removed", file=GO, old="    if minimum_overlap < 0:\n        raise ValueError(\"The minimum overlap must be non-negative.\")\n", new=""),
    dict(prop="C12", name="refactor: rename locals in intervals_overlap", file=GO, old="    start = max(start1, start2)\n    stop = min(stop1, stop2)", new="    stop = min(stop1, stop2)\n    start = max(start1, start2)", expect="clean"),
    # ---- C14
    dict(prop="C14", name="ceil -> floor (the original defect)", file="operations.py", old="math.ceil(clip.duration / hop)", new="math.floor(clip.duration / hop)"),
    dict(prop="C14", name="start uses duration instead of hop", file="operations.py", old="start_time = clip.start_time + i * hop", new="start_time = clip.start_time + i * duration"),
    dict(prop="C14", name="end not truncated", file="operations.py", old="        end_time = min(end_time, clip.end_time)\n", new=""),
    dict(prop="C14", name="break on >= instead of >", file="operations.py", old="if end_time > clip.end_time and not include_incomplete:", new="if end_time >= clip.end_time and not include_incomplete:"),
    dict(prop="C14", name="uuid ignores end", file="operations.py", old='f"segment_clip:{clip.uuid}:{start_time}:{end_time}"', new='f"segment_clip:{clip.uuid}:{start_time}"' ),
    dict(prop="C14", name="hop guard dropped", file="operations.py", old="    if hop <= 0:\n        raise ValueError(\"Hop size must be positive.\")\n", new=""),
]
DG = "data/geometries.py"
MUTANTS += [
    dict(prop="C03", name="TimeInterval start>end check dropped", file=DG, old="        if v[0] > v[1]:\n            raise ValueError(\"The start time must be before the end time.\")\n", new=""),
    dict(prop="C03", name="TimeStamp < to <=", file=DG, old="        if v < 0:\n            raise ValueError(\"The time must be positive.\")", new="        if v <= 0:\n            raise ValueError(\"The time must be positive.\")"),
    dict(prop="C03", name="BoundingBox box not sorted in frequency", file=DG, old="        if low_freq > high_freq:\n            low_freq, high_freq = high_freq, low_freq\n", new=""),
    dict(prop="C03", name="Polygon ring needs only 2 points", file=DG, old="            if len(ring) < 3:\n                raise ValueError(\"The ring must have at least three points.\")", new="            if len(ring) < 2:\n                raise ValueError(\"The ring must have at least three points.\")"),
    dict(prop="C03", name="MultiLineString allows equal start/end", file=DG, old="            if not (start_time < end_time):", new="            if not (start_time <= end_time):"),
    dict(prop="C03", name="LineString never reversed", file=DG, old="        if start_time > end_time:\n            return v[::-1]\n", new=""),
    dict(prop="C03", name="MultiPoint freq upper bound uses >= ", file=DG, old="""        if len(v) < 1:
            raise ValueError("The multipoint must have at least one point.")

        for time, frequency in v:
            if time < 0:
                raise ValueError("The time must be positive.")

            if frequency < 0 or frequency > MAX_FREQUENCY:""", new="""        if len(v) < 1:
            raise ValueError("The multipoint must have at least one point.")

        for time, frequency in v:
            if time < 0:
                raise ValueError("The time must be positive.")

            if frequency < 0 or frequency >= MAX_FREQUENCY:"""),
    dict(prop="C03", name="MultiPolygon validator decorator removed", file=DG, old="""    @field_validator("coordinates")
    def _validate_coordinates(
        cls, v: List[List[List[List[float]]]]
    )""", new="""    def _validate_coordinates(
        cls, v: List[List[List[List[float]]]]
    )"""),
]
GC = "geometry/conversion.py"
GF = "geometry/features.py"
MUTANTS += [
    dict(prop="C05", name="bounding box args swapped", file=GC, old="        start_time,\n        low_freq,\n        end_time,\n        high_freq,\n    )", new="        start_time,\n        end_time,\n        low_freq,\n        high_freq,\n    )"),
    dict(prop="C05", name="polygon holes include shell", file=GC, old="    shell = geom.coordinates[0]\n    holes = geom.coordinates[1:]\n    return geometry.Polygon(shell, holes)", new="    shell = geom.coordinates[0]\n    holes = geom.coordinates[0:]\n    return geometry.Polygon(shell, holes)"),
    dict(prop="C05", name="time interval band starts at 1 Hz", file=GC, old="        start_time,\n        0,\n        end_time,", new="        start_time,\n        1,\n        end_time,"),
    dict(prop="C05", name="multipolygon drops last polygon", file=GC, old="    for poly in geom.coordinates:", new="    for poly in geom.coordinates[:-1]:"),
    dict(prop="C05", name="center-left uses end_time", file=GO, old='        "left": start_time,', new='        "left": end_time,'),
    dict(prop="C05", name="center divides by 3", file=GO, old="        return (start_time + end_time) / 2, (low_freq + high_freq) / 2", new="        return (start_time + end_time) / 2, (low_freq + high_freq) / 3"),
]
MUTANTS += [
    dict(prop="C05", name="polygon features: low/high swapped", file=GF, old="""    geom = geometry_to_shapely(geometry)
    start_time, low_freq, end_time, high_freq = geom.bounds

    return [
        Feature(term=terms.duration, value=end_time - start_time),
        Feature(term=terms.low_freq, value=low_freq),
        Feature(term=terms.high_freq, value=high_freq),
        Feature(term=terms.bandwidth, value=high_freq - low_freq),
    ]


def _compute_multi_point_features(""", new="""    geom = geometry_to_shapely(geometry)
    start_time, low_freq, end_time, high_freq = geom.bounds

    return [
        Feature(term=terms.duration, value=end_time - start_time),
        Feature(term=terms.low_freq, value=high_freq),
        Feature(term=terms.high_freq, value=low_freq),
        Feature(term=terms.bandwidth, value=high_freq - low_freq),
    ]


def _compute_multi_point_features("""),
    dict(prop="C05", name="point features: bandwidth term replaced by duration term", file=GF, old="        Feature(term=terms.bandwidth, value=0),", new="        Feature(term=terms.duration, value=0),"),
    dict(prop="C05", name="feature table: Point -> line string function", file=GF, old="    geometries.Point.geom_type(): _compute_point_features,", new="    geometries.Point.geom_type(): _compute_line_string_features,"),
]
MUTANTS += [
    dict(prop="C11", name="interval start not clamped at 0", file=GO, old="    start_time, end_time = geometry.coordinates\n    start_time = max(start_time - time_buffer, 0)", new="    start_time, end_time = geometry.coordinates\n    start_time = start_time - time_buffer"),
    dict(prop="C11", name="box high freq not capped", file=GO, old="    high_freq = min(high_freq + freq_buffer, data.MAX_FREQUENCY)", new="    high_freq = high_freq + freq_buffer"),
    dict(prop="C11", name="box low freq uses time buffer", file=GO, old="    low_freq = max(low_freq - freq_buffer, 0)", new="    low_freq = max(low_freq - time_buffer, 0)"),
    dict(prop="C11", name="negative freq buffer accepted", file=GO, old="    if time_buffer < 0 or freq_buffer < 0:", new="    if time_buffer < 0:"),
    dict(prop="C11", name="TimeInterval dispatched to timestamp buffer", file=GO, old="    if geometry.type == \"TimeInterval\":\n        return buffer_interval(", new="    if geometry.type == \"TimeInterval\":\n        return buffer_timestamp("),
    dict(prop="C11", name="timestamp end shrinks", file=GO, old="    end_time = time + time_buffer", new="    end_time = time + time_buffer / 2"),
]
EA = "evaluation/affinity.py"
MUTANTS += [
    dict(prop="C06", name="clamp removed (the original defect)", file=EA, old="    return min(intersection / union, 1.0)", new="    return intersection / union"),
    dict(prop="C06", name="time branch only if both are time geometries", file=EA, old="        geometry1.type in TIME_GEOMETRY_TYPES\n        or geometry2.type in TIME_GEOMETRY_TYPES", new="        geometry1.type in TIME_GEOMETRY_TYPES\n        and geometry2.type in TIME_GEOMETRY_TYPES"),
    dict(prop="C06", name="time union forgets the intersection", file=EA, old="        (end_time1 - start_time1) + (end_time2 - start_time2) - intersection", new="        (end_time1 - start_time1) + (end_time2 - start_time2)"),
    dict(prop="C06", name="second geometry prepared with zero time buffer", file=EA, old="    geometry2 = _prepare_geometry(geometry2, time_buffer, freq_buffer)", new="    geometry2 = _prepare_geometry(geometry2, 0, freq_buffer)"),
    dict(prop="C06", name="LineString no longer buffered", file=EA, old="    data.LineString.geom_type(),\n", new=""),
    dict(prop="C06", name="area union uses only the first area", file=EA, old="    union = shp1.area + shp2.area - intersection", new="    union = shp1.area + shp1.area - intersection"),
]
MUTANTS += [
    dict(prop="C04", name="clip mismatch check removed", file="data/clip_evaluations.py", old="        if example.clip.uuid != prediction.clip.uuid:\n            raise ValueError(\"The example and prediction clips do not match.\")\n", new=""),
    dict(prop="C04", name="duplicate source check removed", file="data/clip_evaluations.py", old="        if len(match_sources) != len(match_sources_set):\n            raise ValueError(\"Multiple matches for the same source.\")\n", new=""),
    dict(prop="C04", name="targets compared as subset only", file="data/clip_evaluations.py", old="        if match_targets_set != annotation_sound_events:", new="        if not match_targets_set <= annotation_sound_events:"),
    dict(prop="C04", name="match: or instead of and", file="data/matches.py", old="        if values.get(\"source\") is None and values.get(\"target\") is None:", new="        if values.get(\"source\") is None or values.get(\"target\") is None:"),
    dict(prop="C04", name="affinity upper bound 10", file="data/matches.py", old="    affinity: float = Field(default=0.0, ge=0.0, le=1.0)", new="    affinity: float = Field(default=0.0, ge=0.0, le=10.0)"),
    dict(prop="C04", name="predicted tag score lt instead of le", file="data/predicted_tags.py", old="    score: float = Field(default=1, ge=0, le=1)", new="    score: float = Field(default=1, ge=0, lt=1)"),
    dict(prop="C04", name="clip allows start after end when equal check flipped", file="data/clips.py", old="        if values[\"start_time\"] > values[\"end_time\"]:", new="        if values[\"start_time\"] >= values[\"end_time\"]:"),
    dict(prop="C04", name="project check uses annotation uuid", file="data/annotation_projects.py", old="            if annotated_clip.clip.uuid not in clip_ids:", new="            if annotated_clip.uuid not in clip_ids:"),
]
EE = "evaluation/encoding.py"
MUTANTS += [
    dict(prop="C19", name="encoder keys on value only", file=EE, old="            (tag.term, tag.value): i for i, tag in enumerate(tags)", new="            tag.value: i for i, tag in enumerate(tags)"),
    dict(prop="C19", name="classification returns last match", file=EE, old="        encoded = encoder.encode(tag)\n        if encoded is not None:\n            return encoded\n    return None", new="        encoded = encoder.encode(tag)\n        if encoded is not None:\n            found = encoded\n    return None"),
    dict(prop="C19", name="multilabel counts instead of marking", file=EE, old="        encoded[index] = 1", new="        encoded[index] = 2"),
    dict(prop="C19", name="prediction keeps first score", file=EE, old="        encoded[index] = prediction.score", new="        encoded[index] = max(encoded[index], prediction.score)"),
    dict(prop="C19", name="Tag hash includes object identity", file="data/tags.py", old="        return hash((self.term, self.value))", new="        return hash((self.term, self.value, id(self)))"),
    dict(prop="C19", name="Term hash on label", file="data/terms.py", old="        return hash(self.name)", new="        return hash(self.label)", expect="clean"),
    dict(prop="C19", name="SoundEvent hash on geometry id", file="data/sound_events.py", old="        return hash(self.uuid)", new="        return hash(id(self.geometry))"),
]
MUTANTS += [
    dict(prop="C13", name="matrix not symmetric (row/col same order)", file=GO, old="        row.extend([index2, index1])", new="        row.extend([index1, index2])"),
    dict(prop="C13", name="similarity inverted", file=GO, old="        if not comparison_fn(se1, se2):\n            continue", new="        if comparison_fn(se1, se2):\n            continue"),
    dict(prop="C13", name="labels ignored: one sequence per event", file=GO, old="    for sound_event, label in zip(sound_events, labels):\n        sequence = sequences[label]", new="    for sound_event, label in zip(sound_events, range(len(labels))):\n        sequence = sequences[label]"),
    dict(prop="C13", name="matrix one column short", file=GO, old="        shape=(rows, rows),", new="        shape=(rows, rows + 1),"),
]
MUTANTS += [
    dict(prop="C18", name="prediction set drops audio_dir", file="io/aoef/prediction_set.py", old="            audio_dir=audio_dir,", new="            audio_dir=None,"),
    dict(prop="C18", name="recording adapter ignores audio_dir on load", file="io/aoef/recording.py", old="            path = self.audio_dir / obj.path", new="            path = obj.path"),
    dict(prop="C18", name="relative_to swallowed", file="io/aoef/recording.py", old="            path = Path(obj.path).relative_to(self.audio_dir)", new="            try:\n                path = Path(obj.path).relative_to(self.audio_dir)\n            except ValueError:\n                path = obj.path"),
    dict(prop="C18", name="to_soundevent forgets audio_dir", file="io/aoef/__init__.py", old="            adapter = adapter_cls(audio_dir=audio_dir)\n            return adapter.to_soundevent(aoef_object.data)", new="            adapter = adapter_cls()\n            return adapter.to_soundevent(aoef_object.data)"),
    dict(prop="C18", name="save writes before converting", file="io/aoef/__init__.py", old="    aoef_object = to_aeof(obj, audio_dir=audio_dir)\n\n    path.write_text(", new="    path.write_text(\"\")\n    aoef_object = to_aeof(obj, audio_dir=audio_dir)\n\n    path.write_text("),
    dict(prop="C18", name="loader drops audio_dir", file="io/loader.py", old="    return loader(path, audio_dir=audio_dir, type=type)", new="    return loader(path, audio_dir=None, type=type)"),
]
AR = "io/aoef/recording.py"
MUTANTS += [
    dict(prop="C01", name="license not read back (part of the original defect)", file=AR, old="            rights=obj.rights,\n            license=obj.license,\n        )\n\n    def assemble_soundevent", new="            rights=obj.rights,\n        )\n\n    def assemble_soundevent"),
    dict(prop="C01", name="latitude/longitude swapped on load", file=AR, old="            latitude=obj.latitude,\n            longitude=obj.longitude,\n            tags=tags,", new="            latitude=obj.longitude,\n            longitude=obj.latitude,\n            tags=tags,"),
    dict(prop="C01", name="time_expansion elision compares with 2.0", file=AR, old="if obj.time_expansion != 1.0", new="if obj.time_expansion != 2.0"),
    dict(prop="C01", name="clip end_time written as start_time", file="io/aoef/clip.py", old="            end_time=obj.end_time,\n            uuid=obj.uuid,", new="            end_time=obj.start_time,\n            uuid=obj.uuid,"),
    dict(prop="C01", name="sequence sound events reversed on load", file="io/aoef/sequence.py", old="            for sound_event_id in obj.sound_events\n", new="            for sound_event_id in obj.sound_events[::-1]\n"),
    dict(prop="C01", name="note is_issue dropped", file="io/aoef/note.py", old="            is_issue=note.is_issue,\n            created_on=note.created_on,\n        )\n\n    def to_soundevent", new="            created_on=note.created_on,\n        )\n\n    def to_soundevent"),
    dict(prop="C01", name="match score saved as affinity", file="io/aoef/match.py", old="            score=obj.score,\n            metrics=(", new="            score=obj.affinity,\n            metrics=("),
    dict(prop="C02", name="clip references recording without registering it", file="io/aoef/clip.py", old="            recording=self.recording_adapter.to_aoef(obj.recording).uuid,", new="            recording=obj.recording.uuid,"),
    dict(prop="C02", name="prediction set omits sequence predictions (original defect)", file="io/aoef/prediction_set.py", old="            sequence_predictions=self.sequence_prediction_adapter.values(),\n", new=""),
    dict(prop="C02", name="evaluation set converts evaluation tags after the tags snapshot (original defect)", file="io/aoef/evaluation_set.py", old="            evaluation_tags=evaluation_tags if evaluation_tags else None,", new="            evaluation_tags=[self.tag_adapter.to_aoef(tag).id for tag in obj.evaluation_tags if tag is not None] or None,"),
    dict(prop="C02", name="annotation set loads clips before recordings", file="io/aoef/annotation_set.py", old="        for recording in obj.recordings or []:\n            self.recording_adapter.to_soundevent(recording)\n\n        for clip in obj.clips or []:\n            self.clip_adapter.to_soundevent(clip)\n", new="        for clip in obj.clips or []:\n            self.clip_adapter.to_soundevent(clip)\n\n        for recording in obj.recordings or []:\n            self.recording_adapter.to_soundevent(recording)\n"),
    dict(prop="C01", name="evaluation set never saves its evaluation tags", file="io/aoef/evaluation_set.py", old="        evaluation_tags = [\n            self.tag_adapter.to_aoef(tag).id for tag in obj.evaluation_tags\n        ]\n", new="        evaluation_tags = None\n"),
    dict(prop="C01", name="model run version not loaded", file="io/aoef/model_run.py", old="            **dict(prediction_set),\n            name=obj.name,\n            version=obj.version,", new="            **dict(prediction_set),\n            name=obj.name,"),
    dict(prop="C02", name="dispatch: annotation_set row before annotation_project", file="io/aoef/__init__.py", old='    ("evaluation", data.Evaluation, EvaluationAdapter),\n', new='    ("evaluation", data.Evaluation, EvaluationAdapter),\n    ("annotation_set", data.AnnotationSet, AnnotationSetAdapter),\n', expect="caught"),
]
AD = "arrays/dimensions.py"
MUTANTS += [
    dict(prop="C16", name="trailing element compared with stop", file=AD, old="    if coords.size > 0 and coords[-1] >= stop - step / 2:", new="    if coords.size > 0 and coords[-1] >= stop + step / 2:"),
    dict(prop="C16", name="step attribute stores 2*step", file=AD, old="            DimAttrs.step.value: step,\n            **attrs,\n        },\n    )\n\n\ndef create_time_range", new="            DimAttrs.step.value: 2 * step,\n            **attrs,\n        },\n    )\n\n\ndef create_time_range"),
    dict(prop="C16", name="time range step = samplerate", file=AD, old="        step = 1.0 / samplerate", new="        step = samplerate / 1.0"),
    dict(prop="C16", name="coord index off by one", file=AD, old="    return index - 1", new="    return index"),
    dict(prop="C16", name="coord index lower clamp returns -1", file=AD, old="        if value < start:\n            return 0", new="        if value < start:\n            return -1"),
    dict(prop="C16", name="size-derived step uses stop only", file=AD, old="        step = (stop - start) / size", new="        step = stop / size"),
]
AO = "arrays/operations.py"
MUTANTS += [
    dict(prop="C17", name="extend_dim_width float arange (original defect)", file=AO, old="        new_coords = (\n            current_end + step * np.arange(1, extra_width + 1)\n        ).astype(coords.dtype)", new="        new_coords = np.arange(current_end + step, current_end + step + extra_width * step, step, dtype=coords.dtype)"),
    dict(prop="C17", name="centre crop starts one late", file=AO, old="        start = max(0, array.sizes[dim] // 2 - width // 2)", new="        start = max(0, array.sizes[dim] // 2 - width // 2 + 1)"),
    dict(prop="C17", name="end extension places new cells after", file=AO, old="        coords = np.concatenate([new_coords, coords])\n\n    elif position == \"center\":", new="        coords = np.concatenate([coords, new_coords])\n\n    elif position == \"center\":"),
    dict(prop="C17", name="crop open right end becomes closed", file=AO, old="    if not right_closed:\n        slice_end = stop - eps", new="    if not right_closed:\n        slice_end = stop + eps"),
    dict(prop="C17", name="adjust accepts width 0", file=AO, old="    if width < 1:", new="    if width < 0:"),
    dict(prop="C17", name="extend_dim open end not shrunk (original defect)", file=AO, old="    if right_closed:\n        stop += eps\n    else:\n        stop -= eps\n", new="    if right_closed:\n        stop += eps\n"),
]
MUTANTS += [
    dict(prop="C20", name="shape from array.shape (original defect)", file=GO, old="        (array.sizes[ydim], array.sizes[xdim]),", new="        array.shape,"),
    dict(prop="C20", name="shape transposed", file=GO, old="        (array.sizes[ydim], array.sizes[xdim]),", new="        (array.sizes[xdim], array.sizes[ydim]),"),
    dict(prop="C20", name="length check dropped", file=GO, old="    if len(values) != len(geometries):\n        raise ValueError(\n            \"The number of values must match the number of geometries.\"\n        )\n", new=""),
    dict(prop="C20", name="result dims swapped", file=GO, old="        dims=(xdim, ydim),", new="        dims=(ydim, xdim),"),
    dict(prop="C20", name="y index looked up on the x axis", file=GO, old="                    get_coord_index(array, ydim, y, raise_error=False),", new="                    get_coord_index(array, xdim, y, raise_error=False),"),
]
MUTANTS += [
    dict(prop="C15", name="spectrogram advertises hop_size again (original defect)", file="audio/spectrograms.py", old="                step=(nperseg - noverlap) / samplerate,", new="                step=hop_size,"),
    dict(prop="C15", name="clip length rounded instead of floored", file="audio/io.py", old="    samples = int(np.floor(duration * samplerate))", new="    samples = int(np.floor(duration * samplerate + 0.5))"),
    dict(prop="C15", name="clip time axis starts at clip.start_time", file="audio/io.py", old="    start_time = offset / samplerate", new="    start_time = clip.start_time"),
    dict(prop="C15", name="offset uses end_time", file="audio/io.py", old="    offset = int(np.floor(clip.start_time * samplerate))", new="    offset = int(np.floor(clip.end_time * samplerate))"),
    dict(prop="C15", name="seek not clamped (original defect)", file="audio/io.py", old="        fp.seek(min(offset, fp.frames))", new="        fp.seek(offset)"),
    dict(prop="C15", name="frequency step uses hop", file="audio/spectrograms.py", old="                step=samplerate / nperseg,", new="                step=samplerate / (nperseg - noverlap),"),
]
CL = "io/crowsetta/labels.py"
MUTANTS += [
    dict(prop="C10", name="explicit key lost again (original defect)", file=CL, old="        key = key_mapping.get(label, key)", new="        key = key_mapping.get(label)"),
    dict(prop="C10", name="empty labels no longer give no tags", file=CL, old="    if label in empty_labels:\n        return []\n", new=""),
    dict(prop="C10", name="tag_fn ValueError not swallowed", file=CL, old="        except ValueError:\n            pass\n\n    if term_mapping", new="        except KeyError:\n            pass\n\n    if term_mapping"),
    dict(prop="C10", name="time expansion applied twice to times", file="io/crowsetta/segment.py", old="        start_time = start_time / recording.time_expansion\n        end_time = end_time / recording.time_expansion\n\n    geometry = data.TimeInterval", new="        start_time = start_time / recording.time_expansion / recording.time_expansion\n        end_time = end_time / recording.time_expansion\n\n    geometry = data.TimeInterval"),
    dict(prop="C10", name="bbox frequencies divided instead of multiplied", file="io/crowsetta/bbox.py", old="        low_freq = low_freq * recording.time_expansion", new="        low_freq = low_freq / recording.time_expansion"),
    dict(prop="C10", name="sample index rounds", file="io/crowsetta/segment.py", old="    return int(time * recording.samplerate)", new="    return int(time * recording.samplerate + 0.5)"),
    dict(prop="C10", name="Nyquist cap removed", file="io/crowsetta/bbox.py", old="    high_freq = min(high_freq, nyquist_freq)\n", new=""),
    dict(prop="C10", name="select_by_key keyword clash again (original defect)", file=CL, old='        return label_from_tag(tag, **{**kwargs, "value_only": True})', new="        return label_from_tag(tag, value_only=True, **kwargs)"),
]
EM = "evaluation/match.py"
MUTANTS += [
    dict(prop="C07", name="zero-affinity pairs matched again (original defect)", file=EM, old="        if cost_matrix[row, column] <= 0:\n            continue\n\n", new=""),
    dict(prop="C07", name="reported affinity of the transposed cell", file=EM, old="            affinity = float(cost_matrix[match1, match2])", new="            affinity = float(cost_matrix[match2, match1]) if match2 < cost_matrix.shape[0] and match1 < cost_matrix.shape[1] else float(cost_matrix[match1, match2])"),
    dict(prop="C07", name="assignment minimises", file=EM, old="        cost_matrix,\n        maximize=True,", new="        cost_matrix,\n        maximize=False,"),
    dict(prop="C07", name="unmatched columns not reported", file=EM, old="    for column in cols:\n        yield None, column\n", new=""),
    dict(prop="C07", name="matched row reported again as unmatched", file=EM, old="        rows.remove(row)\n", new=""),
    dict(prop="C07", name="threshold 0.5 for pairing", file=EM, old="        if cost_matrix[row, column] <= 0:", new="        if cost_matrix[row, column] <= 0.5:"),
]
SED = "evaluation/tasks/sound_event_detection.py"
TC = "evaluation/tasks/common.py"
MET = "evaluation/metrics.py"
MUTANTS += [
    # ---- C08
    dict(prop="C08", name="valid clips: membership test dropped", file=TC, old="        if predictions.clip.uuid in annotated_clips:", new="        if True:"),
    dict(prop="C08", name="valid clips: always the first annotation", file=TC, old="            annotations = annotated_clips[predictions.clip.uuid]", new="            annotations = clip_annotations[0]"),
    dict(prop="C08", name="constant affinity 1 (original defect)", file=SED, old="        affinity=affinity,\n        score=score,", new="        affinity=1,\n        score=score,"),
    dict(prop="C08", name="unpaired prediction scores 1", file=SED, old="                    source=prediction,\n                    target=None,\n                    affinity=affinity,\n                    score=0,", new="                    source=prediction,\n                    target=None,\n                    affinity=affinity,\n                    score=1,"),
    dict(prop="C08", name="geometry-less annotations dropped", file=SED, old="    pairs.extend(\n        (None, annotation, 0.0)\n        for annotation in clip_annotations.sound_events\n        if not annotation.sound_event.geometry\n    )\n", new=""),
    dict(prop="C08", name="index into the unfiltered list (original defect)", file=SED, old="            predictions[prediction_index]\n            if prediction_index is not None", new="            clip_predictions.sound_events[prediction_index]\n            if prediction_index is not None"),
    dict(prop="C08", name="classification_score: mass instead of remainder", file=MET, old="def classification_score(\n    y_true: Optional[int],\n    y_score: np.ndarray,\n) -> float:\n    if y_true is None:\n        return 1 - y_score.sum()", new="def classification_score(\n    y_true: Optional[int],\n    y_score: np.ndarray,\n) -> float:\n    if y_true is None:\n        return y_score.sum()"),
    dict(prop="C08", name="_mean of nothing is 1", file=SED, old="    if not valid_scores:\n        return 0.0", new="    if not valid_scores:\n        return 1.0"),
    dict(prop="C08", name="pair score taken from the prediction's best class", file=SED, old="    score = metrics.classification_score(true_class, predicted_class_scores)", new="    score = float(predicted_class_scores.max())"),
    dict(prop="C08", name="refactor: local renamed in evaluate_sound_event", file=SED, old="    score = metrics.classification_score(true_class, predicted_class_scores)\n    match = data.Match(", new="    pair_score = metrics.classification_score(true_class, predicted_class_scores)\n    score = pair_score\n    match = data.Match(", expect="clean"),
    # ---- C09
    dict(prop="C09", name="duplicate terms (original defect)", file="evaluation/tasks/sound_event_classification.py", old="    (terms.accuracy, metrics.accuracy),", new="    (terms.balanced_accuracy, metrics.accuracy),"),
    dict(prop="C09", name="accuracy term computed by balanced_accuracy", file="evaluation/tasks/clip_classification.py", old="    (terms.accuracy, metrics.accuracy),", new="    (terms.accuracy, metrics.balanced_accuracy),"),
    dict(prop="C09", name="true_class_probability reads class 0", file=MET, old="def true_class_probability(\n    y_true: Optional[int],\n    y_score: np.ndarray,\n) -> float:\n    if y_true is None:\n        return 1 - y_score.sum()\n\n    return y_score[y_true]", new="def true_class_probability(\n    y_true: Optional[int],\n    y_score: np.ndarray,\n) -> float:\n    if y_true is None:\n        return 1 - y_score.sum()\n\n    return y_score[0]"),
    dict(prop="C09", name="multilabel mAP flattened (original defect)", file=MET, old="        no_class = no_class.any(axis=1)\n", new="        pass\n"),
    dict(prop="C09", name="overall score of nothing is 1", file="evaluation/tasks/clip_classification.py", old="    return float(np.mean(non_none_scores)) if non_none_scores else 0.0", new="    return float(np.mean(non_none_scores)) if non_none_scores else 1.0"),
    dict(prop="C09", name="unlabelled items counted as class 0 in accuracy", file=MET, old="""def accuracy(
    y_true: Sequence[Optional[int]],
    y_score: np.ndarray,
) -> float:
    num_classes = y_score.shape[1]
    y_true_array = np.array(
        [y if y is not None else num_classes for y in y_true]
    )""", new="""def accuracy(
    y_true: Sequence[Optional[int]],
    y_score: np.ndarray,
) -> float:
    num_classes = y_score.shape[1]
    y_true_array = np.array(
        [y if y is not None else 0 for y in y_true]
    )"""),
    dict(prop="C09", name="two metric terms share a label", file="terms/metrics.py", old='    label="Top 3 Accuracy",', new='    label="Accuracy",'),
    dict(prop="C09", name="match metrics keyed by term name on save only", file="io/aoef/match.py", old="                    data.key_from_term(metrics.term): metrics.value", new="                    metrics.term.name: metrics.value"),
    dict(prop="C09", name="empty clip score nan (original defect)", file="evaluation/tasks/sound_event_classification.py", old="    score = float(np.mean(scores)) if scores else None", new="    score = float(np.mean(scores))"),
]
AD = "io/aoef/adapters.py"
MUTANTS += [
    dict(prop="C02", name="base class: get_id also fills the AOEF store", file=AD, old="        if obj_id not in self._soundevent_store:\n            self._soundevent_store[obj_id] = obj\n\n        return obj_id", new="        if obj_id not in self._soundevent_store:\n            self._soundevent_store[obj_id] = obj\n            self._aoef_store[obj_id] = obj\n\n        return obj_id"),
    dict(prop="C02", name="base class: to_aoef stores under the object's key, not its id", file=AD, old="            self._aoef_store[obj_id] = aoef_obj", new="            self._aoef_store[self._get_soundevent_key(obj)] = aoef_obj"),
    dict(prop="C02", name="base class: from_id reads the AOEF store", file=AD, old="        return self._soundevent_store.get(obj_id)", new="        return self._aoef_store.get(obj_id)"),
    dict(prop="C02", name="base class: values lists the data objects", file=AD, old="        return list(self._aoef_store.values())", new="        return list(self._soundevent_store.values())"),
    dict(prop="C02", name="base class: to_soundevent always re-assembles", file=AD, old="        if obj_id not in self._soundevent_store:\n            soundevent_obj = self.assemble_soundevent(obj)\n            self._soundevent_store[obj_id] = soundevent_obj", new="        if True:\n            soundevent_obj = self.assemble_soundevent(obj)\n            self._soundevent_store[obj_id] = soundevent_obj"),
    dict(prop="C02", name="base class: get_id forgets the mapping", file=AD, old="            self._mapping[key] = obj_id\n", new="            pass\n"),
]
MUTANTS += [
    dict(prop="C08", name="overall score: mean replaced by the first clip's score", file=SED, old="        score=_mean([c.score for c in evaluated_clips]),", new="        score=_mean([c.score for c in evaluated_clips[:1]]),"),
    dict(prop="C08", name="glue: every second evaluated clip dropped", file=SED, old="        evaluated_clips.append(evaluated_clip)\n\n    return evaluated_clips, true_classes, np.array(predicted_classes_scores)\n\n\ndef compute_overall_metrics", new="        if len(evaluated_clips) < 1:\n            evaluated_clips.append(evaluated_clip)\n\n    return evaluated_clips, true_classes, np.array(predicted_classes_scores)\n\n\ndef compute_overall_metrics"),
]
MUTANTS += [
    dict(prop="C02", name="tag ids: new id is len(mapping) + 1... of the AOEF store", file="io/aoef/tag.py", old="        return len(self._mapping)", new="        return len(self._aoef_store)"),
    dict(prop="C02", name="tag ids: constant new id", file="io/aoef/tag.py", old="        return len(self._mapping)", new="        return 0"),
]
MUTANTS += [
    dict(prop="C09", name="top-3 accuracy computed with k=2", file=MET, old="        k=3,", new="        k=2,"),
    dict(prop="C09", name="top-3 accuracy: labels without the none class", file=MET, old="        labels=list(range(num_classes + 1)),", new="        labels=list(range(num_classes)),"),
    dict(prop="C09", name="balanced accuracy: none column is the row sum", file=MET, old="""    y_score = np.c_[y_score, 1 - y_score.sum(axis=1, keepdims=True)]
    y_pred = y_score.argmax(axis=1)
    return metrics.balanced_accuracy_score(""", new="""    y_score = np.c_[y_score, y_score.sum(axis=1, keepdims=True)]
    y_pred = y_score.argmax(axis=1)
    return metrics.balanced_accuracy_score("""),
]
# ---- semantics-preserving refactors (expect="clean"): the checks must stay green -- guards against brittle contracts
MUTANTS += [
    dict(prop="C12", name="refactor: conditional expressions instead of max/min", file=GO, expect="clean",
         old="    start = max(start1, start2)\n    stop = min(stop1, stop2)", new="    start = start1 if start1 > start2 else start2\n    stop = stop1 if stop1 < stop2 else stop2"),
    dict(prop="C12", name="refactor: early return for the absolute threshold", file=GO, expect="clean",
         old="    overlap = 0\n    if min_absolute_overlap is not None:\n        overlap = min_absolute_overlap\n", new="    overlap = 0\n    if min_absolute_overlap is not None:\n        return stop - start >= min_absolute_overlap\n"),
    dict(prop="C19", name="refactor: encode with an explicit membership test", file="evaluation/encoding.py", expect="clean",
         old="        return self._mapping.get((tag.term, tag.value))", new="        key = (tag.term, tag.value)\n        if key in self._mapping:\n            return self._mapping[key]\n        return None"),
    dict(prop="C18", name="refactor: audio_dir read into a local", file="io/aoef/recording.py", expect="clean",
         old="        path = obj.path\n        if self.audio_dir is not None:\n            path = Path(obj.path).relative_to(self.audio_dir)", new="        audio_dir = self.audio_dir\n        path = obj.path\n        if audio_dir is not None:\n            path = Path(path).relative_to(audio_dir)"),
    dict(prop="C14", name="refactor: loop body computes the end after the start test", file="operations.py", expect="clean",
         old="        start_time = clip.start_time + i * hop\n        end_time = start_time + duration\n\n        if start_time >= clip.end_time:\n            break\n", new="        start_time = clip.start_time + i * hop\n        if start_time >= clip.end_time:\n            break\n        end_time = start_time + duration\n"),
    dict(prop="C14", name="refactor: hop default via conditional expression", file="operations.py", expect="clean",
         old="    if hop is None:\n        hop = duration\n", new="    hop = duration if hop is None else hop\n"),
    dict(prop="C08", name="refactor: pairs built with += instead of extend", file=SED, expect="clean",
         old="    pairs.extend(\n        (prediction, None, 0.0)\n        for prediction in clip_predictions.sound_events\n        if not prediction.sound_event.geometry\n    )", new="    pairs += [\n        (prediction, None, 0.0)\n        for prediction in clip_predictions.sound_events\n        if not prediction.sound_event.geometry\n    ]"),
    dict(prop="C09", name="refactor: none index computed once in accuracy", file=MET, expect="clean",
         old="""def accuracy(
    y_true: Sequence[Optional[int]],
    y_score: np.ndarray,
) -> float:
    num_classes = y_score.shape[1]
    y_true_array = np.array(
        [y if y is not None else num_classes for y in y_true]
    )""", new="""def accuracy(
    y_true: Sequence[Optional[int]],
    y_score: np.ndarray,
) -> float:
    none_index = y_score.shape[1]
    y_true_array = np.array(
        [none_index if y is None else y for y in y_true]
    )"""),
    dict(prop="C02", name="refactor: to_aoef stores then returns the local", file=AD, expect="clean",
         old="        if obj_id not in self._aoef_store:\n            aoef_obj = self.assemble_aoef(obj, obj_id)\n            self._aoef_store[obj_id] = aoef_obj\n", new="        if obj_id not in self._aoef_store:\n            self._aoef_store[obj_id] = self.assemble_aoef(obj, obj_id)\n"),
    dict(prop="C16", name="refactor: clamp branch written with elif", file="arrays/dimensions.py", expect="clean",
         old="        return arr.sizes[dim]", new="        size = arr.sizes[dim]\n        return size"),
]
MUTANTS += [
    dict(prop="C09", name="refactor: run metrics table as a list with a named term", file="evaluation/tasks/clip_classification.py", expect="clean",
         old="RUN_METRICS = (\n    (terms.balanced_accuracy, metrics.balanced_accuracy),\n    (terms.accuracy, metrics.accuracy),\n    (terms.top_3_accuracy, metrics.top_3_accuracy),\n)",
         new="_ACCURACY = terms.accuracy\nRUN_METRICS = [\n    (terms.balanced_accuracy, metrics.balanced_accuracy),\n    (_ACCURACY, metrics.accuracy),\n    (terms.top_3_accuracy, metrics.top_3_accuracy),\n]"),
    dict(prop="C01", name="refactor: sequence parent read into a local", file="io/aoef/sequence.py", expect="clean",
         old="        if obj.parent:\n            parent = self.to_aoef(obj.parent).uuid", new="        parent_sequence = obj.parent\n        if parent_sequence:\n            parent = self.to_aoef(parent_sequence).uuid"),
]
MUTANTS += [
    dict(prop="C15", name="load_audio seeks to frames - 1 when the offset is past the end", file="audio/io.py", old="        fp.seek(min(offset, fp.frames))", new="        fp.seek(min(offset, fp.frames - 1))"),
    dict(prop="C15", name="load_audio seeks past the end of the file (original defect)", file="audio/io.py", old="        fp.seek(min(offset, fp.frames))", new="        fp.seek(offset)"),
    dict(prop="C15", name="load_audio reads without zero fill", file="audio/io.py", old="        data = fp.read(frames=samples, always_2d=True, fill_value=0)", new="        data = fp.read(frames=samples, always_2d=True)"),
]
