"""Print a python file with docstrings stripped (reading aid only)."""
import ast, sys
for path in sys.argv[1:]:
    tree = ast.parse(open(path).read())
    for n in ast.walk(tree):
        if isinstance(n, (ast.FunctionDef, ast.ClassDef, ast.Module)):
            if n.body and isinstance(n.body[0], ast.Expr) and isinstance(n.body[0].value, ast.Constant) and isinstance(n.body[0].value.value, str):
                n.body = n.body[1:] or [ast.Pass()]
    print("#####", path)
    print(ast.unparse(tree))
