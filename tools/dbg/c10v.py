import sys, time
sys.path.insert(0,'/verif')
import props.C10 as P
from pyvc.smt import discharge
import pyvc.symex as S
mode = sys.argv[1]
if mode == 'nomemo':
    orig = S.Exec.feasible
    def feas(self, cond):
        self.trace.pop("_feas", None)
        return orig(self, cond)
    S.Exec.feasible = feas
v = P.setup()
t=time.time(); obls,_,_ = v.verify("LabelToTags","C10",fixed={"tag_fn": v.tag_fn}, tag="[tag_fn]"); print(len(obls), round(time.time()-t,1))
sel=[o for o in obls if o.kind=='post']
rs=discharge([o.smt2() for o in sel], timeout_ms=10000)
print([ (o.id[-30:], r['result']) for o,r in zip(sel,rs) if r['result']!='unsat'])
