import sys, traceback
sys.path.insert(0,'/verif')
import props.C11 as P
v2 = P.setup()
v2.use("BufferTimestamp", "BufferInterval", "BufferBoundingBox", "BufferShapelyGeometry", "GeometryToShapely")
try:
    v2.verify("BufferGeometry", "C11", types={"geometry": "Obj:" + P.G + "Point"})
except Exception:
    traceback.print_exc()
