import sys, time
sys.path.insert(0,'/verif')
import props.C10 as P
from pyvc.values import NONE
v = P.setup()
t=time.time(); o,_,_ = v.verify("LabelToTags","C10",fixed={"tag_fn": NONE}); print('label_to_tags', len(o), round(time.time()-t,1))
v2 = P.setup(); v2.use("ComputeBounds", "NewTimeInterval", "NewBoundingBox"); v2.inline |= {"soundevent.io.crowsetta.labels.label_to_tags"}
t=time.time(); o,_,_ = v2.verify("SegmentToAnnotation","C10",fixed={"segment": P.segment_value(), "notes": NONE, "created_by": NONE}); print('segment', len(o), round(time.time()-t,1))
