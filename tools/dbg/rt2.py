import sys, time
sys.path.insert(0,'/verif')
import pyvc.loops as L
orig = L._filtered_list
def patched(ex, elt, g, seq, p):
    r = orig(ex, elt, g, seq, p)
    import ast
    print('FILTER', ast.unparse(elt)[:40], 'tag=', r.tag if not r.concrete else None)
    return r
L._filtered_list = patched
from props.C01 import setup
from props.aoef_rt import roundtrip_obligations, ADAPTER_OF
v = setup()
acls = [a for a in ADAPTER_OF.values() if a.endswith(sys.argv[1])][0]
obls, unm = roundtrip_obligations(v, acls)
