import sys, time
sys.path.insert(0,'/verif')
from props.common import new_verifier, with_models
import props.C05 as P
v = P.setup(with_models(new_verifier()))
t = sys.argv[1]; what = sys.argv[2]
ty = {"geometry": "Obj:" + P.G + t, "geom": "Obj:" + P.G + t}
t0=time.time()
from pyvc.values import Str
if what=='conv': obls,ex,vals = v.verify("GeometryToShapely","C05",types=ty)
elif what=='bounds': obls,ex,vals = v.verify("ComputeBounds","C05",types=ty)
elif what=='feat':
    v.use("ComputeBounds"); obls,ex,vals = v.verify("ComputeGeometricFeatures","C05",types=ty)
else:
    v.use("ComputeBounds"); obls,ex,vals = v.verify("GetGeometryPoint","C05",types=ty, fixed={"position": Str(what)})
print('symex', round(time.time()-t0,2), len(obls))
from pyvc.smt import discharge
rs = discharge([o.smt2() for o in obls], timeout_ms=10000)
for o,r in zip(obls,rs): print(o.id, o.expect, r['result'], r['backend'], r['time_s'])
