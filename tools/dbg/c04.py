import sys, time
sys.path.insert(0,'/verif')
from props.common import new_verifier, with_models
from pyvc.smt import discharge, bounded_expand, to_smt2
from pyvc.values import theory_axioms
import z3
v = with_models(new_verifier()); v.load_contracts("contracts.schema")
obls, ex, vals = v.verify("NewClipEvaluation", "C04")
o=[o for o in obls if o.id.endswith('exc-conv-ValidationError')][0]
for B in (1,2,3):
    e = bounded_expand(o.assertions, B); e = e+theory_axioms(e)
    nq = sum(1 for a in e for _ in [0] if 'forall' in a.sexpr() or 'exists' in a.sexpr())
    open(f'/tmp/q04_{B}.smt2','w').write(to_smt2(e))
    t=time.time(); r = discharge([to_smt2(e)], timeout_ms=30000, cvc5=False); print(B, nq, r[0]['result'], round(time.time()-t,1))
