import sys, time
sys.path.insert(0,'/verif')
from props.C01 import setup
from props.aoef_rt import roundtrip_obligations, ADAPTER_OF
from pyvc.smt import discharge
v = setup()
acls = [a for a in ADAPTER_OF.values() if a.endswith(sys.argv[1])][0]
t=time.time(); obls, unm = roundtrip_obligations(v, acls); print('gen', round(time.time()-t,1), len(obls), 'unmodelled', unm)
rs = discharge([o.smt2() for o in obls], timeout_ms=20000)
for o,r in zip(obls,rs):
    if not (o.expect=='unsat' and r['result']=='unsat') and not (o.expect=='sat' and r['result']=='sat'): print(o.id, o.expect, r['result'], r['backend'], r['time_s'])
print('ok', sum(1 for o,r in zip(obls,rs) if o.expect=='unsat' and r['result']=='unsat'), '/', sum(1 for o in obls if o.expect=='unsat'))
