import sys, time
sys.path.insert(0,'/verif')
from props.C01 import setup
from props.aoef_flow import collection_obligations
from props.aoef_common import COLLECTIONS
v = setup()
for tname, dcls, acls in COLLECTIONS:
    if len(sys.argv) > 1 and tname not in sys.argv[1:]: continue
    t=time.time()
    try:
        obls = collection_obligations(v, tname, dcls, acls)
    except Exception as e:
        import traceback; traceback.print_exc(limit=-6); continue
    bad = [o for o in obls if not z3_false(o)] if False else None
    import z3
    fails = [o for o in obls if not z3.is_false(z3.simplify(o.assertions[-1])) ]
    print(tname, len(obls), 'obligations', round(time.time()-t,1), 's; failing/undecided-by-eval:', len(fails))
    for o in fails[:8]: print('   ', o.id, o.meta.get('detail'))
    for o in obls:
        if 'load-order' in o.id or 'TagAdapter' in o.id: print('   ', o.id, o.meta.get('detail'), o.assertions[-1])
