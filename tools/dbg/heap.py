import sys
sys.path.insert(0,'/verif')
from props.C18 import setup, new_exec
from pyvc.calls import instantiate
from pyvc.symex import Path
from props.aoef_common import COLLECTIONS
v = setup()
for tname, dcls, acls in COLLECTIONS:
    ex = new_exec(v, acls.rsplit('.',1)[0])
    res = instantiate(ex, acls, [], {}, Path([], {}, None, {}), None)
    q, ref = res[0]
    from pyvc.values import Ref
    print(tname, sorted({r.cls.rsplit('.',1)[1] for f in q.heap.values() for r in f.values() if isinstance(r, Ref)}))
