import sys
sys.path.insert(0,'/verif')
import pyvc.loops as L
orig = L.cache_lookup
def patched(cache, key, p):
    r = orig(cache, key, p)
    ent = cache.get(key)
    if ent is not None and r is None:
        cur = {c.get_id() for c in p.cond}
        missing = [c for c in ent[2] if c not in cur]
        print('MISS', [str(c)[:150] for c in p.cond][-3:], '||', [str(c)[:300] for c in ent[3] if c.get_id() in missing])
    return r
L.cache_lookup = patched
import pyvc.symex
_orig_f = L._filtered_list
def pf(ex, elt, g, seq, p):
    print('BUILD at path:', [(c.get_id(), str(c)[:80]) for c in p.cond])
    return _orig_f(ex, elt, g, seq, p)
L._filtered_list = pf
from props.common import new_verifier, with_models
v = with_models(new_verifier()); v.load_contracts("contracts.schema")
obls, ex, vals = v.verify("NewClipEvaluation", "C04")
