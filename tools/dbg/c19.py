import sys, time
sys.path.insert(0,'/verif')
import props.C19 as P
from pyvc.smt import bounded_expand, solve_model
from pyvc.values import theory_axioms
from pyvc.sym import concretise, length_constraints
v = P.setup()
obls, ex, vals = v.verify(sys.argv[1], "C19")
o=[o for o in obls if o.id.endswith('#1.1')][0]
size=[]
for val in o.inputs.values(): size += length_constraints(val, 2)
e = bounded_expand(o.assertions+size, 2); e = e+theory_axioms(e)
m, r = solve_model(e, 20000); print(r)
if m:
    for k,val in o.inputs.items(): print(k, concretise(m, val))
    res = o.result_val
    print('result n', m.eval(res.n), [m.eval(res.at(i).t if hasattr(res.at(i),'t') else res.at(i)) for i in range(2)])
