import sys, time
sys.path.insert(0,'/verif')
import props.C06 as P
from pyvc.smt import discharge
v3 = P.setup()
v3.use("ComputeBounds", "BufferGeometryBounds", "ComputeAffinity")
G, F = "Opq:Geometry", "float"
name=sys.argv[1]
types = dict(g1=G, g2=G, tb=F, fb=F) if name!='lemma_self_is_one' else dict(g=G,tb=F,fb=F)
t=time.time(); obls = v3.lemma(name, "contracts.affinity", name, types, "C06"); print('gen', round(time.time()-t,2), len(obls))
open('/tmp/q06.smt2','w').write(obls[0].smt2())
rs = discharge([o.smt2() for o in obls], timeout_ms=60000)
for o,r in zip(obls,rs): print(o.id, r['result'], r['backend'], r['time_s'], r['log'])
