import sys, time
sys.path.insert(0,'/verif')
import props.C08 as P
from pyvc.smt import discharge, to_smt2
from pyvc.values import theory_axioms
v = P.setup()
name = sys.argv[1]
kw = {}
t=time.time()
obls, ex, vals = P.obligations(v, name)
print('generated', len(obls), round(time.time()-t,1))
for o in obls:
    if len(sys.argv) > 2 and sys.argv[2] not in o.id: continue
    a = o.assertions + theory_axioms(o.assertions)
    t=time.time(); r = discharge([to_smt2(a)], timeout_ms=20000)
    print(o.id, o.kind, o.expect, r[0]['result'], r[0].get('solver'), round(time.time()-t,1))
