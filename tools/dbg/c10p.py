import sys, time, cProfile, pstats
sys.path.insert(0,'/verif')
import props.C10 as P
from pyvc.values import NONE
v = P.setup()
cProfile.run('v.verify("LabelToTags","C10",fixed={"tag_fn": NONE})', '/tmp/prof.out')
p = pstats.Stats('/tmp/prof.out'); p.sort_stats('cumulative').print_stats(18)
