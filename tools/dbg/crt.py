import sys, time
sys.path.insert(0,'/verif')
from props.C01 import setup
from props.aoef_rt import collection_roundtrip
from props.aoef_common import COLLECTIONS
from pyvc.smt import discharge
v = setup()
for tname, dcls, acls in COLLECTIONS:
    if len(sys.argv) > 1 and tname not in sys.argv[1:]: continue
    t=time.time()
    try:
        obls = collection_roundtrip(v, tname, dcls, acls)
    except Exception as e:
        import traceback; traceback.print_exc(limit=-5); continue
    rs = discharge([o.smt2() for o in obls], timeout_ms=15000)
    bad=[(o.id,r['result']) for o,r in zip(obls,rs) if r['result']!='unsat']
    print(tname, len(obls), round(time.time()-t,1), 's bad:', bad[:6])
