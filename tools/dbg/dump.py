import sys, time
sys.path.insert(0,'/verif')
from props.common import new_verifier, with_models
import props.C05 as P
v = P.setup(with_models(new_verifier()))
t = sys.argv[1]
ty = {"geometry": "Obj:" + P.G + t, "geom": "Obj:" + P.G + t}
obls,ex,vals = v.verify("ComputeBounds","C05",types=ty)
o=[o for o in obls if '/post' in o.id][0]
open('/tmp/q.smt2','w').write(o.smt2())
print(len(o.assertions))
for a in o.assertions[-3:]: print(a.sexpr()[:3000]); print("----")
