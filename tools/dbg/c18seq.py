import sys
sys.path.insert(0,'/verif')
from pyvc.session import Session
import props.C18 as P
s = Session("C18")
orig = s.attempt_all
s.attempt_all = lambda tasks, procs=None: orig(tasks, procs=1)
P.run(s)
print(len(s.obligations), s.undecided[:3], s.errors[:2])
