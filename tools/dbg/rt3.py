import sys, time
sys.path.insert(0,'/verif')
from props.C01 import setup
from props.aoef_rt import roundtrip_obligations, ADAPTER_OF
from pyvc.smt import bounded_expand, solve_model
from pyvc.values import theory_axioms
import z3
v = setup()
acls = [a for a in ADAPTER_OF.values() if a.endswith(sys.argv[1])][0]
obls, unm = roundtrip_obligations(v, acls)
o = [o for o in obls if sys.argv[2] in o.id][0]
for B in (1,2):
    e = bounded_expand(o.assertions, B); e = e + theory_axioms(e)
    qs = [a for a in e if 'forall' in a.sexpr() or 'exists' in a.sexpr()]
    t=time.time(); m, r = solve_model(e, 15000); print(B, r, round(time.time()-t,1), 'remaining quantified assertions:', len(qs))
    for a in qs[:6]: print('   ', a.sexpr()[:300].replace('\n',' '))
