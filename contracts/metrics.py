"""C09 — evaluation metrics are what their terms say (soundevent.evaluation.metrics and the four task modules)."""
from contracts._rt import forall, exists, implies, distinct
from contracts.detection import array_sum, mean_or_zero, pair_score
from contracts.encoding import classify_with, prediction_with, no_duplicates
from soundevent.evaluation import metrics
from soundevent.evaluation.encoding import create_tag_encoder
from soundevent.evaluation.tasks import clip_classification as cc
from soundevent.evaluation.tasks import sound_event_classification as sec
from soundevent.terms import metrics as terms
import numpy as np
from sklearn import metrics as sk


class TrueClassProbability:
    target = "soundevent.evaluation.metrics:true_class_probability"
    types = {"y_true": "Optional[int]", "y_score": "NDArray"}
    result = "float"

    def requires(y_true, y_score):
        return y_true is None or (0 <= y_true and y_true < len(y_score))

    def ensures(y_true, y_score, result):
        # the probability of the true class; for an unlabelled item the mass left for the extra 'none' class
        if y_true is None:
            return result == 1 - array_sum(y_score)
        return result == y_score[y_true]


# ---- scores aggregate as means --------------------------------------------------------------------------------
class OverallScoreClipClassification:
    target = "soundevent.evaluation.tasks.clip_classification:_compute_overall_score"

    def ensures(evaluated_examples, result):
        return result == mean_or_zero([e.score for e in evaluated_examples])


class OverallScoreMultilabel:
    target = "soundevent.evaluation.tasks.clip_multilabel_classification:_compute_overall_score"

    def ensures(evaluated_examples, result):
        return result == mean_or_zero([e.score for e in evaluated_examples])


class OverallScoreSoundEventClassification:
    target = "soundevent.evaluation.tasks.sound_event_classification:_compute_overall_score"

    def ensures(evaluated_clip, result):
        return result == mean_or_zero([e.score for e in evaluated_clip])


# ---- per-item wiring: the value stored under a term is the metric of that name on the encoded truth and scores --------
def example_with(vocab, clip_annotations, clip_predictions):
    return cc._evaluate_example(clip_annotations, clip_predictions, create_tag_encoder(vocab), cc.EXAMPLE_METRICS,
                                metrics.classification_score)


def scores_ok(vocab, tags):
    y = prediction_with(vocab, tags)
    return forall(len(y), lambda i: 0 <= y[i] and y[i] <= 1) and 0 <= array_sum(y) and array_sum(y) <= 1


def true_class_probability_of(vocab, true_tags, predicted_tags):
    c = classify_with(vocab, true_tags)
    y = prediction_with(vocab, predicted_tags)
    if c is None:
        return 1 - array_sum(y)
    return y[c]


class EvaluateExample:
    target = "contracts.metrics:example_with"
    types = {"vocab": "List[Obj:soundevent.data.tags.Tag]",
             "clip_annotations": "Obj:soundevent.data.clip_annotations.ClipAnnotation",
             "clip_predictions": "Obj:soundevent.data.clip_predictions.ClipPrediction"}

    def requires(vocab, clip_annotations, clip_predictions):
        return (no_duplicates(vocab) and clip_annotations.clip.uuid == clip_predictions.clip.uuid
                and len(clip_annotations.sound_events) == 0 and len(clip_predictions.sound_events) == 0
                and scores_ok(vocab, clip_predictions.tags))

    def ensures(vocab, clip_annotations, clip_predictions, result):
        ev = result[2]
        p = true_class_probability_of(vocab, clip_annotations.tags, clip_predictions.tags)
        return (len(ev.metrics) == 1 and ev.metrics[0].term == terms.true_class_probability and ev.metrics[0].value == p
                and ev.score == p and result[0] == classify_with(vocab, clip_annotations.tags)
                and ev.annotations == clip_annotations and ev.predictions == clip_predictions)


def sound_event_with(vocab, sound_event_prediction, sound_event_annotation):
    return sec._evaluate_sound_event(sound_event_prediction, sound_event_annotation, create_tag_encoder(vocab))


class EvaluateClassifiedSoundEvent:
    target = "contracts.metrics:sound_event_with"
    types = {"vocab": "List[Obj:soundevent.data.tags.Tag]"}

    def requires(vocab, sound_event_prediction):
        return no_duplicates(vocab) and scores_ok(vocab, sound_event_prediction.tags)

    def ensures(vocab, sound_event_prediction, sound_event_annotation, result):
        m = result[2]
        p = true_class_probability_of(vocab, sound_event_annotation.tags, sound_event_prediction.tags)
        return (m.source == sound_event_prediction and m.target == sound_event_annotation
                and len(m.metrics) == 1 and m.metrics[0].term == terms.true_class_probability and m.metrics[0].value == p
                and m.score == p)


# ---- the accuracy family: unlabelled items form an extra 'none' class ------------------------------------------------
def with_none_class(y_score):
    """the score matrix with one more column: the probability mass the prediction leaves for 'no class'"""
    return np.c_[y_score, 1 - y_score.sum(axis=1, keepdims=True)]


def truth_with_none(y_true, num_classes):
    """unlabelled items get the index of the extra class"""
    return np.array([num_classes if y is None else y for y in y_true])


def predicted_with_none(y_score):
    return with_none_class(y_score).argmax(axis=1)


class Accuracy:
    target = "soundevent.evaluation.metrics:accuracy"
    types = {"y_true": "List[Optional[int]]", "y_score": "SMatrix"}

    def requires(y_true, y_score):
        return len(y_true) == y_score.shape[0]

    def ensures(y_true, y_score, result):
        return result == sk.accuracy_score(y_true=truth_with_none(y_true, y_score.shape[1]), y_pred=predicted_with_none(y_score))


class BalancedAccuracy:
    target = "soundevent.evaluation.metrics:balanced_accuracy"
    types = {"y_true": "List[Optional[int]]", "y_score": "SMatrix"}

    def requires(y_true, y_score):
        return len(y_true) == y_score.shape[0]

    def ensures(y_true, y_score, result):
        return result == sk.balanced_accuracy_score(y_true=truth_with_none(y_true, y_score.shape[1]), y_pred=predicted_with_none(y_score))


class Top3Accuracy:
    target = "soundevent.evaluation.metrics:top_3_accuracy"
    types = {"y_true": "List[Optional[int]]", "y_score": "SMatrix"}

    def requires(y_true, y_score):
        return len(y_true) == y_score.shape[0]

    def ensures(y_true, y_score, result):
        m = y_score.shape[1]
        return result == sk.top_k_accuracy_score(y_true=truth_with_none(y_true, m), y_score=with_none_class(y_score), k=3,
                                                 normalize=True, labels=list(range(m + 1)))
