"""The DataAdapter base class (soundevent.io.aoef.adapters): the contract that C01 / C02 / C09 assume at every sub-adapter call,
here stated on the object's three stores and verified against the real method bodies (generic case: objects and AOEF objects
keyed by their uuid, as in every adapter except TagAdapter).

Entry state (ghost): mapping0 (object key -> id), sstore0 (id -> data object), astore0 (id -> AOEF object); `k` is an arbitrary
probe key, so every clause mentioning k holds for all keys: the postconditions describe the WHOLE stores, not just the touched
entry."""
from contracts._rt import implies


def id_of(mapping0, obj):
    """the id the adapter uses for obj: the one already mapped, else the object's own uuid"""
    if obj.uuid in mapping0:
        return mapping0[obj.uuid]
    return obj.uuid


def get_or_none(d, k):
    return d.get(k)


def updated(d1, d0, key, val, k):
    """d1 is d0 with key -> val, seen at probe k"""
    if k == key:
        return d1.get(k) == val
    return d1.get(k) == d0.get(k)


def added_if_absent(d1, d0, key, val, k):
    """d1 is d0, plus key -> val when key was absent, seen at probe k"""
    if k == key and key not in d0:
        return d1.get(k) == val
    return d1.get(k) == d0.get(k)


def unchanged(d1, d0, k):
    return d1.get(k) == d0.get(k)


class GetId:
    target = "soundevent.io.aoef.adapters:DataAdapter.get_id"

    def ensures(self, obj, mapping0, sstore0, astore0, k, result):
        # NOT registered for output: the AOEF store (what values() emits) is untouched
        return (result == id_of(mapping0, obj)
                and updated(self._mapping, mapping0, obj.uuid, result, k)
                and added_if_absent(self._soundevent_store, sstore0, result, obj, k)
                and unchanged(self._aoef_store, astore0, k))


class ToAoef:
    target = "soundevent.io.aoef.adapters:DataAdapter.to_aoef"

    def ensures(self, obj, mapping0, sstore0, astore0, k, result):
        oid = id_of(mapping0, obj)
        # registers obj for output exactly once: afterwards its id is in the AOEF store, mapped to what is returned
        return (oid in self._aoef_store and self._aoef_store[oid] == result
                and (result == astore0[oid] if oid in astore0 else result == self.assemble_aoef(obj, oid))
                and added_if_absent(self._aoef_store, astore0, oid, result, k)
                and added_if_absent(self._soundevent_store, sstore0, oid, obj, k)
                and updated(self._mapping, mapping0, obj.uuid, oid, k))


class ToSoundEvent:
    target = "soundevent.io.aoef.adapters:DataAdapter.to_soundevent"

    def ensures(self, obj, mapping0, sstore0, astore0, k, result):
        oid = obj.uuid
        return (oid in self._soundevent_store and self._soundevent_store[oid] == result
                and (result == sstore0[oid] if oid in sstore0 else result == self.assemble_soundevent(obj))
                and added_if_absent(self._soundevent_store, sstore0, oid, result, k)
                and added_if_absent(self._aoef_store, astore0, oid, obj, k)
                and unchanged(self._mapping, mapping0, k))


class FromId:
    target = "soundevent.io.aoef.adapters:DataAdapter.from_id"

    def ensures(self, obj_id, mapping0, sstore0, astore0, k, result):
        # finds exactly what was registered (None otherwise); pure
        return (result == sstore0.get(obj_id) and unchanged(self._soundevent_store, sstore0, k)
                and unchanged(self._aoef_store, astore0, k) and unchanged(self._mapping, mapping0, k))


class Values:
    target = "soundevent.io.aoef.adapters:DataAdapter.values"

    def ensures(self, mapping0, sstore0, astore0, k, result):
        # the document list of this adapter: the AOEF store's objects in insertion order (None when nothing was registered)
        if len(list(astore0.values())) == 0:
            return result is None
        return result is not None and list(result) == list(astore0.values())


# ---- TagAdapter: integer ids handed out in order of first use --------------------------------------------------------
def tag_key(tag):
    return (tag.term.label, tag.value)


def ids_in_order(mapping):
    """representation invariant of TagAdapter._mapping: the i-th key ever registered has id i (so ids are pairwise distinct
    and form 0..n-1)"""
    ids = list(mapping.values())
    return forall(len(ids), lambda i: ids[i] == i)


class TagGetId:
    target = "soundevent.io.aoef.adapters:DataAdapter.get_id"

    def requires(self, obj, mapping0):
        return ids_in_order(mapping0)

    def ensures(self, obj, mapping0, sstore0, astore0, k, result):
        key = tag_key(obj)
        n0 = len(list(mapping0.values()))
        # the id already mapped to this (label, value), else the next integer; ids stay in order; no OTHER key has this id
        return ((result == mapping0[key] if key in mapping0 else result == n0)
                and 0 <= result and self._mapping.get(key) == result
                and ids_in_order(self._mapping)
                and implies(k != key, self._mapping.get(k) == mapping0.get(k) and self._mapping.get(k) != result)
                and unchanged(self._aoef_store, astore0, k))
