"""C14 — segment_clip tiles the clip on the hop lattice (soundevent.operations)."""
import math
import uuid

from contracts._rt import forall, exists, implies
from soundevent.constants import uuid_namespace
from soundevent.operations import segment_clip


def hop_of(duration, hop):
    return duration if hop is None else hop


def admissible(k, S, E, d, h, include_incomplete):
    """window k starts inside the clip and (fits completely, or incomplete windows are wanted)"""
    return S + k * h < E and (S + k * h + d <= E or include_incomplete)


def segment_id(parent_uuid, start, end):
    """the deterministic identifier of a segment: a function of parent id and bounds only"""
    return uuid.uuid5(uuid_namespace, f"segment_clip:{parent_uuid}:{start}:{end}")


class SegmentClip:
    target = "soundevent.operations:segment_clip"
    types = {"clip": "Obj:soundevent.data.clips.Clip", "duration": "float", "hop": "Optional[float]",
             "include_incomplete": "bool"}
    result = "List[Obj:soundevent.data.clips.Clip]"

    def build_inputs(raw):
        """native: real arguments from a solver model (only start/end of the clip matter)"""
        from soundevent import data
        rec = data.Recording(path="replay.wav", duration=max(1.0, float(raw["clip"]["end_time"])), channels=1, samplerate=8000)
        clip = data.Clip(recording=rec, start_time=raw["clip"]["start_time"], end_time=raw["clip"]["end_time"])
        return dict(clip=clip, duration=raw["duration"], hop=raw["hop"], include_incomplete=raw["include_incomplete"])

    def requires(clip):
        return clip.start_time <= clip.end_time

    def raises_ValueError(duration, hop):
        return duration <= 0 or hop_of(duration, hop) <= 0

    def ensures(clip, duration, hop, include_incomplete, result):
        h = hop_of(duration, hop)
        S = clip.start_time
        E = clip.end_time
        n = len(result)
        sound = forall(n, lambda k: (
            result[k].start_time == S + k * h
            and result[k].end_time == min(S + k * h + duration, E)
            and result[k].recording == clip.recording
            and admissible(k, S, E, duration, h, include_incomplete)
            and S <= result[k].start_time and result[k].end_time <= E
            and result[k].uuid == segment_id(clip.uuid, result[k].start_time, result[k].end_time)
        ))
        # completeness: admissibility is downward closed in k (h > 0), so the admissible windows are
        # exactly 0..K-1 for the first inadmissible K; all of them are produced iff window n is inadmissible
        complete = not admissible(n, S, E, duration, h, include_incomplete)
        return sound and complete


# ---- lemmas over the contract -----------------------------------------------------------------
def lemma_full_length_unless_truncated(clip, duration, hop, include_incomplete, k):
    if clip.start_time > clip.end_time or duration <= 0 or hop_of(duration, hop) <= 0:
        return True
    segs = segment_clip(clip, duration, hop, include_incomplete)
    if not (0 <= k and k < len(segs)):
        return True
    full = segs[k].end_time - segs[k].start_time == duration
    truncated = include_incomplete and segs[k].end_time == clip.end_time
    return full or truncated


def lemma_cover_when_hop_le_duration(clip, duration, hop, t):
    """hop <= duration and include_incomplete: every instant of the clip lies in some segment"""
    h = hop_of(duration, hop)
    if clip.start_time > clip.end_time or duration <= 0 or h <= 0 or h > duration:
        return True
    if not (clip.start_time <= t and t < clip.end_time):
        return True
    segs = segment_clip(clip, duration, hop, True)
    k = math.floor((t - clip.start_time) / h)  # the witness: the last window starting at or before t
    return 0 <= k and k < len(segs) and segs[k].start_time <= t and t <= segs[k].end_time


def lemma_ids_distinct(clip, duration, hop, include_incomplete, i, j):
    if clip.start_time > clip.end_time or duration <= 0 or hop_of(duration, hop) <= 0:
        return True
    segs = segment_clip(clip, duration, hop, include_incomplete)
    if not (0 <= i and i < j and j < len(segs)):
        return True
    return segs[i].uuid != segs[j].uuid


def canary_never_yields(clip, duration):
    if clip.start_time > clip.end_time or duration <= 0:
        return True
    return len(segment_clip(clip, duration, None, True)) == 0
