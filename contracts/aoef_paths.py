"""C18 — audio paths are stored relative to the audio directory and relocate on load (RecordingAdapter)."""
from pathlib import Path

from contracts._rt import forall, exists, implies


def is_under(path, audio_dir):
    try:
        Path(path).relative_to(audio_dir)
        return True
    except ValueError:
        return False


def stored_path(path, audio_dir):
    """the path written to the document"""
    return path if audio_dir is None else Path(path).relative_to(audio_dir)


def loaded_path(stored, audio_dir):
    return stored if audio_dir is None else audio_dir / stored


class RecordingAssembleAoef:
    target = "soundevent.io.aoef.recording:RecordingAdapter.assemble_aoef"
    types = {"obj": "Obj:soundevent.data.recordings.Recording", "obj_id": "Opq:UUID"}

    def raises_ValueError(self, obj):
        return self.audio_dir is not None and not is_under(obj.path, self.audio_dir)

    def ensures(self, obj, result):
        return result.path == stored_path(obj.path, self.audio_dir)


class RecordingAssembleSoundevent:
    target = "soundevent.io.aoef.recording:RecordingAdapter.assemble_soundevent"
    types = {"obj": "Obj:soundevent.io.aoef.recording.RecordingObject"}

    def ensures(self, obj, result):
        return result.path == loaded_path(obj.path, self.audio_dir)


def lemma_relocate(A, B, x):
    """saving A / x under A and loading under B gives B / x"""
    return loaded_path(stored_path(A / x, A), B) == B / x
