"""C12 — overlap predicates (soundevent.geometry.operations).

Top-level postconditions are taken from the property statement:
  intervals_overlap(i1, i2, abs, rel)  <=>  |i1 ∩ i2| >= threshold,
  threshold = 0 | abs | rel * min(width1, width2);
  ValueError  <=>  both thresholds given, or rel outside [0, 1].
The precondition start <= stop is derived from the call sites (they pass bounds).
"""
from contracts._rt import forall, exists, implies
from soundevent.geometry.operations import (  # resolved to contracts by the engine, to the real code natively
    intervals_overlap, have_temporal_overlap, have_frequency_overlap, is_in_clip, compute_bounds,
)


# ---- spec functions -------------------------------------------------------------------------
def wellformed(interval):
    return interval[0] <= interval[1]


def width(interval):
    return interval[1] - interval[0]


def intersection_length(i1, i2):
    return min(i1[1], i2[1]) - max(i1[0], i2[0])


def threshold(i1, i2, min_absolute_overlap, min_relative_overlap):
    if min_relative_overlap is not None:
        return min_relative_overlap * min(width(i1), width(i2))
    if min_absolute_overlap is not None:
        return min_absolute_overlap
    return 0


def bad_thresholds(min_absolute_overlap, min_relative_overlap):
    if min_absolute_overlap is not None and min_relative_overlap is not None:
        return True
    if min_relative_overlap is not None:
        return min_relative_overlap < 0 or min_relative_overlap > 1
    return False


# ---- contracts ------------------------------------------------------------------------------
class IntervalsOverlap:
    target = "soundevent.geometry.operations:intervals_overlap"
    types = {
        "interval1": "Tuple[float, float]",
        "interval2": "Tuple[float, float]",
        "min_absolute_overlap": "Optional[float]",
        "min_relative_overlap": "Optional[float]",
    }
    result = "bool"

    def requires(interval1, interval2):
        return wellformed(interval1) and wellformed(interval2)

    def raises_ValueError(min_absolute_overlap, min_relative_overlap):
        return bad_thresholds(min_absolute_overlap, min_relative_overlap)

    def ensures(interval1, interval2, min_absolute_overlap, min_relative_overlap, result):
        thr = threshold(interval1, interval2, min_absolute_overlap, min_relative_overlap)
        return result == (intersection_length(interval1, interval2) >= thr)


# ---- lemmas over the contract (multi-call statements of the property) -----------------------
def lemma_symmetric(a, b, abs_, rel):
    if not (wellformed(a) and wellformed(b)) or bad_thresholds(abs_, rel):
        return True
    return intervals_overlap(a, b, abs_, rel) == intervals_overlap(b, a, abs_, rel)


def lemma_antitone_abs(a, b, t1, t2):
    # a larger absolute threshold never turns "no overlap" into "overlap"
    if not (wellformed(a) and wellformed(b)) or t1 > t2:
        return True
    return implies(intervals_overlap(a, b, t2, None), intervals_overlap(a, b, t1, None))


def lemma_antitone_rel(a, b, r1, r2):
    if not (wellformed(a) and wellformed(b)) or r1 > r2 or r1 < 0 or r2 > 1:
        return True
    return implies(intervals_overlap(a, b, None, r2), intervals_overlap(a, b, None, r1))


def lemma_touching_overlap_at_zero(s1, m, e2):
    # [s1, m] and [m, e2] touch: they overlap at the default threshold
    if not (s1 <= m and m <= e2):
        return True
    return intervals_overlap((s1, m), (m, e2), None, None)


def lemma_disjoint_never(a, b, abs_, rel):
    # strictly disjoint intervals never overlap, whatever the (non-negative) thresholds
    if not (wellformed(a) and wellformed(b)) or bad_thresholds(abs_, rel):
        return True
    if abs_ is not None and abs_ < 0:
        return True
    if not (a[1] < b[0] or b[1] < a[0]):
        return True
    return not intervals_overlap(a, b, abs_, rel)


def canary_always_false(a, b):
    # deliberately false: must be refuted (vacuity guard)
    if not (wellformed(a) and wellformed(b)):
        return True
    return not intervals_overlap(a, b, None, None)


# ---- geometry-level predicates -----------------------------------------------------------------
# `bounds_of` is the C05 spec function (contracts.geometry); for C12 the geometries stay opaque and
# only the facts C05 proves about compute_bounds are used: result == bounds_of(geometry), ordered.
from contracts.geometry import bounds_of, valid_geometry, ComputeBounds  # noqa: E402,F401


class HaveTemporalOverlap:
    target = "soundevent.geometry.operations:have_temporal_overlap"
    types = {"geom1": "Opq:Geometry", "geom2": "Opq:Geometry",
             "min_absolute_overlap": "Optional[float]", "min_relative_overlap": "Optional[float]"}
    result = "bool"

    def requires(geom1, geom2):
        return valid_geometry(geom1) and valid_geometry(geom2)

    def raises_ValueError(min_absolute_overlap, min_relative_overlap):
        return bad_thresholds(min_absolute_overlap, min_relative_overlap)

    def ensures(geom1, geom2, min_absolute_overlap, min_relative_overlap, result):
        b1 = bounds_of(geom1)
        b2 = bounds_of(geom2)
        i1 = (b1[0], b1[2])
        i2 = (b2[0], b2[2])
        thr = threshold(i1, i2, min_absolute_overlap, min_relative_overlap)
        return result == (intersection_length(i1, i2) >= thr)


class HaveFrequencyOverlap:
    target = "soundevent.geometry.operations:have_frequency_overlap"
    types = {"geom1": "Opq:Geometry", "geom2": "Opq:Geometry",
             "min_absolute_overlap": "Optional[float]", "min_relative_overlap": "Optional[float]"}
    result = "bool"

    def requires(geom1, geom2):
        return valid_geometry(geom1) and valid_geometry(geom2)

    def raises_ValueError(min_absolute_overlap, min_relative_overlap):
        return bad_thresholds(min_absolute_overlap, min_relative_overlap)

    def ensures(geom1, geom2, min_absolute_overlap, min_relative_overlap, result):
        b1 = bounds_of(geom1)
        b2 = bounds_of(geom2)
        i1 = (b1[1], b1[3])
        i2 = (b2[1], b2[3])
        thr = threshold(i1, i2, min_absolute_overlap, min_relative_overlap)
        return result == (intersection_length(i1, i2) >= thr)


class IsInClip:
    target = "soundevent.geometry.operations:is_in_clip"
    types = {"geometry": "Opq:Geometry", "clip": "Obj:soundevent.data.clips.Clip", "minimum_overlap": "float"}
    result = "bool"

    def requires(geometry, clip):
        return valid_geometry(geometry) and clip.start_time <= clip.end_time

    def raises_ValueError(minimum_overlap):
        return minimum_overlap < 0

    def ensures(geometry, clip, minimum_overlap, result):
        b = bounds_of(geometry)
        return result == (b[2] > clip.start_time + minimum_overlap and b[0] < clip.end_time - minimum_overlap)


def lemma_inside_is_in(geometry, clip):
    if not valid_geometry(geometry):
        return True
    # an event of non-zero duration lying wholly inside the clip is in (minimum_overlap = 0)
    b = bounds_of(geometry)
    if not (clip.start_time <= b[0] and b[0] < b[2] and b[2] <= clip.end_time):
        return True
    return is_in_clip(geometry, clip, 0)


def lemma_timestamp_strictly_inside_is_in(geometry, clip):
    if not valid_geometry(geometry):
        return True
    b = bounds_of(geometry)
    if not (b[0] == b[2] and clip.start_time < b[0] and b[0] < clip.end_time):
        return True
    return is_in_clip(geometry, clip, 0)


def lemma_touching_edge_is_out(geometry, clip, m):
    # an event that ends exactly at the clip start, or starts exactly at the clip end, is out
    b = bounds_of(geometry)
    if not valid_geometry(geometry):
        return True
    if m < 0 or not (clip.start_time <= clip.end_time) or not (b[0] <= b[2]):
        return True
    if not (b[2] == clip.start_time or b[0] == clip.end_time):
        return True
    return not is_in_clip(geometry, clip, m)
