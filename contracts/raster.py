"""C20 — rasterisation marks exactly the covered bins on the template's axes (soundevent.geometry.operations.rasterize)."""
from contracts._rt import forall, exists, implies
from soundevent.geometry.operations import rasterize


def is_sequence(values):
    return isinstance(values, (list, tuple))


class Rasterize:
    target = "soundevent.geometry.operations:rasterize"
    types = {"geometries": "List[Opq:Geometry]", "fill": "float", "all_touched": "bool"}

    def raises_ValueError(geometries, values):
        return is_sequence(values) and len(values) != len(geometries)

    def ensures(geometries, array, xdim, ydim, result):
        # an array over the template's own x and y coordinates, whatever the template's dimension order or contents
        return (tuple(result.dims) == (xdim, ydim)
                and result.sizes[xdim] == array.sizes[xdim] and result.sizes[ydim] == array.sizes[ydim]
                and same_axis(result, array, xdim) and same_axis(result, array, ydim))


def same_axis(a, b, dim):
    return list(a.coords[dim].values) == list(b.coords[dim].values)


def lemma_box_bins(i0, i1, c):
    """rasterio contract consequence: the centre c + 1/2 of column c lies inside an index-space box [i0, i1] with
    integer corners exactly for the bins from i0 (inclusive) to i1 (exclusive)"""
    return (i0 < c + 0.5 and c + 0.5 < i1) == (i0 <= c and c < i1)
