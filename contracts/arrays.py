"""C16 / C17 — range dimensions, coordinate lookup, cropping and extending (soundevent.arrays)."""
from contracts._rt import forall, exists, implies
from soundevent.arrays.dimensions import create_range_dim, create_time_range, create_frequency_range, get_coord_index, get_dim_step
from soundevent.arrays.operations import crop_dim, crop_dim_width, extend_dim_width, adjust_dim_width


def coords_of(var):
    """the coordinate values of an xarray Variable / DataArray dimension, as a list"""
    return [float(x) for x in var.data]


def attr_of(var, name):
    return var.attrs[name]


def is_whole(q):
    """q is a whole number (natively: up to the rounding of the quotient)"""
    return abs(q - round(q)) <= 1e-9 * max(1.0, abs(q))


def whole_part(q):
    return int(round(q))


def on_lattice(c, start, step, i):
    """c is the i-th lattice point start + i*step (natively: up to the accumulated rounding of numpy.arange)"""
    return abs(c - (start + i * step)) <= 1e-9 * abs(step) + (i + 2) * 2.3e-16 * max(abs(start), abs(start + i * step), 1.0)


class CreateRangeDim:
    target = "soundevent.arrays.dimensions:create_range_dim"
    types = {"name": "str", "start": "float", "stop": "float", "step": "Optional[float]", "size": "Optional[int]", "dtype": "None"}

    def requires(start, stop, step, size):
        # an empty range (stop == start) needs an explicit step: a step derived from the size would be 0
        return stop >= start and (step is None or step > 0) and (size is None or size > 0) and (step is not None or stop > start)

    def raises_ValueError(step, size):
        return step is None and size is None

    def ensures(start, stop, step, size, result):
        st = step if step is not None else (stop - start) / size
        c = coords_of(result)
        n = len(c)
        # coordinates are the lattice points start + i*step, all inside [start, stop)
        lattice = forall(n, lambda i: on_lattice(c[i], start, st, i) and start <= c[i] and c[i] < stop)
        # exactly (stop - start)/step of them when that is a whole number
        whole = implies(is_whole((stop - start) / st), n == whole_part((stop - start) / st))
        return lattice and whole and attr_of(result, "step") == st


class CreateTimeRange:
    target = "soundevent.arrays.dimensions:create_time_range"
    types = {"start_time": "float", "end_time": "float", "step": "Optional[float]", "samplerate": "Optional[float]", "name": "str", "dtype": "None"}
    result_builder = "xr_variable"

    def requires(start_time, end_time, step, samplerate):
        return end_time >= start_time and (step is None or step > 0) and (samplerate is None or samplerate > 0)

    def raises_ValueError(step, samplerate):
        return step is None and samplerate is None

    def ensures(start_time, end_time, step, samplerate, result):
        st = step if step is not None else 1.0 / samplerate
        c = coords_of(result)
        n = len(c)
        return (forall(n, lambda i: on_lattice(c[i], start_time, st, i) and c[i] < end_time) and attr_of(result, "step") == st
                and attr_of(result, "units") == "s"
                and implies(is_whole((end_time - start_time) / st), n == whole_part((end_time - start_time) / st)))


class GetCoordIndex:
    target = "soundevent.arrays.dimensions:get_coord_index"
    types = {"value": "float", "raise_error": "bool"}

    def raises_KeyError(arr, dim, value, raise_error):
        c = axis_of(arr, dim)
        return raise_error and (value < c[0] or value > c[len(c) - 1])

    def ensures(arr, dim, value, raise_error, result):
        c = axis_of(arr, dim)
        n = len(c)
        if value < c[0]:
            return result == 0
        if value > c[n - 1]:
            return result == n
        # the unique index with c[i] <= value < c[i+1] (the last index at the upper edge)
        return 0 <= result and result < n and c[result] <= value and (result == n - 1 or value < c[result + 1])


def valid_position(position):
    return position == "start" or position == "center" or position == "end"


def axis_of(arr, dim):
    return [float(x) for x in arr.coords[dim].data]


def data_of(arr):
    """the data along the (single) modelled dimension, one item per coordinate"""
    return list(arr.data)


class CropDimWidth:
    target = "soundevent.arrays.operations:crop_dim_width"
    types = {"width": "int"}

    def requires(array, dim, width):
        return width >= 1

    def raises_ValueError(array, dim, width, position):
        return width >= len(axis_of(array, dim)) or not valid_position(position)

    def ensures(array, dim, width, position, result):
        c = axis_of(array, dim)
        d = data_of(array)
        n = len(c)
        s = 0 if position == "start" else (n - width if position == "end" else max(0, n // 2 - width // 2))
        rc = axis_of(result, dim)
        rd = data_of(result)
        return len(rc) == width and forall(width, lambda k: rc[k] == c[s + k] and rd[k] == d[s + k])


class ExtendDimWidth:
    target = "soundevent.arrays.operations:extend_dim_width"
    types = {"width": "int", "fill_value": "float"}

    def raises_ValueError(array, dim, width, position):
        return len(axis_of(array, dim)) >= width or not valid_position(position)

    def ensures(array, dim, width, position, result):
        c = axis_of(array, dim)
        d = data_of(array)
        n = len(c)
        extra = width - n
        s = 0 if position == "start" else (extra if position == "end" else extra // 2)
        rc = axis_of(result, dim)
        rd = data_of(result)
        step = step_of(array, dim)
        return (len(rc) == width
                and forall(n, lambda k: rc[s + k] == c[k] and rd[s + k] == d[k])          # originals kept on their coordinates
                and forall(s, lambda k: on_lattice(rc[k], c[0], -step, s - k) and is_fill(rd[k]))
                and forall(s + n, width, lambda k: on_lattice(rc[k], c[n - 1], step, k - (s + n) + 1) and is_fill(rd[k])))


def step_of(array, dim):
    return get_dim_step(array, dim)


def is_fill(x):
    return x == -7.0   # the stand-ins use this fill value; symbolically: the distinguished fill datum


class AdjustDimWidth:
    target = "soundevent.arrays.operations:adjust_dim_width"
    types = {"width": "int", "fill_value": "float"}

    def raises_ValueError(array, dim, width, position):
        return width < 1 or (width != len(axis_of(array, dim)) and not valid_position(position))

    def ensures(array, dim, width, result):
        return len(axis_of(result, dim)) == width


def in_interval(c, start, stop, left_closed, right_closed):
    return (c >= start if left_closed else c > start) and (c <= stop if right_closed else c < stop)


def near_open_end(c, start, stop, left_closed, right_closed, eps):
    """a coordinate strictly inside the interval but within eps of an OPEN end (crop_dim's eps mechanism drops it)"""
    return ((not left_closed) and start < c and c < start + eps) or ((not right_closed) and stop - eps < c and c < stop)


class CropDim:
    target = "soundevent.arrays.operations:crop_dim"
    types = {"start": "Optional[float]", "stop": "Optional[float]", "right_closed": "bool", "left_closed": "bool", "eps": "float"}

    def requires(arr, dim, start, stop, left_closed, right_closed, eps):
        c = axis_of(arr, dim)
        lo = c[0] if start is None else start
        hi = c[len(c) - 1] if stop is None else stop
        lc = True if start is None else left_closed
        rc = True if stop is None else right_closed
        # domain: eps > 0 and no coordinate lies strictly within eps of an open end (see KNOWN_FINDINGS / DESIGN)
        return eps > 0 and forall(len(c), lambda i: not near_open_end(c[i], lo, hi, lc, rc, eps))

    def raises_ValueError(arr, dim, start, stop):
        c = axis_of(arr, dim)
        lo = c[0] if start is None else start
        hi = c[len(c) - 1] if stop is None else stop
        return lo > hi or lo < c[0] or hi > c[len(c) - 1]

    def ensures(arr, dim, start, stop, left_closed, right_closed, result):
        c = axis_of(arr, dim)
        d = data_of(arr)
        lo = c[0] if start is None else start
        hi = c[len(c) - 1] if stop is None else stop
        lc = True if start is None else left_closed
        rc = True if stop is None else right_closed
        rcs = axis_of(result, dim)
        rd = data_of(result)
        # exactly the samples whose coordinate lies in the requested interval, in order, data attached
        return (forall(len(rcs), lambda k: in_interval(rcs[k], lo, hi, lc, rc) and exists(len(c), lambda i: c[i] == rcs[k] and d[i] == rd[k]))
                and forall(len(c), lambda i: implies(in_interval(c[i], lo, hi, lc, rc), exists(len(rcs), lambda k: rcs[k] == c[i])))
                and forall(len(rcs), lambda k: forall(k, lambda m: rcs[m] < rcs[k])))
