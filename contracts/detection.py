"""C08 — detection evaluation accounts for every sound event and only credits overlaps
(soundevent.evaluation.tasks.sound_event_detection, tasks.common, metrics.classification_score)."""
from contracts._rt import forall, exists, implies, distinct
from contracts.encoding import classify_with, prediction_with, no_duplicates
from contracts.geometry import valid_geometry
from contracts.schema import clip_evaluation_ok
from soundevent.evaluation.affinity import compute_affinity
from soundevent.evaluation.encoding import create_tag_encoder
from soundevent.evaluation.tasks.sound_event_detection import evaluate_clip, evaluate_sound_event, sound_event_detection


def array_sum(y):
    """numpy: the sum of the entries of a 1-d array"""
    return float(y.sum())


class ClassificationScore:
    target = "soundevent.evaluation.metrics:classification_score"
    types = {"y_true": "Optional[int]", "y_score": "NDArray"}
    result = "float"

    def requires(y_true, y_score):
        return y_true is None or (0 <= y_true and y_true < len(y_score))

    def ensures(y_true, y_score, result):
        # the probability given to the true class; for 'no class' what is left of the probability mass
        if y_true is None:
            return result == 1 - array_sum(y_score)
        return result == y_score[y_true]


def mean_or_zero(xs):
    """mean of the values that are not None; 0 when there is none"""
    valid = [x for x in xs if x is not None]
    if len(valid) == 0:
        return 0.0
    return sum(valid) / len(valid)


class Mean:
    target = "soundevent.evaluation.tasks.sound_event_detection:_mean"
    types = {"scores": "List[Optional[float]]"}
    result = "float"

    def ensures(scores, result):
        return result == mean_or_zero(scores)


# ---- clips present in both inputs -------------------------------------------------------------------------
def annotated(clip_annotations, prediction):
    return exists(len(clip_annotations), lambda j: clip_annotations[j].clip.uuid == prediction.clip.uuid)


class IterateOverValidClips:
    target = "soundevent.evaluation.tasks.common:iterate_over_valid_clips"
    types = {"clip_predictions": "List[Obj:soundevent.data.clip_predictions.ClipPrediction]",
             "clip_annotations": "List[Obj:soundevent.data.clip_annotations.ClipAnnotation]"}

    def ensures(clip_predictions, clip_annotations, result):
        res = list(result)
        # exactly the predicted clips that are also annotated, in prediction order, each with an annotation of the same clip
        return ([t[1] for t in res] == [q for q in clip_predictions if annotated(clip_annotations, q)]
                and forall(len(res), lambda t: res[t][0].clip.uuid == res[t][1].clip.uuid
                           and exists(len(clip_annotations), lambda j: clip_annotations[j] == res[t][0])))


# ---- one matched pair -------------------------------------------------------------------------------------
def encoded_scores_ok(vocab, tags):
    """the encoded scores are probabilities of one label: entries in [0, 1], summing to at most 1"""
    y = prediction_with(vocab, tags)
    return forall(len(y), lambda i: 0 <= y[i] and y[i] <= 1) and 0 <= array_sum(y) and array_sum(y) <= 1


def pair_score(vocab, prediction, annotation):
    """the probability the prediction gives to the annotation's class (no class in the vocabulary: the remaining mass)"""
    c = classify_with(vocab, annotation.tags)
    y = prediction_with(vocab, prediction.tags)
    if c is None:
        return 1 - array_sum(y)
    return y[c]


def evaluate_sound_event_with(vocab, sound_event_prediction, sound_event_annotation, affinity):
    return evaluate_sound_event(sound_event_prediction, sound_event_annotation, create_tag_encoder(vocab), affinity)


class EvaluateSoundEvent:
    target = "contracts.detection:evaluate_sound_event_with"
    types = {"vocab": "List[Obj:soundevent.data.tags.Tag]",
             "sound_event_prediction": "Obj:soundevent.data.sound_event_predictions.SoundEventPrediction",
             "sound_event_annotation": "Obj:soundevent.data.sound_event_annotations.SoundEventAnnotation", "affinity": "float"}

    def requires(vocab, sound_event_prediction, affinity):
        return (no_duplicates(vocab) and 0 <= affinity and affinity <= 1
                and encoded_scores_ok(vocab, sound_event_prediction.tags))

    def ensures(vocab, sound_event_prediction, sound_event_annotation, affinity, result):
        match = result[2]
        return (match.source == sound_event_prediction and match.target == sound_event_annotation
                and match.affinity == affinity
                and match.score == pair_score(vocab, sound_event_prediction, sound_event_annotation)
                and result[0] == classify_with(vocab, sound_event_annotation.tags))


# ---- one clip ---------------------------------------------------------------------------------------------
def evaluate_clip_with(vocab, clip_annotations, clip_predictions):
    return evaluate_clip(clip_annotations, clip_predictions, create_tag_encoder(vocab))


def match_ok(vocab, m):
    if m.source is not None and m.target is not None:
        gp = m.source.sound_event.geometry
        ga = m.target.sound_event.geometry
        # paired only when the geometries overlap: reports their affinity and the true-class probability
        return (gp is not None and ga is not None and m.affinity > 0 and m.affinity == compute_affinity(gp, ga)
                and m.score == pair_score(vocab, m.source, m.target))
    return m.affinity == 0 and m.score == 0


def geometry_ok(g):
    return g is None or valid_geometry(g)


def geometries_valid(events):
    return forall(len(events), lambda i: geometry_ok(events[i].sound_event.geometry))


class EvaluateClip:
    target = "contracts.detection:evaluate_clip_with"

    def requires(vocab, clip_annotations, clip_predictions):
        return (no_duplicates(vocab) and clip_annotations.clip.uuid == clip_predictions.clip.uuid
                and distinct([a.uuid for a in clip_annotations.sound_events])
                and distinct([q.uuid for q in clip_predictions.sound_events])
                and geometries_valid(clip_annotations.sound_events) and geometries_valid(clip_predictions.sound_events)
                and forall(len(clip_predictions.sound_events), lambda i: encoded_scores_ok(vocab, clip_predictions.sound_events[i].tags)))

    def ensures(vocab, clip_annotations, clip_predictions, result):
        ev = result[2]
        ms = ev.matches
        return (ev.annotations == clip_annotations and ev.predictions == clip_predictions
                # every annotated and every predicted sound event, with or without geometry, in exactly one match
                and clip_evaluation_ok(clip_annotations, clip_predictions, ms, ev.score)
                and forall(len(ms), lambda t: match_ok(vocab, ms[t]))
                and ev.score == mean_or_zero([m.score for m in ms])
                and len(result[0]) == len(ms) and len(result[1]) == len(ms))


# ---- the whole task -----------------------------------------------------------------------------------------
def clip_ok(vocab, ce):
    """what EvaluateClip guarantees for one evaluated clip (restated on the ClipEvaluation alone)"""
    ms = ce.matches
    return (clip_evaluation_ok(ce.annotations, ce.predictions, ms, ce.score)
            and forall(len(ms), lambda t: match_ok(vocab, ms[t]))
            and ce.score == mean_or_zero([m.score for m in ms]))


def clip_inputs_ok(vocab, clip_annotations, clip_predictions):
    return (distinct([a.uuid for a in clip_annotations.sound_events])
            and distinct([q.uuid for q in clip_predictions.sound_events])
            and geometries_valid(clip_annotations.sound_events) and geometries_valid(clip_predictions.sound_events)
            and forall(len(clip_predictions.sound_events), lambda i: encoded_scores_ok(vocab, clip_predictions.sound_events[i].tags)))


class SoundEventDetection:
    target = "soundevent.evaluation.tasks.sound_event_detection:sound_event_detection"

    def requires(clip_predictions, clip_annotations, tags):
        return (no_duplicates(tags)
                and forall(len(clip_annotations), lambda j: clip_inputs_ok_a(clip_annotations[j]))
                and forall(len(clip_predictions), lambda i: clip_inputs_ok_p(tags, clip_predictions[i])))

    def ensures(clip_predictions, clip_annotations, tags, result):
        ces = result.clip_evaluations
        # exactly the predicted clips that are also annotated, in order, each with an annotation of the same clip
        return ([ce.predictions for ce in ces] == [q for q in clip_predictions if annotated(clip_annotations, q)]
                and forall(len(ces), lambda t: ces[t].annotations.clip.uuid == ces[t].predictions.clip.uuid
                           and exists(len(clip_annotations), lambda j: clip_annotations[j] == ces[t].annotations)
                           and clip_ok(tags, ces[t]))
                and result.score == mean_or_zero([ce.score for ce in ces]))


def clip_inputs_ok_a(a):
    return distinct([x.uuid for x in a.sound_events]) and geometries_valid(a.sound_events)


def clip_inputs_ok_p(vocab, q):
    return (distinct([x.uuid for x in q.sound_events]) and geometries_valid(q.sound_events)
            and forall(len(q.sound_events), lambda i: encoded_scores_ok(vocab, q.sound_events[i].tags)))
