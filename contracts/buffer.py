"""C11 — buffering grows a geometry and stays in the valid domain (soundevent.geometry.operations)."""
from contracts._rt import forall, exists, implies
from contracts.geometry import MAX_FREQUENCY, valid_geometry, bounds_of, is_bounds
from soundevent.geometry.operations import (buffer_geometry, buffer_timestamp, buffer_interval,
                                            buffer_bounding_box_geometry, buffer_shapely_geometry)


def widened_interval(start, end, tb):
    return [max(start - tb, 0), end + tb]


def widened_box(c, tb, fb):
    return [max(c[0] - tb, 0), max(c[1] - fb, 0), c[2] + tb, min(c[3] + fb, MAX_FREQUENCY)]


class BufferTimestamp:
    target = "soundevent.geometry.operations:buffer_timestamp"
    types = {"geometry": "Obj:soundevent.data.geometries.TimeStamp", "time_buffer": "float"}
    result = "Obj:soundevent.data.geometries.TimeInterval"

    def requires(geometry, time_buffer):
        return geometry.type == "TimeStamp" and valid_geometry(geometry) and time_buffer >= 0

    def ensures(geometry, time_buffer, result):
        t = geometry.coordinates
        return (result.type == "TimeInterval" and result.coordinates == widened_interval(t, t, time_buffer)
                and valid_geometry(result))


class BufferInterval:
    target = "soundevent.geometry.operations:buffer_interval"
    types = {"geometry": "Obj:soundevent.data.geometries.TimeInterval", "time_buffer": "float"}
    result = "Obj:soundevent.data.geometries.TimeInterval"

    def requires(geometry, time_buffer):
        return geometry.type == "TimeInterval" and valid_geometry(geometry) and time_buffer >= 0

    def ensures(geometry, time_buffer, result):
        c = geometry.coordinates
        return (result.type == "TimeInterval" and result.coordinates == widened_interval(c[0], c[1], time_buffer)
                and valid_geometry(result))


class BufferBoundingBox:
    target = "soundevent.geometry.operations:buffer_bounding_box_geometry"
    types = {"geometry": "Obj:soundevent.data.geometries.BoundingBox", "time_buffer": "float", "freq_buffer": "float"}
    result = "Obj:soundevent.data.geometries.BoundingBox"

    def requires(geometry, time_buffer, freq_buffer):
        return geometry.type == "BoundingBox" and valid_geometry(geometry) and time_buffer >= 0 and freq_buffer >= 0

    def ensures(geometry, time_buffer, freq_buffer, result):
        return (result.type == "BoundingBox" and result.coordinates == widened_box(geometry.coordinates, time_buffer, freq_buffer)
                and valid_geometry(result))


class BufferShapelyGeometry:
    """GEOS-backed pipeline (scale, shapely.buffer, unscale, clip_by_rect, GeoJSON, Polygon/MultiPolygon):
    assumed; what it returns went through the validating constructors, nothing else is assumed here.
    Containment / growth / monotonicity for these six types are decided by the bounded stand-in only."""
    target = "soundevent.geometry.operations:buffer_shapely_geometry"
    assumed = True
    result = "Opq:Geometry"

    def requires(time_buffer, freq_buffer):
        return time_buffer >= 0 and freq_buffer >= 0

    def ensures(result):
        return valid_geometry(result) and (result.type == "Polygon" or result.type == "MultiPolygon")


def exact_buffer(geometry, time_buffer, freq_buffer):
    """expected coordinates for the three closed-form types"""
    t = geometry.type
    c = geometry.coordinates
    if t == "TimeStamp":
        return widened_interval(c, c, time_buffer)
    if t == "TimeInterval":
        return widened_interval(c[0], c[1], time_buffer)
    return widened_box(c, time_buffer, freq_buffer)


def closed_form(t):
    return t == "TimeStamp" or t == "TimeInterval" or t == "BoundingBox"


class BufferGeometry:
    target = "soundevent.geometry.operations:buffer_geometry"
    types = {"geometry": "Opq:Geometry", "time_buffer": "float", "freq_buffer": "float"}
    result = "Opq:Geometry"
    result_switch = ("geometry", {"TimeStamp": "Obj:soundevent.data.geometries.TimeInterval",
                                  "TimeInterval": "Obj:soundevent.data.geometries.TimeInterval",
                                  "BoundingBox": "Obj:soundevent.data.geometries.BoundingBox"})

    def requires(geometry):
        return valid_geometry(geometry)

    def raises_ValueError(time_buffer, freq_buffer):
        return time_buffer < 0 or freq_buffer < 0

    def ensures(geometry, time_buffer, freq_buffer, result):
        if closed_form(geometry.type):
            want = "BoundingBox" if geometry.type == "BoundingBox" else "TimeInterval"
            return (result.type == want and result.coordinates == exact_buffer(geometry, time_buffer, freq_buffer)
                    and valid_geometry(result))
        return valid_geometry(result) and (result.type == "Polygon" or result.type == "MultiPolygon")


# ---- lemmas over the contracts (closed-form types) ---------------------------------------------------------
def contains_box(outer, inner):
    return outer[0] <= inner[0] and outer[1] <= inner[1] and outer[2] >= inner[2] and outer[3] >= inner[3]


def lemma_contains_original(geometry, tb, fb):
    if not valid_geometry(geometry) or tb < 0 or fb < 0:
        return True
    r = buffer_geometry(geometry, tb, fb)
    return contains_box(bounds_of(r), bounds_of(geometry))


def lemma_bounds_grow(geometry, tb, fb):
    """bounds extend the original's by at least the buffers, clipped at the domain edges"""
    if not valid_geometry(geometry) or tb < 0 or fb < 0:
        return True
    b = bounds_of(geometry)
    r = bounds_of(buffer_geometry(geometry, tb, fb))
    return (r[0] <= max(b[0] - tb, 0) and r[2] >= b[2] + tb
            and r[1] <= max(b[1] - fb, 0) and r[3] >= min(b[3] + fb, MAX_FREQUENCY))


def lemma_monotone(geometry, tb1, fb1, tb2, fb2):
    if not valid_geometry(geometry) or tb1 < 0 or fb1 < 0 or tb1 > tb2 or fb1 > fb2:
        return True
    return contains_box(bounds_of(buffer_geometry(geometry, tb2, fb2)), bounds_of(buffer_geometry(geometry, tb1, fb1)))


def canary_never_grows(geometry, tb):
    if not valid_geometry(geometry) or tb < 0:
        return True
    return bounds_of(buffer_geometry(geometry, tb, 0))[2] <= bounds_of(geometry)[2]


class BufferGeometryBounds:
    """buffer_geometry stated over bounds only (so that callers can keep geometries opaque): proved per type in C11,
    used by C06/C07."""
    target = "soundevent.geometry.operations:buffer_geometry"
    types = {"geometry": "Opq:Geometry", "time_buffer": "float", "freq_buffer": "float"}
    result = "Opq:Geometry"
    result_switch = ("geometry", {"TimeStamp": "Obj:soundevent.data.geometries.TimeInterval",
                                  "TimeInterval": "Obj:soundevent.data.geometries.TimeInterval",
                                  "BoundingBox": "Obj:soundevent.data.geometries.BoundingBox"})
    pure = True

    def requires(geometry):
        return valid_geometry(geometry)

    def raises_ValueError(time_buffer, freq_buffer):
        return time_buffer < 0 or freq_buffer < 0

    def ensures(geometry, time_buffer, freq_buffer, result):
        b = bounds_of(geometry)
        r = bounds_of(result)
        t = geometry.type
        if t == "TimeStamp" or t == "TimeInterval":
            return (result.type == "TimeInterval" and valid_geometry(result)
                    and r[0] == max(b[0] - time_buffer, 0) and r[1] == 0 and r[2] == b[2] + time_buffer and r[3] == MAX_FREQUENCY)
        if t == "BoundingBox":
            return (result.type == "BoundingBox" and valid_geometry(result)
                    and r[0] == max(b[0] - time_buffer, 0) and r[1] == max(b[1] - freq_buffer, 0)
                    and r[2] == b[2] + time_buffer and r[3] == min(b[3] + freq_buffer, MAX_FREQUENCY))
        return valid_geometry(result) and (result.type == "Polygon" or result.type == "MultiPolygon")
