"""C06 — affinity is a symmetric intersection-over-union in [0, 1] (soundevent.evaluation.affinity)."""
from contracts._rt import forall, exists, implies
from contracts.geometry import MAX_FREQUENCY, valid_geometry, bounds_of
from soundevent.evaluation.affinity import compute_affinity, compute_affinity_in_time, _prepare_geometry
from soundevent.geometry import buffer_geometry, geometry_to_shapely

BUFFERED = ["TimeStamp", "Point", "MultiPoint", "LineString", "MultiLineString"]   # zero/one-dimensional types
TIME_ONLY = ["TimeStamp", "TimeInterval"]


def is_time(t):
    return t == "TimeStamp" or t == "TimeInterval"


def is_buffered(t):
    return t == "TimeStamp" or t == "Point" or t == "MultiPoint" or t == "LineString" or t == "MultiLineString"


def iou_1d(s1, e1, s2, e2):
    inter = max(0, min(e1, e2) - max(s1, s2))
    union = (e1 - s1) + (e2 - s2) - inter
    return 0 if union == 0 else inter / union


def area_of(g):
    return geometry_to_shapely(g).area


def inter_area(g1, g2):
    return geometry_to_shapely(g1).intersection(geometry_to_shapely(g2)).area


def area_iou(g1, g2):
    """area intersection-over-union; the exact ratio never exceeds 1, so bounding it is the identity in exact
    arithmetic and keeps the value in [0, 1] under the library's rounding"""
    i = inter_area(g1, g2)
    u = area_of(g1) + area_of(g2) - i
    return 0 if u <= 0 else min(i / u, 1)


def prepared(g, tb, fb):
    """zero- and one-dimensional geometries are buffered so that they acquire an extent"""
    return buffer_geometry(g, time_buffer=tb, freq_buffer=fb) if is_buffered(g.type) else g


class ComputeAffinityInTime:
    target = "soundevent.evaluation.affinity:compute_affinity_in_time"
    types = {"geometry1": "Opq:Geometry", "geometry2": "Opq:Geometry"}
    result = "float"
    pure = True

    def requires(geometry1, geometry2):
        return valid_geometry(geometry1) and valid_geometry(geometry2)

    def ensures(geometry1, geometry2, result):
        b1 = bounds_of(geometry1)
        b2 = bounds_of(geometry2)
        return result == iou_1d(b1[0], b1[2], b2[0], b2[2]) and 0 <= result and result <= 1


class PrepareGeometry:
    target = "soundevent.evaluation.affinity:_prepare_geometry"
    types = {"geometry": "Opq:Geometry", "time_buffer": "float", "freq_buffer": "float"}
    result = "Opq:Geometry"
    pure = True

    def requires(geometry, time_buffer, freq_buffer):
        return valid_geometry(geometry) and time_buffer >= 0 and freq_buffer >= 0

    def ensures(geometry, time_buffer, freq_buffer, result):
        return result == prepared(geometry, time_buffer, freq_buffer) and valid_geometry(result)


class ComputeAffinity:
    target = "soundevent.evaluation.affinity:compute_affinity"
    types = {"geometry1": "Opq:Geometry", "geometry2": "Opq:Geometry", "time_buffer": "float", "freq_buffer": "float"}
    result = "float"
    pure = True

    def requires(geometry1, geometry2, time_buffer, freq_buffer):
        return valid_geometry(geometry1) and valid_geometry(geometry2) and time_buffer >= 0 and freq_buffer >= 0

    def ensures(geometry1, geometry2, time_buffer, freq_buffer, result):
        p1 = prepared(geometry1, time_buffer, freq_buffer)
        p2 = prepared(geometry2, time_buffer, freq_buffer)
        if is_time(p1.type) or is_time(p2.type):
            b1 = bounds_of(p1)
            b2 = bounds_of(p2)
            spec = iou_1d(b1[0], b1[2], b2[0], b2[2])      # time-only: IoU of the (buffered) time extents
        else:
            spec = area_iou(p1, p2)
        return result == spec and 0 <= result and result <= 1


# ---- lemmas ------------------------------------------------------------------------------------------------
def ok_inputs(g1, g2, tb, fb):
    return valid_geometry(g1) and valid_geometry(g2) and tb >= 0 and fb >= 0


def lemma_symmetric(g1, g2, tb, fb):
    if not ok_inputs(g1, g2, tb, fb):
        return True
    return compute_affinity(g1, g2, tb, fb) == compute_affinity(g2, g1, tb, fb)


def lemma_self_is_one(g, tb, fb):
    """a geometry of non-zero extent compared with itself"""
    if not ok_inputs(g, g, tb, fb):
        return True
    p = prepared(g, tb, fb)
    b = bounds_of(p)
    extent = (b[2] > b[0]) if is_time(p.type) else (area_of(p) > 0)
    if not extent:
        return True
    return compute_affinity(g, g, tb, fb) == 1


def lemma_disjoint_in_time_is_zero(g1, g2, tb, fb):
    if not ok_inputs(g1, g2, tb, fb):
        return True
    b1 = bounds_of(prepared(g1, tb, fb))
    b2 = bounds_of(prepared(g2, tb, fb))
    if not (b1[2] < b2[0] or b2[2] < b1[0]):
        return True
    return compute_affinity(g1, g2, tb, fb) == 0


def box_iou(a, b):
    ow = max(0, min(a[2], b[2]) - max(a[0], b[0]))
    oh = max(0, min(a[3], b[3]) - max(a[1], b[1]))
    i = ow * oh
    u = (a[2] - a[0]) * (a[3] - a[1]) + (b[2] - b[0]) * (b[3] - b[1]) - i
    return 0 if u <= 0 else min(i / u, 1)


def lemma_boxes_area_iou(g1, g2, tb, fb):
    if not ok_inputs(g1, g2, tb, fb) or g1.type != "BoundingBox" or g2.type != "BoundingBox":
        return True
    return compute_affinity(g1, g2, tb, fb) == box_iou(bounds_of(g1), bounds_of(g2))


def lemma_iou_1d_shift(s1, e1, s2, e2, d):
    """shifting both extents by the same offset leaves the time IoU unchanged"""
    if not (s1 <= e1 and s2 <= e2):
        return True
    return iou_1d(s1 + d, e1 + d, s2 + d, e2 + d) == iou_1d(s1, e1, s2, e2)


def lemma_iou_1d_range_and_symmetry(s1, e1, s2, e2):
    if not (s1 <= e1 and s2 <= e2):
        return True
    r = iou_1d(s1, e1, s2, e2)
    return 0 <= r and r <= 1 and r == iou_1d(s2, e2, s1, e1)


def canary_always_zero(g1, g2, tb, fb):
    if not ok_inputs(g1, g2, tb, fb):
        return True
    return compute_affinity(g1, g2, tb, fb) == 0
