"""C04 — relational schema invariants cannot be bypassed at construction (soundevent.data)."""
from contracts._rt import forall, exists, implies, distinct


def same_elements(xs, ys):
    """xs and ys contain the same elements (as sets)"""
    return (forall(len(xs), lambda i: exists(len(ys), lambda j: xs[i] == ys[j]))
            and forall(len(ys), lambda j: exists(len(xs), lambda i: xs[i] == ys[j])))


def in_unit(x):
    return x is None or (0 <= x and x <= 1)


def clip_evaluation_ok(annotations, predictions, matches, score):
    """same clip; the matches mention every annotated and every predicted sound event exactly once"""
    targets = [m.target.uuid for m in matches if m.target is not None]
    sources = [m.source.uuid for m in matches if m.source is not None]
    annotated = [a.uuid for a in annotations.sound_events]
    predicted = [q.uuid for q in predictions.sound_events]
    return (annotations.clip.uuid == predictions.clip.uuid
            and distinct(targets) and distinct(sources)
            and same_elements(targets, annotated) and same_elements(sources, predicted)
            and in_unit(score))


class NewClipEvaluation:
    target = "soundevent.data.clip_evaluations:ClipEvaluation"
    types = {"annotations": "Obj:soundevent.data.clip_annotations.ClipAnnotation",
             "predictions": "Obj:soundevent.data.clip_predictions.ClipPrediction",
             "matches": "List[Obj:soundevent.data.matches.Match]", "score": "Optional[float]"}

    def raises_ValidationError(annotations, predictions, matches, score):
        return not clip_evaluation_ok(annotations, predictions, matches, score)

    def ensures(annotations, predictions, matches, score, result):
        return (result.annotations == annotations and result.predictions == predictions
                and result.matches == matches and result.score == score)


def match_ok(source, target, affinity, score):
    return (source is not None or target is not None) and 0 <= affinity and affinity <= 1 and in_unit(score)


class NewMatch:
    target = "soundevent.data.matches:Match"
    types = {"source": "Optional[Obj:soundevent.data.sound_event_predictions.SoundEventPrediction]",
             "target": "Optional[Obj:soundevent.data.sound_event_annotations.SoundEventAnnotation]",
             "affinity": "float", "score": "Optional[float]"}

    def raises_ValidationError(source, target, affinity, score):
        return not match_ok(source, target, affinity, score)

    def ensures(source, target, affinity, score, result):
        return result.source == source and result.target == target and result.affinity == affinity and result.score == score


def project_ok(clip_annotations, tasks):
    """every annotated clip has a task"""
    return forall(len(clip_annotations), lambda i: exists(len(tasks), lambda j: tasks[j].clip.uuid == clip_annotations[i].clip.uuid))


class NewAnnotationProject:
    target = "soundevent.data.annotation_projects:AnnotationProject"
    types = {"name": "str", "clip_annotations": "List[Obj:soundevent.data.clip_annotations.ClipAnnotation]",
             "tasks": "List[Obj:soundevent.data.annotation_tasks.AnnotationTask]"}

    def raises_ValidationError(clip_annotations, tasks):
        return not project_ok(clip_annotations, tasks)

    def ensures(clip_annotations, tasks, result):
        return result.clip_annotations == clip_annotations and result.tasks == tasks


class NewClip:
    target = "soundevent.data.clips:Clip"
    types = {"recording": "Obj:soundevent.data.recordings.Recording", "start_time": "float", "end_time": "float"}

    def raises_ValidationError(start_time, end_time):
        return start_time > end_time

    def ensures(start_time, end_time, result):
        return result.start_time == start_time and result.end_time == end_time and result.start_time <= result.end_time


class NewPredictedTag:
    target = "soundevent.data.predicted_tags:PredictedTag"
    types = {"tag": "Obj:soundevent.data.tags.Tag", "score": "float"}

    def raises_ValidationError(score):
        return not (0 <= score and score <= 1)

    def ensures(score, result):
        return result.score == score


class NewSoundEventPrediction:
    target = "soundevent.data.sound_event_predictions:SoundEventPrediction"
    types = {"sound_event": "Obj:soundevent.data.sound_events.SoundEvent", "score": "float"}

    def raises_ValidationError(score):
        return not (0 <= score and score <= 1)

    def ensures(score, result):
        return result.score == score


class NewSequencePrediction:
    target = "soundevent.data.sequence_predictions:SequencePrediction"
    types = {"sequence": "Obj:soundevent.data.sequences.Sequence", "score": "float"}

    def raises_ValidationError(score):
        return not (0 <= score and score <= 1)

    def ensures(score, result):
        return result.score == score
