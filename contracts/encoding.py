"""C19 — tag encoding projects faithfully onto the vocabulary; equal objects hash equally."""
from contracts._rt import forall, exists, implies, distinct
from soundevent.evaluation.encoding import (SimpleEncoder, create_tag_encoder, classification_encoding,
                                            multilabel_encoding, prediction_encoding)


def same_tag(a, b):
    """tag equality: exactly the two declared fields (checked by a table obligation)"""
    return a.term == b.term and a.value == b.value


def index_of(vocab, tag):
    """the index of `tag` in a duplicate-free vocabulary, or None"""
    for i in range(len(vocab)):
        if same_tag(vocab[i], tag):
            return i
    return None


def in_vocab(vocab, tag):
    return exists(len(vocab), lambda i: same_tag(vocab[i], tag))


def no_duplicates(vocab):
    return forall(len(vocab), lambda i: forall(i, lambda j: not same_tag(vocab[i], vocab[j])))


class Encode:
    """SimpleEncoder(vocab).encode(tag), stated on the pair (vocabulary, tag)"""
    target = "contracts.encoding:encode_with"
    types = {"vocab": "List[Obj:soundevent.data.tags.Tag]", "tag": "Obj:soundevent.data.tags.Tag"}
    result = "Optional[int]"

    def requires(vocab):
        return no_duplicates(vocab)

    def ensures(vocab, tag, result):
        # maps a tag to i iff it equals the i-th vocabulary tag; to nothing otherwise
        if result is None:
            return not in_vocab(vocab, tag)
        return 0 <= result and result < len(vocab) and same_tag(vocab[result], tag)


def encode_with(vocab, tag):
    return create_tag_encoder(vocab).encode(tag)


def decode_encode(vocab, i):
    enc = create_tag_encoder(vocab)
    return enc.encode(enc.decode(i))


class DecodeEncode:
    target = "contracts.encoding:decode_encode"
    types = {"vocab": "List[Obj:soundevent.data.tags.Tag]", "i": "int"}
    result = "Optional[int]"

    def requires(vocab, i):
        return no_duplicates(vocab) and 0 <= i and i < len(vocab)

    def ensures(i, result):
        return result == i


def classify_with(vocab, tags):
    return classification_encoding(tags, create_tag_encoder(vocab))


class Classification:
    target = "contracts.encoding:classify_with"
    pure = True      # callers: the result is a function of (vocabulary, tag list)
    types = {"vocab": "List[Obj:soundevent.data.tags.Tag]", "tags": "List[Obj:soundevent.data.tags.Tag]"}
    result = "Optional[int]"

    def requires(vocab):
        return no_duplicates(vocab)

    def ensures(vocab, tags, result):
        # index of the FIRST tag that is in the vocabulary; None iff none is
        if result is None:
            return forall(len(tags), lambda k: not in_vocab(vocab, tags[k]))
        return (0 <= result and result < len(vocab)
                and exists(len(tags), lambda k: same_tag(vocab[result], tags[k])
                           and forall(k, lambda m: not in_vocab(vocab, tags[m]))))


def multilabel_with(vocab, tags):
    return multilabel_encoding(tags, create_tag_encoder(vocab))


class Multilabel:
    target = "contracts.encoding:multilabel_with"
    types = {"vocab": "List[Obj:soundevent.data.tags.Tag]", "tags": "List[Obj:soundevent.data.tags.Tag]"}
    result = "NDArray"

    def requires(vocab):
        return no_duplicates(vocab)

    def ensures(vocab, tags, result):
        # indicator vector of the vocabulary tags present (stated as separate implications: smaller obligations)
        present = lambda i: exists(len(tags), lambda k: same_tag(vocab[i], tags[k]))
        return (len(result) == len(vocab)
                and forall(len(vocab), lambda i: implies(present(i), result[i] == 1))
                and forall(len(vocab), lambda i: implies(not present(i), result[i] == 0)))


def prediction_with(vocab, tags):
    return prediction_encoding(tags, create_tag_encoder(vocab))


class Prediction:
    target = "contracts.encoding:prediction_with"
    pure = True
    types = {"vocab": "List[Obj:soundevent.data.tags.Tag]", "tags": "List[Obj:soundevent.data.predicted_tags.PredictedTag]"}
    result = "NDArray"

    def requires(vocab):
        return no_duplicates(vocab)

    def ensures(vocab, tags, result):
        # each vocabulary position holds the score of the LAST predicted tag equal to that vocabulary tag, else 0
        hit = lambda i, k: same_tag(vocab[i], tags[k].tag)
        return (len(result) == len(vocab)
                and forall(len(vocab), lambda i: forall(len(tags), lambda k: implies(
                    hit(i, k) and forall(k + 1, len(tags), lambda m: not hit(i, m)), result[i] == as_float32(tags[k].score))))
                and forall(len(vocab), lambda i: implies(not exists(len(tags), lambda k: hit(i, k)), result[i] == 0)))


def as_float32(x):
    """scores are stored in a float32 array"""
    import numpy as np
    return float(np.float32(x))


# ---- equal objects hash equally ------------------------------------------------------------------------
def lemma_hash(a, b):
    if a != b:
        return True
    return hash(a) == hash(b)
