"""C07 — matching is an optimal one-to-one assignment that covers every geometry once (soundevent.evaluation.match)."""
import itertools

from contracts._rt import forall, exists, implies
from contracts.geometry import valid_geometry
from soundevent.evaluation.affinity import compute_affinity
from soundevent.evaluation.match import match_geometries


def count_first(res, i):
    return sum(1 for t in res if t[0] is not None and t[0] == i)


def count_second(res, j):
    return sum(1 for t in res if t[1] is not None and t[1] == j)


def best_pairing_sum(source, target, time_buffer, freq_buffer):
    """maximum total affinity over all one-to-one pairings (brute force; symbolically: enumerated for the fixed sizes)"""
    n, m = len(source), len(target)
    best = 0.0
    for k in range(0, min(n, m) + 1):
        for rows in itertools.combinations(range(n), k):
            for cols in itertools.permutations(range(m), k):
                best = max(best, sum(compute_affinity(source[r], target[c], time_buffer, freq_buffer) for r, c in zip(rows, cols)))
    return best


class MatchGeometries:
    target = "soundevent.evaluation.match:match_geometries"
    types = {"time_buffer": "float", "freq_buffer": "float"}

    def requires(source, target, time_buffer, freq_buffer):
        return (time_buffer >= 0 and freq_buffer >= 0 and forall(len(source), lambda i: valid_geometry(source[i]))
                and forall(len(target), lambda j: valid_geometry(target[j])))

    def ensures(source, target, time_buffer, freq_buffer, result):
        res = list(result)
        n = len(source)
        m = len(target)
        once = (forall(n, lambda i: count_first(res, i) == 1) and forall(m, lambda j: count_second(res, j) == 1)
                and forall(len(res), lambda t: (res[t][0] is None or (0 <= res[t][0] and res[t][0] < n)) and (res[t][1] is None or (0 <= res[t][1] and res[t][1] < m))
                           and (res[t][0] is not None or res[t][1] is not None)))
        pairs = forall(len(res), lambda t: (
            (res[t][2] > 0 and res[t][2] == compute_affinity(source[res[t][0]], target[res[t][1]], time_buffer, freq_buffer))
            if (res[t][0] is not None and res[t][1] is not None) else res[t][2] == 0))
        optimal = sum(t[2] for t in res) == best_pairing_sum(source, target, time_buffer, freq_buffer)
        return once and pairs and optimal
