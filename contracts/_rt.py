"""Run-time meaning of the contract-language builtins (native execution: replay, stand-ins).

Symbolically the engine maps these names to quantifiers / implications (pyvc.calls.BUILTINS).
"""


def forall(*args):
    *bounds, f = args
    lo, hi = (0, bounds[0]) if len(bounds) == 1 else bounds
    return all(f(i) for i in range(lo, hi))


def exists(*args):
    *bounds, f = args
    lo, hi = (0, bounds[0]) if len(bounds) == 1 else bounds
    return any(f(i) for i in range(lo, hi))


def implies(a, b):
    return (not a) or bool(b)


def distinct(xs):
    xs = list(xs)
    return all(xs[i] != xs[j] for i in range(len(xs)) for j in range(i + 1, len(xs)))
