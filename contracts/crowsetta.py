"""C10 — crowsetta conversions preserve times, frequencies, labels and order (soundevent.io.crowsetta)."""
from contracts._rt import forall, exists, implies
from contracts.geometry import valid_geometry, bounds_of
from soundevent import data
from soundevent.data.compat import term_from_key


def listify(t):
    return t if isinstance(t, list) else [t]


def cascade(label, tag_fn, tag_mapping, term_mapping, key_mapping, key, term, fallback, empty_labels):
    """the documented label cascade: the numbered algorithm of label_to_tags' own docstring"""
    if label in empty_labels:
        return []
    if tag_fn is not None:
        try:
            return listify(tag_fn(label))
        except ValueError:
            pass
    if term_mapping is not None and label in term_mapping:
        term = term_mapping[label]
    if tag_mapping is not None and label in tag_mapping:
        return listify(tag_mapping[label])
    if key_mapping is not None and label in key_mapping:
        key = key_mapping[label]
    if key is None:
        key = fallback
    if term is None:
        term = term_from_key(key)
    return [data.Tag(term=term, value=label)]


def precedence_region(label, tag_mapping, term_mapping, term):
    """KNOWN FINDING region: a tag_mapping hit while a term is already set (explicitly or by term_mapping)"""
    return (tag_mapping is not None and label in tag_mapping) and (term is not None or (term_mapping is not None and label in term_mapping))


class LabelToTags:
    target = "soundevent.io.crowsetta.labels:label_to_tags"
    types = {"label": "str", "tag_mapping": "Optional[Dict[str, Obj:soundevent.data.tags.Tag]]",
             "term_mapping": "Optional[Dict[str, Obj:soundevent.data.terms.Term]]", "key_mapping": "Optional[Dict[str, str]]",
             "key": "Optional[str]", "term": "Optional[Obj:soundevent.data.terms.Term]", "fallback": "str", "empty_labels": "List[str]"}
    regions = ["precedence_region"]

    def ensures(label, tag_fn, tag_mapping, term_mapping, key_mapping, key, term, fallback, empty_labels, result):
        return result == cascade(label, tag_fn, tag_mapping, term_mapping, key_mapping, key, term, fallback, empty_labels)


class ConvertTimeToSample:
    target = "soundevent.io.crowsetta.segment:convert_time_to_sample"
    types = {"recording": "Obj:soundevent.data.recordings.Recording", "time": "float"}

    def requires(recording, time):
        return time >= 0 and recording.samplerate >= 1

    def ensures(recording, time, result):
        # floor(time x samplerate)
        return result <= time * recording.samplerate and time * recording.samplerate < result + 1


def imported_interval(onset_s, offset_s, onset_sample, offset_sample, samplerate, te, adjust):
    """(start, end): seconds if present else sample / (samplerate / te); divided by te exactly once when adjusting"""
    a = onset_s if onset_s is not None else onset_sample / (samplerate / te)
    b = offset_s if offset_s is not None else offset_sample / (samplerate / te)
    if adjust and te != 1:
        return (a / te, b / te)
    return (a, b)


class SegmentToAnnotation:
    target = "soundevent.io.crowsetta.segment:segment_to_annotation"
    types = {"recording": "Obj:soundevent.data.recordings.Recording", "adjust_time_expansion": "bool"}

    def requires(segment, recording):
        ok_on = (segment.onset_s is not None and segment.onset_s >= 0) or (segment.onset_s is None and segment.onset_sample is not None and segment.onset_sample >= 0)
        ok_off = (segment.offset_s is not None and segment.offset_s >= 0) or (segment.offset_s is None and segment.offset_sample is not None and segment.offset_sample >= 0)
        return ok_on and ok_off and recording.samplerate >= 1 and recording.time_expansion > 0 and interval_ordered(segment, recording)

    def ensures(segment, recording, adjust_time_expansion, result):
        iv = imported_interval(segment.onset_s, segment.offset_s, segment.onset_sample, segment.offset_sample,
                               recording.samplerate, recording.time_expansion, adjust_time_expansion)
        g = result.sound_event.geometry
        return (g.type == "TimeInterval" and g.coordinates[0] == iv[0] and g.coordinates[1] == iv[1]
                and result.sound_event.recording == recording
                and result.tags == cascade(segment.label, None, None, None, None, None, None, "crowsetta", ["__empty__"]))


def interval_ordered(segment, recording):
    iv = imported_interval(segment.onset_s, segment.offset_s, segment.onset_sample, segment.offset_sample,
                           recording.samplerate, recording.time_expansion, False)
    return iv[0] <= iv[1]


class BBoxToAnnotation:
    target = "soundevent.io.crowsetta.bbox:bbox_to_annotation"
    types = {"recording": "Obj:soundevent.data.recordings.Recording", "adjust_time_expansion": "bool"}

    def requires(bbox, recording):
        return (0 <= bbox.onset and bbox.onset <= bbox.offset and 0 <= bbox.low_freq and bbox.low_freq <= bbox.high_freq
                and recording.time_expansion > 0 and bbox.high_freq * recording.time_expansion <= 5000000 and bbox.high_freq <= 5000000)

    def ensures(bbox, recording, adjust_time_expansion, result):
        te = recording.time_expansion
        f = te if (adjust_time_expansion and te != 1) else 1
        c = result.sound_event.geometry.coordinates
        # times divided and frequencies multiplied by the time-expansion factor exactly once
        return (result.sound_event.geometry.type == "BoundingBox"
                and c[0] == bbox.onset / f and c[2] == bbox.offset / f and c[1] == bbox.low_freq * f and c[3] == bbox.high_freq * f)


class ConvertGeometryToBBox:
    target = "soundevent.io.crowsetta.bbox:convert_geometry_to_bbox"
    types = {"geometry": "Opq:Geometry", "cast_to_bbox": "bool", "raise_on_time_geometries": "bool"}

    def requires(geometry):
        return valid_geometry(geometry)

    def raises_ValueError(geometry, cast_to_bbox, raise_on_time_geometries):
        t = geometry.type
        return (t != "BoundingBox" and not cast_to_bbox) or ((t == "TimeInterval" or t == "TimeStamp") and raise_on_time_geometries)

    def ensures(geometry, result):
        return result == bounds_of(geometry)
