"""C15 — audio-derived arrays are sample-accurate and their axes tell the truth."""
import math

from contracts._rt import forall, exists, implies
from contracts.arrays import axis_of, on_lattice
from soundevent.audio.io import load_audio


def time_axis(arr):
    return [float(x) for x in arr.coords["time"].data]


def step_attr(arr, dim):
    return arr.coords[dim].attrs["step"]


def n_frames(arr):
    return arr.sizes["time"]


class LoadClip:
    target = "soundevent.audio.io:load_clip"
    types = {"clip": "Obj:soundevent.data.clips.Clip", "audio_dir": "None"}

    def requires(clip):
        return clip.recording.samplerate >= 1 and 0 <= clip.start_time and clip.start_time <= clip.end_time

    def ensures(clip, result):
        sr = clip.recording.samplerate
        offset = math.floor(clip.start_time * sr)
        n = math.floor((clip.end_time - clip.start_time) * sr)
        t = time_axis(result)
        # exactly floor(duration x samplerate) frames; frame i carries time (offset + i) / samplerate
        return (n_frames(result) == n and len(t) == n
                and forall(n, lambda i: on_lattice(t[i], offset / sr, 1.0 / sr, i))
                and (n == 0 or step_attr(result, "time") == 1.0 / sr))


def lemma_resample_drift(n, ratio, i):
    """scipy.signal.resample returns t_i = t_0 + i * step * n / num (num = floor(n * ratio) samples, ratio = target * step);
    the advertised step is 1 / target: every coordinate lies within one advertised step of first + i * (1 / target).
    Stated with step = 1 (time unit), so target = ratio."""
    num = math.floor(n * ratio)
    if not (n >= 1 and ratio > 0 and num >= 1 and 0 <= i and i < num):
        return True
    realised = n / num          # realised spacing, in units of the source step
    advertised = 1 / ratio      # advertised step 1 / target, in the same units
    drift = i * (realised - advertised)
    return -advertised < drift and drift < advertised


class ComputeSpectrogram:
    target = "soundevent.audio.spectrograms:compute_spectrogram"
    types = {"window_size": "float", "hop_size": "float"}

    def requires(audio, window_size, hop_size):
        sr = 1 / step_attr(audio, "time")
        return (window_size > 0 and hop_size > 0 and hop_size <= window_size
                and math.floor(window_size * sr) >= 1
                and math.floor(window_size * sr) - math.floor((window_size - hop_size) * sr) >= 1)   # the hop is at least one sample

    def ensures(audio, window_size, hop_size, result):
        t = time_axis(result)
        f = [float(x) for x in result.coords["frequency"].data]
        st = step_attr(result, "time")
        sf_ = step_attr(result, "frequency")
        t0 = time_axis(audio)[0]
        # time axis: starts at the source's start, strictly increasing, every coordinate exactly first + i * advertised step
        return (st > 0 and sf_ > 0
                and forall(len(t), lambda i: on_lattice(t[i], t0, st, i))
                and forall(len(f), lambda k: on_lattice(f[k], 0.0, sf_, k)))


# ---- load_audio against the soundfile contract ------------------------------------------------------------------------
def frames_in_file(path):
    """number of frames of the audio file (soundfile: SoundFile.frames)"""
    import soundfile as sf
    with sf.SoundFile(path) as fp:
        return fp.frames


def samplerate_of_file(path):
    import soundfile as sf
    with sf.SoundFile(path) as fp:
        return fp.samplerate


def frames_from(path, position, count):
    """the file's frames position .. position + count (all the remaining ones when count is negative), as rows x channels,
    zero-filled past the end of the file -- written out with plain slicing, independent of seek/read"""
    import numpy as np
    import soundfile as sf
    whole, _ = sf.read(path, always_2d=True)
    rest = whole[position:]
    if count < 0:
        return rest
    out = np.zeros((count, whole.shape[1]), dtype=whole.dtype)
    out[: min(count, len(rest))] = rest[:count]
    return out


def same_frames(a, b):
    import numpy as np
    return a.shape == b.shape and bool(np.array_equal(a, b))


class LoadAudio:
    target = "soundevent.audio.io:load_audio"
    types = {"path": "Opq:AudioPath", "offset": "int", "samples": "Optional[int]"}

    def requires(offset, samples):
        return offset >= 0 and (samples is None or samples >= 0)

    def build_inputs(inputs):
        """replay: the solver's file is opaque, so a real WAV is synthesised -- non-zero frames, SHORTER than the requested offset
        (the region where seeking has to be clamped); if the counterexample needs another file length the replay reports
        `no failing input found`, never a failure of its own making"""
        import os
        import tempfile
        import numpy as np
        import soundfile as sf
        offset = int(inputs["offset"])
        frames = min(max(1, offset - 1) if offset >= 2 else 4, 20000)
        import atexit
        import shutil
        tmpdir = tempfile.mkdtemp(prefix="verif_c15_replay_")
        atexit.register(shutil.rmtree, tmpdir, True)
        path = os.path.join(tmpdir, "a.wav")
        sf.write(path, ((np.arange(frames) % 7 + 1) / 10.0).astype("float32"), 8000, subtype="FLOAT")
        samples = inputs["samples"]
        return dict(path=path, offset=offset, samples=None if samples is None else min(int(samples), 50000))

    def ensures(path, offset, samples, result):
        # reads from the requested offset, or from the end of the file when the offset lies beyond it (nothing but zero fill then)
        start = min(offset, frames_in_file(path))
        count = -1 if samples is None else samples
        return same_frames(result[0], frames_from(path, start, count)) and result[1] == samplerate_of_file(path)
