"""Geometry spec functions and contracts shared by C03, C05, C06, C11, C12, C20."""
from contracts._rt import forall, exists, implies
from soundevent.geometry.operations import compute_bounds

MAX_FREQUENCY = 5000000  # checked against soundevent.data.geometries.MAX_FREQUENCY by a table obligation


def lower1(m, pts, axis):
    """m is the minimum of pts[i][axis]"""
    return forall(len(pts), lambda i: m <= pts[i][axis]) and exists(len(pts), lambda i: m == pts[i][axis])


def upper1(m, pts, axis):
    return forall(len(pts), lambda i: m >= pts[i][axis]) and exists(len(pts), lambda i: m == pts[i][axis])


def lower2(m, parts, axis):
    return (forall(len(parts), lambda r: forall(len(parts[r]), lambda k: m <= parts[r][k][axis]))
            and exists(len(parts), lambda r: exists(len(parts[r]), lambda k: m == parts[r][k][axis])))


def upper2(m, parts, axis):
    return (forall(len(parts), lambda r: forall(len(parts[r]), lambda k: m >= parts[r][k][axis]))
            and exists(len(parts), lambda r: exists(len(parts[r]), lambda k: m == parts[r][k][axis])))


def lower3(m, polys, axis):
    return (forall(len(polys), lambda q: forall(len(polys[q]), lambda r: forall(len(polys[q][r]), lambda k: m <= polys[q][r][k][axis])))
            and exists(len(polys), lambda q: exists(len(polys[q]), lambda r: exists(len(polys[q][r]), lambda k: m == polys[q][r][k][axis]))))


def upper3(m, polys, axis):
    return (forall(len(polys), lambda q: forall(len(polys[q]), lambda r: forall(len(polys[q][r]), lambda k: m >= polys[q][r][k][axis])))
            and exists(len(polys), lambda q: exists(len(polys[q]), lambda r: exists(len(polys[q][r]), lambda k: m == polys[q][r][k][axis]))))


def is_bounds(b, geometry):
    """b = (min time, min frequency, max time, max frequency) over the coordinates of `geometry`;
    time-only geometries span the full band [0, MAX_FREQUENCY].  (C12: opaque geometries, uninterpreted.)"""
    t = geometry.type
    c = geometry.coordinates
    if t == "TimeStamp":
        return b[0] == c and b[1] == 0 and b[2] == c and b[3] == MAX_FREQUENCY
    if t == "TimeInterval":
        return b[0] == c[0] and b[1] == 0 and b[2] == c[1] and b[3] == MAX_FREQUENCY
    if t == "BoundingBox":
        return b[0] == c[0] and b[1] == c[1] and b[2] == c[2] and b[3] == c[3]
    if t == "Point":
        return b[0] == c[0] and b[1] == c[1] and b[2] == c[0] and b[3] == c[1]
    if t == "LineString" or t == "MultiPoint":
        return lower1(b[0], c, 0) and lower1(b[1], c, 1) and upper1(b[2], c, 0) and upper1(b[3], c, 1)
    if t == "Polygon" or t == "MultiLineString":
        return lower2(b[0], c, 0) and lower2(b[1], c, 1) and upper2(b[2], c, 0) and upper2(b[3], c, 1)
    if t == "MultiPolygon":
        return lower3(b[0], c, 0) and lower3(b[1], c, 1) and upper3(b[2], c, 0) and upper3(b[3], c, 1)
    return False


def bounds_of(geometry):
    """the unique b with is_bounds(b, geometry) (native: computed; C12: uninterpreted function of the geometry)"""
    t, c = geometry.type, geometry.coordinates
    if t == "TimeStamp":
        return (c, 0, c, MAX_FREQUENCY)
    if t == "TimeInterval":
        return (c[0], 0, c[1], MAX_FREQUENCY)
    if t == "BoundingBox":
        return (c[0], c[1], c[2], c[3])
    if t == "Point":
        pts = [c]
    elif t in ("LineString", "MultiPoint"):
        pts = list(c)
    elif t in ("Polygon", "MultiLineString"):
        pts = [p for part in c for p in part]
    else:
        pts = [p for poly in c for ring in poly for p in ring]
    return (min(p[0] for p in pts), min(p[1] for p in pts), max(p[0] for p in pts), max(p[1] for p in pts))


def holes_inside_shell_box(rings):
    """every hole vertex lies in the bounding box of the shell (implied by polygon validity: holes are inside the shell)"""
    return forall(1, len(rings), lambda r: forall(len(rings[r]), lambda k: (
        exists(len(rings[0]), lambda i: rings[0][i][0] <= rings[r][k][0])
        and exists(len(rings[0]), lambda i: rings[0][i][0] >= rings[r][k][0])
        and exists(len(rings[0]), lambda i: rings[0][i][1] <= rings[r][k][1])
        and exists(len(rings[0]), lambda i: rings[0][i][1] >= rings[r][k][1]))))


def valid_geometry(geometry):
    """the C03 invariant of a constructed geometry object (precondition of every geometry consumer)"""
    t = geometry.type
    c = geometry.coordinates
    if t == "TimeStamp":
        return valid_timestamp(c)
    if t == "TimeInterval":
        return valid_timeinterval(c)
    if t == "BoundingBox":
        return valid_boundingbox(c) and c[0] <= c[2] and c[1] <= c[3]
    if t == "Point":
        return valid_point(c)
    if t == "LineString":
        return valid_linestring(c) and c[0][0] <= c[len(c) - 1][0]
    if t == "MultiPoint":
        return valid_multipoint(c)
    if t == "Polygon":
        return valid_polygon(c) and holes_inside_shell_box(c)
    if t == "MultiLineString":
        return valid_multilinestring(c)
    if t == "MultiPolygon":
        return valid_multipolygon(c) and forall(len(c), lambda q: holes_inside_shell_box(c[q]))
    return False


class ComputeBounds:
    target = "soundevent.geometry.operations:compute_bounds"
    types = {"geometry": "Opq:Geometry"}
    result = "Tuple[float, float, float, float]"

    def requires(geometry):
        return valid_geometry(geometry)

    def ensures(geometry, result):
        return is_bounds(result, geometry) and result[0] <= result[2] and result[1] <= result[3]


# =================================================================================================
# C03 — validity and normal form of the nine geometry types (spec written from the property text)
# =================================================================================================
def valid_time(t):
    return t >= 0


def valid_point(p):
    return len(p) == 2 and p[0] >= 0 and 0 <= p[1] and p[1] <= MAX_FREQUENCY


def valid_points(ps, minimum):
    return len(ps) >= minimum and forall(len(ps), lambda i: valid_point(ps[i]))


def valid_timestamp(c):
    return valid_time(c)


def valid_timeinterval(c):
    return len(c) == 2 and c[0] >= 0 and c[1] >= 0 and c[0] <= c[1]


def valid_boundingbox(c):
    # any two corners are accepted and normalised; every coordinate must be in range
    return (len(c) == 4 and c[0] >= 0 and c[2] >= 0
            and 0 <= c[1] and c[1] <= MAX_FREQUENCY and 0 <= c[3] and c[3] <= MAX_FREQUENCY)


def valid_linestring(c):
    return valid_points(c, 2)


def valid_polygon(c):
    return len(c) >= 1 and forall(len(c), lambda r: valid_points(c[r], 3))


def valid_multipoint(c):
    return valid_points(c, 1)


def strictly_forward(line):
    return line[0][0] < line[len(line) - 1][0]


def valid_multilinestring(c):
    return len(c) >= 1 and forall(len(c), lambda l: valid_points(c[l], 2) and strictly_forward(c[l]))


def valid_multipolygon(c):
    return len(c) >= 1 and forall(len(c), lambda p: len(c[p]) >= 1 and forall(len(c[p]), lambda r: valid_points(c[p][r], 3)))


def normal_boundingbox(c):
    return [min(c[0], c[2]), min(c[1], c[3]), max(c[0], c[2]), max(c[1], c[3])]


def normal_linestring(c):
    return c[::-1] if c[0][0] > c[len(c) - 1][0] else c


class NewTimeStamp:
    target = "soundevent.data.geometries:TimeStamp"
    types = {"coordinates": "float"}
    result = "Obj:soundevent.data.geometries.TimeStamp"

    def raises_ValidationError(coordinates):
        return not valid_timestamp(coordinates)

    def ensures(coordinates, result):
        return result.type == "TimeStamp" and result.coordinates == coordinates and valid_timestamp(result.coordinates)


class NewTimeInterval:
    target = "soundevent.data.geometries:TimeInterval"
    types = {"coordinates": "List[float]"}
    result = "Obj:soundevent.data.geometries.TimeInterval"

    def raises_ValidationError(coordinates):
        return not valid_timeinterval(coordinates)

    def ensures(coordinates, result):
        return (result.type == "TimeInterval" and result.coordinates == coordinates
                and valid_timeinterval(result.coordinates))


class NewPoint:
    target = "soundevent.data.geometries:Point"
    types = {"coordinates": "List[float]"}
    result = "Obj:soundevent.data.geometries.Point"

    def raises_ValidationError(coordinates):
        return not valid_point(coordinates)

    def ensures(coordinates, result):
        return result.type == "Point" and result.coordinates == coordinates and valid_point(result.coordinates)


class NewBoundingBox:
    target = "soundevent.data.geometries:BoundingBox"
    types = {"coordinates": "List[float]"}
    result = "Obj:soundevent.data.geometries.BoundingBox"

    def raises_ValidationError(coordinates):
        return not valid_boundingbox(coordinates)

    def ensures(coordinates, result):
        r = result.coordinates
        return (result.type == "BoundingBox" and r == normal_boundingbox(coordinates)
                and valid_boundingbox(r) and r[0] <= r[2] and r[1] <= r[3]          # normal form
                and normal_boundingbox(r) == r)                                      # re-validation is a fixpoint


class NewLineString:
    target = "soundevent.data.geometries:LineString"
    types = {"coordinates": "List[List[float]]"}
    result = "Obj:soundevent.data.geometries.LineString"

    def raises_ValidationError(coordinates):
        return not valid_linestring(coordinates)

    def ensures(coordinates, result):
        r = result.coordinates
        return (result.type == "LineString" and r == normal_linestring(coordinates)
                and valid_linestring(r) and r[0][0] <= r[len(r) - 1][0]            # runs forward in time
                and normal_linestring(r) == r)


class NewPolygon:
    target = "soundevent.data.geometries:Polygon"
    types = {"coordinates": "List[List[List[float]]]"}
    result = "Obj:soundevent.data.geometries.Polygon"

    def raises_ValidationError(coordinates):
        return not valid_polygon(coordinates)

    def ensures(coordinates, result):
        return result.type == "Polygon" and result.coordinates == coordinates and valid_polygon(result.coordinates)


class NewMultiPoint:
    target = "soundevent.data.geometries:MultiPoint"
    types = {"coordinates": "List[List[float]]"}
    result = "Obj:soundevent.data.geometries.MultiPoint"

    def raises_ValidationError(coordinates):
        return not valid_multipoint(coordinates)

    def ensures(coordinates, result):
        return result.type == "MultiPoint" and result.coordinates == coordinates and valid_multipoint(result.coordinates)


class NewMultiLineString:
    target = "soundevent.data.geometries:MultiLineString"
    types = {"coordinates": "List[List[List[float]]]"}
    result = "Obj:soundevent.data.geometries.MultiLineString"

    def raises_ValidationError(coordinates):
        return not valid_multilinestring(coordinates)

    def ensures(coordinates, result):
        return (result.type == "MultiLineString" and result.coordinates == coordinates
                and valid_multilinestring(result.coordinates))


class NewMultiPolygon:
    target = "soundevent.data.geometries:MultiPolygon"
    types = {"coordinates": "List[List[List[List[float]]]]"}
    result = "Obj:soundevent.data.geometries.MultiPolygon"

    def raises_ValidationError(coordinates):
        return not valid_multipolygon(coordinates)

    def ensures(coordinates, result):
        return (result.type == "MultiPolygon" and result.coordinates == coordinates
                and valid_multipolygon(result.coordinates))


GEOMETRY_CONTRACTS = ["NewTimeStamp", "NewTimeInterval", "NewPoint", "NewBoundingBox", "NewLineString", "NewPolygon",
                      "NewMultiPoint", "NewMultiLineString", "NewMultiPolygon"]


# ---- geometry_validate (dict and attribute modes; the JSON mode is the dict mode after json.loads) ----------
def valid_by_tag(tag, c):
    if tag == "TimeStamp":
        return valid_timestamp(c)
    if tag == "TimeInterval":
        return valid_timeinterval(c)
    if tag == "Point":
        return valid_point(c)
    if tag == "BoundingBox":
        return valid_boundingbox(c)
    if tag == "LineString":
        return valid_linestring(c)
    if tag == "Polygon":
        return valid_polygon(c)
    if tag == "MultiPoint":
        return valid_multipoint(c)
    if tag == "MultiLineString":
        return valid_multilinestring(c)
    if tag == "MultiPolygon":
        return valid_multipolygon(c)
    return False


def normal_by_tag(tag, c):
    if tag == "BoundingBox":
        return normal_boundingbox(c)
    if tag == "LineString":
        return normal_linestring(c)
    return c


class GeometryValidate:
    """obj is a mapping / attribute object {type: tag, coordinates: c}; the driver fixes tag and mode."""
    target = "soundevent.data.geometries:geometry_validate"
    types = {}
    result = "Opq:Geometry"

    def raises_ValueError(obj):
        return not valid_by_tag(get_field(obj, "type"), get_field(obj, "coordinates"))

    def ensures(obj, result):
        tag = get_field(obj, "type")
        return (result.type == tag and class_tag(result) == tag
                and result.coordinates == normal_by_tag(tag, get_field(obj, "coordinates")))


def get_field(obj, name):
    if isinstance(obj, dict):
        return obj[name]
    return getattr(obj, name)


def class_tag(geometry):
    """the type tag declared by the *class* of the object (native: the class's own default)"""
    return type(geometry).model_fields["type"].default


# =================================================================================================
# C05 — shapely conversion, geometric features, anchor points
# =================================================================================================
from soundevent import terms  # noqa: E402
from soundevent.geometry.conversion import geometry_to_shapely  # noqa: E402
from soundevent.geometry.features import compute_geometric_features  # noqa: E402
from soundevent.geometry.operations import get_geometry_point  # noqa: E402


def close_ring(ring):
    """shapely stores rings closed"""
    return ring if ring[0] == ring[len(ring) - 1] else ring + [ring[0]]


def box_ring(a, b, c, d):
    """exterior of shapely.geometry.box(minx=a, miny=b, maxx=c, maxy=d)"""
    return [[c, b], [c, d], [a, d], [a, b], [c, b]]


def box_like(view, a, b, c, d):
    """a hole-free polygon whose vertices are corners of [a,c] x [b,d] and reach all four sides"""
    ring = view[1]
    return (view[0] == "Polygon" and len(view[2]) == 0 and len(ring) >= 1
            and forall(len(ring), lambda i: (ring[i][0] == a or ring[i][0] == c) and (ring[i][1] == b or ring[i][1] == d))
            and exists(len(ring), lambda i: ring[i][0] == a) and exists(len(ring), lambda i: ring[i][0] == c)
            and exists(len(ring), lambda i: ring[i][1] == b) and exists(len(ring), lambda i: ring[i][1] == d))


def expected_view(geometry):
    """kind and coordinate structure the shapely object must have (every coordinate in its place)"""
    t = geometry.type
    c = geometry.coordinates
    if t == "TimeStamp":
        return ("LineString", [[c, 0], [c, MAX_FREQUENCY]])
    if t == "TimeInterval" or t == "BoundingBox":
        return None  # boxes: see box_like (shapely drops repeated corners of degenerate boxes)
    if t == "Point":
        return ("Point", [c[0], c[1]])
    if t == "LineString":
        return ("LineString", c)
    if t == "MultiPoint":
        return ("MultiPoint", c)
    if t == "Polygon":
        return ("Polygon", close_ring(c[0]), [close_ring(h) for h in c[1:]])
    if t == "MultiLineString":
        return ("MultiLineString", c)
    if t == "MultiPolygon":
        return ("MultiPolygon", [(close_ring(q[0]), [close_ring(h) for h in q[1:]]) for q in c])
    return None


def _pts(seq):
    return [[float(x) for x in p] for p in seq]


def shape_view(shp):
    """abstraction function: the view of a real shapely object (symbolically: the modelled view)"""
    k = shp.geom_type
    if k == "Point":
        return ("Point", [shp.x, shp.y])
    if k == "LineString":
        return ("LineString", _pts(shp.coords))
    if k == "MultiPoint":
        return ("MultiPoint", [[g.x, g.y] for g in shp.geoms])
    if k == "Polygon":
        return ("Polygon", _pts(shp.exterior.coords), [_pts(r.coords) for r in shp.interiors])
    if k == "MultiLineString":
        return ("MultiLineString", [_pts(g.coords) for g in shp.geoms])
    if k == "MultiPolygon":
        return ("MultiPolygon", [(_pts(g.exterior.coords), [_pts(r.coords) for r in g.interiors]) for g in shp.geoms])
    return None


class GeometryToShapely:
    target = "soundevent.geometry.conversion:geometry_to_shapely"
    types = {"geom": "Opq:Geometry"}
    result = "Opq:Shape"

    def requires(geom):
        return valid_geometry(geom)

    def ensures(geom, result):
        if geom.type == "TimeInterval":
            return box_like(shape_view(result), geom.coordinates[0], 0, geom.coordinates[1], MAX_FREQUENCY)
        if geom.type == "BoundingBox":
            c = geom.coordinates
            return box_like(shape_view(result), c[0], c[1], c[2], c[3])
        return shape_view(result) == expected_view(geom)


def is_multi(t):
    return t == "MultiPoint" or t == "MultiLineString" or t == "MultiPolygon"


def feature_list(geometry, b, n_parts):
    """[(term, value)] the property names: duration, low/high frequency, bandwidth (+ number of parts)"""
    t = geometry.type
    if t == "TimeStamp" or t == "TimeInterval":
        return [(terms.duration, b[2] - b[0])]
    base = [(terms.duration, b[2] - b[0]), (terms.low_freq, b[1]), (terms.high_freq, b[3]), (terms.bandwidth, b[3] - b[1])]
    if t == "MultiPoint" or t == "MultiLineString" or t == "MultiPolygon":
        return base + [(terms.num_segments, n_parts)]
    return base


class ComputeGeometricFeatures:
    target = "soundevent.geometry.features:compute_geometric_features"
    types = {"geometry": "Opq:Geometry"}
    result = "List[Obj:soundevent.data.features.Feature]"

    def requires(geometry):
        return valid_geometry(geometry)

    def ensures(geometry, result):
        exp = feature_list(geometry, bounds_of(geometry), len(geometry.coordinates) if is_multi(geometry.type) else 1)
        return len(result) == len(exp) and forall(len(exp), lambda i: result[i].term == exp[i][0] and result[i].value == exp[i][1])


def anchor(b, position):
    """corner / edge midpoint / centre of bounds b for a named position"""
    if position == "center":
        return ((b[0] + b[2]) / 2, (b[1] + b[3]) / 2)
    y, x = position.split("-")
    tx = b[0] if x == "left" else (b[2] if x == "right" else (b[0] + b[2]) / 2)
    fy = b[1] if y == "bottom" else (b[3] if y == "top" else (b[1] + b[3]) / 2)
    return (tx, fy)


BOX_POSITIONS = ["bottom-left", "bottom-right", "top-left", "top-right", "center-left", "center-right",
                 "top-center", "bottom-center", "center"]
ALL_POSITIONS = BOX_POSITIONS + ["centroid", "point_on_surface"]


class GetGeometryPoint:
    target = "soundevent.geometry.operations:get_geometry_point"
    types = {"geometry": "Opq:Geometry", "position": "str"}
    result = "Tuple[float, float]"

    def requires(geometry):
        return valid_geometry(geometry)

    def raises_ValueError(position):
        return position not in ALL_POSITIONS

    def ensures(geometry, position, result):
        if position == "centroid" or position == "point_on_surface":
            return True  # inside-the-bounds is a property of GEOS: bounded stand-in only
        return result == anchor(bounds_of(geometry), position)
