"""Geometry spec functions and contracts shared by C03, C05, C06, C11, C12, C20."""
from contracts._rt import forall, exists, implies
from soundevent.geometry.operations import compute_bounds

MAX_FREQUENCY = 5000000  # checked against soundevent.data.geometries.MAX_FREQUENCY by a table obligation


def _flat_points(geometry):
    """All (time, frequency) points of a coordinate-carrying geometry (native helper only)."""
    t, c = geometry.type, geometry.coordinates
    if t == "Point":
        return [c]
    if t in ("LineString", "MultiPoint"):
        return list(c)
    if t in ("Polygon", "MultiLineString"):
        return [p for part in c for p in part]
    if t == "MultiPolygon":
        return [p for poly in c for ring in poly for p in ring]
    raise ValueError(t)


def bounds_of(geometry):
    """(min time, min frequency, max time, max frequency) over the coordinates; time-only
    geometries span the full band.  Symbolically (opaque geometries) an uninterpreted function."""
    t, c = geometry.type, geometry.coordinates
    if t == "TimeStamp":
        return (c, 0, c, MAX_FREQUENCY)
    if t == "TimeInterval":
        return (c[0], 0, c[1], MAX_FREQUENCY)
    if t == "BoundingBox":
        return (c[0], c[1], c[2], c[3])
    pts = _flat_points(geometry)
    return (min(p[0] for p in pts), min(p[1] for p in pts), max(p[0] for p in pts), max(p[1] for p in pts))


class ComputeBounds:
    target = "soundevent.geometry.operations:compute_bounds"
    types = {"geometry": "Opq:Geometry"}
    result = "Tuple[float, float, float, float]"

    def ensures(geometry, result):
        return result == bounds_of(geometry) and result[0] <= result[2] and result[1] <= result[3]
