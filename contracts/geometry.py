"""Geometry spec functions and contracts shared by C03, C05, C06, C11, C12, C20."""
from contracts._rt import forall, exists, implies
from soundevent.geometry.operations import compute_bounds

MAX_FREQUENCY = 5000000  # checked against soundevent.data.geometries.MAX_FREQUENCY by a table obligation


def _flat_points(geometry):
    """All (time, frequency) points of a coordinate-carrying geometry (native helper only)."""
    t, c = geometry.type, geometry.coordinates
    if t == "Point":
        return [c]
    if t in ("LineString", "MultiPoint"):
        return list(c)
    if t in ("Polygon", "MultiLineString"):
        return [p for part in c for p in part]
    if t == "MultiPolygon":
        return [p for poly in c for ring in poly for p in ring]
    raise ValueError(t)


def bounds_of(geometry):
    """(min time, min frequency, max time, max frequency) over the coordinates; time-only
    geometries span the full band.  Symbolically (opaque geometries) an uninterpreted function."""
    t, c = geometry.type, geometry.coordinates
    if t == "TimeStamp":
        return (c, 0, c, MAX_FREQUENCY)
    if t == "TimeInterval":
        return (c[0], 0, c[1], MAX_FREQUENCY)
    if t == "BoundingBox":
        return (c[0], c[1], c[2], c[3])
    pts = _flat_points(geometry)
    return (min(p[0] for p in pts), min(p[1] for p in pts), max(p[0] for p in pts), max(p[1] for p in pts))


class ComputeBounds:
    target = "soundevent.geometry.operations:compute_bounds"
    types = {"geometry": "Opq:Geometry"}
    result = "Tuple[float, float, float, float]"

    def ensures(geometry, result):
        return result == bounds_of(geometry) and result[0] <= result[2] and result[1] <= result[3]


# =================================================================================================
# C03 — validity and normal form of the nine geometry types (spec written from the property text)
# =================================================================================================
def valid_time(t):
    return t >= 0


def valid_point(p):
    return len(p) == 2 and p[0] >= 0 and 0 <= p[1] and p[1] <= MAX_FREQUENCY


def valid_points(ps, minimum):
    return len(ps) >= minimum and forall(len(ps), lambda i: valid_point(ps[i]))


def valid_timestamp(c):
    return valid_time(c)


def valid_timeinterval(c):
    return len(c) == 2 and c[0] >= 0 and c[1] >= 0 and c[0] <= c[1]


def valid_boundingbox(c):
    # any two corners are accepted and normalised; every coordinate must be in range
    return (len(c) == 4 and c[0] >= 0 and c[2] >= 0
            and 0 <= c[1] and c[1] <= MAX_FREQUENCY and 0 <= c[3] and c[3] <= MAX_FREQUENCY)


def valid_linestring(c):
    return valid_points(c, 2)


def valid_polygon(c):
    return len(c) >= 1 and forall(len(c), lambda r: valid_points(c[r], 3))


def valid_multipoint(c):
    return valid_points(c, 1)


def strictly_forward(line):
    return line[0][0] < line[len(line) - 1][0]


def valid_multilinestring(c):
    return len(c) >= 1 and forall(len(c), lambda l: valid_points(c[l], 2) and strictly_forward(c[l]))


def valid_multipolygon(c):
    return len(c) >= 1 and forall(len(c), lambda p: len(c[p]) >= 1 and forall(len(c[p]), lambda r: valid_points(c[p][r], 3)))


def normal_boundingbox(c):
    return [min(c[0], c[2]), min(c[1], c[3]), max(c[0], c[2]), max(c[1], c[3])]


def normal_linestring(c):
    return c[::-1] if c[0][0] > c[len(c) - 1][0] else c


class NewTimeStamp:
    target = "soundevent.data.geometries:TimeStamp"
    types = {"coordinates": "float"}
    result = "Obj:soundevent.data.geometries.TimeStamp"

    def raises_ValidationError(coordinates):
        return not valid_timestamp(coordinates)

    def ensures(coordinates, result):
        return result.type == "TimeStamp" and result.coordinates == coordinates and valid_timestamp(result.coordinates)


class NewTimeInterval:
    target = "soundevent.data.geometries:TimeInterval"
    types = {"coordinates": "List[float]"}
    result = "Obj:soundevent.data.geometries.TimeInterval"

    def raises_ValidationError(coordinates):
        return not valid_timeinterval(coordinates)

    def ensures(coordinates, result):
        return (result.type == "TimeInterval" and result.coordinates == coordinates
                and valid_timeinterval(result.coordinates))


class NewPoint:
    target = "soundevent.data.geometries:Point"
    types = {"coordinates": "List[float]"}
    result = "Obj:soundevent.data.geometries.Point"

    def raises_ValidationError(coordinates):
        return not valid_point(coordinates)

    def ensures(coordinates, result):
        return result.type == "Point" and result.coordinates == coordinates and valid_point(result.coordinates)


class NewBoundingBox:
    target = "soundevent.data.geometries:BoundingBox"
    types = {"coordinates": "List[float]"}
    result = "Obj:soundevent.data.geometries.BoundingBox"

    def raises_ValidationError(coordinates):
        return not valid_boundingbox(coordinates)

    def ensures(coordinates, result):
        r = result.coordinates
        return (result.type == "BoundingBox" and r == normal_boundingbox(coordinates)
                and valid_boundingbox(r) and r[0] <= r[2] and r[1] <= r[3]          # normal form
                and normal_boundingbox(r) == r)                                      # re-validation is a fixpoint


class NewLineString:
    target = "soundevent.data.geometries:LineString"
    types = {"coordinates": "List[List[float]]"}
    result = "Obj:soundevent.data.geometries.LineString"

    def raises_ValidationError(coordinates):
        return not valid_linestring(coordinates)

    def ensures(coordinates, result):
        r = result.coordinates
        return (result.type == "LineString" and r == normal_linestring(coordinates)
                and valid_linestring(r) and r[0][0] <= r[len(r) - 1][0]            # runs forward in time
                and normal_linestring(r) == r)


class NewPolygon:
    target = "soundevent.data.geometries:Polygon"
    types = {"coordinates": "List[List[List[float]]]"}
    result = "Obj:soundevent.data.geometries.Polygon"

    def raises_ValidationError(coordinates):
        return not valid_polygon(coordinates)

    def ensures(coordinates, result):
        return result.type == "Polygon" and result.coordinates == coordinates and valid_polygon(result.coordinates)


class NewMultiPoint:
    target = "soundevent.data.geometries:MultiPoint"
    types = {"coordinates": "List[List[float]]"}
    result = "Obj:soundevent.data.geometries.MultiPoint"

    def raises_ValidationError(coordinates):
        return not valid_multipoint(coordinates)

    def ensures(coordinates, result):
        return result.type == "MultiPoint" and result.coordinates == coordinates and valid_multipoint(result.coordinates)


class NewMultiLineString:
    target = "soundevent.data.geometries:MultiLineString"
    types = {"coordinates": "List[List[List[float]]]"}
    result = "Obj:soundevent.data.geometries.MultiLineString"

    def raises_ValidationError(coordinates):
        return not valid_multilinestring(coordinates)

    def ensures(coordinates, result):
        return (result.type == "MultiLineString" and result.coordinates == coordinates
                and valid_multilinestring(result.coordinates))


class NewMultiPolygon:
    target = "soundevent.data.geometries:MultiPolygon"
    types = {"coordinates": "List[List[List[List[float]]]]"}
    result = "Obj:soundevent.data.geometries.MultiPolygon"

    def raises_ValidationError(coordinates):
        return not valid_multipolygon(coordinates)

    def ensures(coordinates, result):
        return (result.type == "MultiPolygon" and result.coordinates == coordinates
                and valid_multipolygon(result.coordinates))


GEOMETRY_CONTRACTS = ["NewTimeStamp", "NewTimeInterval", "NewPoint", "NewBoundingBox", "NewLineString", "NewPolygon",
                      "NewMultiPoint", "NewMultiLineString", "NewMultiPolygon"]


# ---- geometry_validate (dict and attribute modes; the JSON mode is the dict mode after json.loads) ----------
def valid_by_tag(tag, c):
    if tag == "TimeStamp":
        return valid_timestamp(c)
    if tag == "TimeInterval":
        return valid_timeinterval(c)
    if tag == "Point":
        return valid_point(c)
    if tag == "BoundingBox":
        return valid_boundingbox(c)
    if tag == "LineString":
        return valid_linestring(c)
    if tag == "Polygon":
        return valid_polygon(c)
    if tag == "MultiPoint":
        return valid_multipoint(c)
    if tag == "MultiLineString":
        return valid_multilinestring(c)
    if tag == "MultiPolygon":
        return valid_multipolygon(c)
    return False


def normal_by_tag(tag, c):
    if tag == "BoundingBox":
        return normal_boundingbox(c)
    if tag == "LineString":
        return normal_linestring(c)
    return c


class GeometryValidate:
    """obj is a mapping / attribute object {type: tag, coordinates: c}; the driver fixes tag and mode."""
    target = "soundevent.data.geometries:geometry_validate"
    types = {}
    result = "Opq:Geometry"

    def raises_ValueError(obj):
        return not valid_by_tag(get_field(obj, "type"), get_field(obj, "coordinates"))

    def ensures(obj, result):
        tag = get_field(obj, "type")
        return (result.type == tag and class_tag(result) == tag
                and result.coordinates == normal_by_tag(tag, get_field(obj, "coordinates")))


def get_field(obj, name):
    if isinstance(obj, dict):
        return obj[name]
    return getattr(obj, name)


def class_tag(geometry):
    """the type tag declared by the *class* of the object (native: the class's own default)"""
    return type(geometry).model_fields["type"].default
