"""C13 — grouping returns the connected components of the similarity graph (soundevent.geometry.operations)."""
from contracts._rt import forall, exists, implies
from soundevent.geometry.operations import _compute_similarity_matrix, group_sound_events


def matrix_size(m):
    """(rows, cols) of the sparse matrix"""
    return (m.shape[0], m.shape[1])


def matrix_entry(m, a, b):
    """whether the sparse matrix has a non-zero entry at (a, b)"""
    return bool(m.toarray()[a][b] != 0)


class ComputeSimilarityMatrix:
    target = "soundevent.geometry.operations:_compute_similarity_matrix"
    types = {"sound_events": "List[Obj:soundevent.data.sound_events.SoundEvent]"}
    result = "Opq:SparseMatrix"

    def ensures(sound_events, comparison_fn, result):
        # n x n, symmetric, with an entry exactly at (a, b) for a != b whose events compare similar
        n = len(sound_events)
        return matrix_size(result) == (n, n) and forall(n, lambda a: forall(n, lambda b: matrix_entry(result, a, b) == (
            a != b and comparison_fn(sound_events[min(a, b)], sound_events[max(a, b)]))))
