"""Rebuild concrete Python values from the JSON written by pyvc.sym.concretise (native side)."""
from fractions import Fraction
import importlib


def resolve(qual):
    parts = qual.split(".")
    for k in range(len(parts), 0, -1):
        try:
            obj = importlib.import_module(".".join(parts[:k]))
        except ImportError:
            continue
        for p in parts[k:]:
            obj = getattr(obj, p)
        return obj
    raise ImportError(qual)


def target_callable(spec):
    mod, _, q = spec.partition(":")
    obj = importlib.import_module(mod)
    for p in q.split("."):
        obj = getattr(obj, p)
    return obj


def build(x, exact=False, raw=False):
    """raw=True: objects stay dicts of their fields (a contract's own build_inputs makes the real objects)."""
    if raw:
        if isinstance(x, dict):
            if "frac" in x or "tuple" in x:
                return build(x, exact) if "frac" in x else tuple(build(y, exact, True) for y in x["tuple"])
            if "obj" in x:
                return {k: build(v, exact, True) for k, v in x["fields"].items()}
            if "opaque" in x:
                return x["id"]
            return {k: build(v, exact, True) for k, v in x.items()}
        if isinstance(x, list):
            return [build(y, exact, True) for y in x]
        return x
    if isinstance(x, dict):
        if "frac" in x:
            fr = Fraction(x["frac"][0], x["frac"][1])
            if exact:
                return fr
            return int(fr) if fr.denominator == 1 and x.get("int") else float(fr)
        if "tuple" in x:
            return tuple(build(y, exact) for y in x["tuple"])
        if "dict" in x:
            return {build(k, exact): build(v, exact) for k, v in x["dict"]}
        if "obj" in x:
            cls = resolve(x["obj"])
            fields = {k: build(v, exact) for k, v in x["fields"].items()}
            return cls(**fields)
        if "opaque" in x:
            return x
        return {k: build(v, exact) for k, v in x.items()}
    if isinstance(x, list):
        return [build(y, exact) for y in x]
    return x
