"""Rebuild concrete Python values from the JSON written by pyvc.sym.concretise (native side)."""
from fractions import Fraction
import importlib


def resolve(qual):
    parts = qual.split(".")
    for k in range(len(parts), 0, -1):
        try:
            obj = importlib.import_module(".".join(parts[:k]))
        except ImportError:
            continue
        for p in parts[k:]:
            obj = getattr(obj, p)
        return obj
    raise ImportError(qual)


def target_callable(spec):
    mod, _, q = spec.partition(":")
    obj = importlib.import_module(mod)
    for p in q.split("."):
        obj = getattr(obj, p)
    return obj


def opaque_value(x):
    """a concrete stand-in for an opaque model value: equal ids give equal values, different ids different values"""
    import datetime
    import pathlib
    import uuid
    kind, ident = x["opaque"], str(x["id"])
    n = sum(ord(c) * (k + 1) for k, c in enumerate(ident)) % 100000
    if kind == "UUID":
        return uuid.uuid5(uuid.NAMESPACE_DNS, ident)
    if kind == "DateTime":
        return datetime.datetime(2020, 1, 1) + datetime.timedelta(seconds=n)
    if kind == "Date":
        return datetime.date(2020, 1, 1) + datetime.timedelta(days=n % 3000)
    if kind == "Time":
        return datetime.time(n % 24, n % 60)
    if kind == "Path":
        return pathlib.Path(ident.replace("!", "_") + ".wav")
    if kind == "Geometry" and x.get("bounds") and None not in x["bounds"]:
        # a real geometry with the model's bounds (and type, where that type is determined by its bounds)
        from soundevent import data
        t0, f0, t1, f1 = x["bounds"]
        kind_ = x.get("type")
        try:
            if kind_ == "TimeStamp" and t0 == t1:
                return data.TimeStamp(coordinates=t0)
            if kind_ == "TimeInterval":
                return data.TimeInterval(coordinates=[t0, t1])
            if kind_ in (None, "BoundingBox"):
                return data.BoundingBox(coordinates=[t0, f0, t1, f1])
            if kind_ == "Point" and t0 == t1 and f0 == f1:
                return data.Point(coordinates=[t0, f0])
            if kind_ == "LineString" and (t0 < t1 or f0 < f1):
                return data.LineString(coordinates=[[t0, f0], [t1, f1]])
        except Exception:
            pass
    return x


def build(x, exact=False, raw=False):
    """raw=True: objects stay dicts of their fields (a contract's own build_inputs makes the real objects)."""
    if raw:
        if isinstance(x, dict):
            if "frac" in x or "tuple" in x:
                return build(x, exact) if "frac" in x else tuple(build(y, exact, True) for y in x["tuple"])
            if "obj" in x:
                return {k: build(v, exact, True) for k, v in x["fields"].items()}
            if "opaque" in x:
                return x["id"]
            return {k: build(v, exact, True) for k, v in x.items()}
        if isinstance(x, list):
            return [build(y, exact, True) for y in x]
        return x
    if isinstance(x, dict):
        if "frac" in x:
            fr = Fraction(x["frac"][0], x["frac"][1])
            if exact:
                return fr
            return int(fr) if fr.denominator == 1 and x.get("int") else float(fr)
        if "tuple" in x:
            return tuple(build(y, exact) for y in x["tuple"])
        if "dict" in x:
            return {build(k, exact): build(v, exact) for k, v in x["dict"]}
        if "obj" in x:
            cls = resolve(x["obj"])
            fields = {k: build(v, exact) for k, v in x["fields"].items()}
            try:
                return cls(**fields)
            except Exception:
                # parts of the object the model does not constrain (unmodelled required fields) are left out:
                # pydantic does not re-validate model instances passed as field values
                if hasattr(cls, "model_construct"):
                    return cls.model_construct(**fields)
                raise
        if "opaque" in x:
            return opaque_value(x)
        return {k: build(v, exact) for k, v in x.items()}
    if isinstance(x, list):
        return [build(y, exact) for y in x]
    return x
