"""Replay a solver counterexample on the real code (runs under the repository's interpreter).

usage: python -m native.replay <replay.json>   -> prints one JSON line {"reproduced": bool, ...}
"""
import importlib
import inspect
import json
import sys

from native.build import build, target_callable


def call_pred(fn, values):
    names = list(inspect.signature(fn).parameters)
    return fn(*[values[n] for n in names])


def main(path):
    rec = json.load(open(path))
    cmod = importlib.import_module(rec["contract_module"])
    contract = getattr(cmod, rec["contract"])
    if hasattr(contract, "replay"):
        out = contract.replay(rec)
        print(json.dumps(out, default=str))
        return 1 if out.get("reproduced") else 0
    import soundevent
    target = target_callable(rec["target"])
    try:
        if hasattr(contract, "build_inputs"):
            args = contract.build_inputs({k: build(v, raw=True) for k, v in rec["inputs"].items()})
        else:
            args = {k: build(v) for k, v in rec["inputs"].items()}
    except Exception as e:  # the model is outside the real constructors' domain
        print(json.dumps(dict(reproduced=False, why=f"inputs not constructible: {type(e).__name__}: {e}")))
        return 0
    def has_placeholder(v, depth=0):
        if isinstance(v, dict):
            return "opaque" in v or any(has_placeholder(x, depth + 1) for x in v.values())
        if isinstance(v, (list, tuple)) and depth < 6:
            return any(has_placeholder(x, depth + 1) for x in v)
        return False
    if any(has_placeholder(v) for v in args.values()):
        # an opaque value of the model (a geometry, a file ...) for which there is no real counterpart: nothing to run
        print(json.dumps(dict(reproduced=False, why="an input is an opaque value of the model with no real counterpart")))
        return 0
    params = list(inspect.signature(target).parameters)
    call_args = {k: v for k, v in args.items() if k in params}
    out = dict(repo_file=soundevent.__file__, call=f"{rec['target']}(**{call_args!r})")
    if hasattr(contract, "requires") and not call_pred(contract.requires, args):
        out.update(reproduced=False, why="precondition false on the rebuilt inputs")
        print(json.dumps(out, default=str))
        return 0
    try:
        result = target(**call_args)
        if inspect.isgenerator(result):
            result = list(result)
        raised = None
    except Exception as e:
        raised, result = e, None
    excs = {k[len("raises_"):]: getattr(contract, k) for k in dir(contract) if k.startswith("raises_")}
    if raised is not None:
        out["observed"] = f"raised {type(raised).__name__}: {raised}"
        names = [c.__name__ for c in type(raised).__mro__]
        ok = any(n in excs and call_pred(excs[n], args) for n in names)
        out["expected"] = "no exception" if not ok else "this exception"
        out["reproduced"] = not ok
    else:
        out["observed"] = repr(result)
        must_raise = [n for n, f in excs.items() if call_pred(f, args)]
        if must_raise:
            out["expected"] = f"raise {must_raise}"
            out["reproduced"] = True
        elif hasattr(contract, "ensures"):
            vals = dict(args)
            vals["result"] = result
            ok = bool(call_pred(contract.ensures, vals))
            out["expected"] = "ensures(args, result) holds"
            out["reproduced"] = not ok
        else:
            out["reproduced"] = False
    print(json.dumps(out, default=str))
    return 1 if out["reproduced"] else 0


if __name__ == "__main__":
    sys.exit(main(sys.argv[1]))
