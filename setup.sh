#!/bin/sh
# Offline setup: nothing to build. Verifies the two interpreters the checks need are present.
set -e
cd "$(dirname "$0")"
python3-vt -c "import z3; print('z3', z3.get_version_string())"
/venv/bin/python -c "import sys; sys.path.insert(0, '/repo/src'); import os; os.chdir('/'); import soundevent; print('soundevent from', soundevent.__file__)"
mkdir -p evidence replays
