"""Prototype 3: collection adapters. Inline the real __init__ chain to build the adapter heap, run the real to_aoef,
then decide (a) every DataAdapter in the heap is emitted via values(), (b) each emitted snapshot equals the final store."""
import ast, glob, os, itertools
import z3
import proto2 as P
from proto2 import *

for rel in sorted(glob.glob(f"{P.SRC}/io/aoef/*.py")) + sorted(glob.glob(f"{P.SRC}/data/*.py")):
    P.load_classes(os.path.relpath(rel, P.SRC))

def is_data_adapter(cls):
    seen = set()
    def up(c):
        if c in seen or c not in CLASSES: return False
        seen.add(c)
        for b in CLASSES[c]["bases"]:
            b = b.split("[")[0]
            if b == "DataAdapter" or up(b): return True
        return False
    return up(cls)
def find_method(cls, name):
    while True:
        for m in CLASSES[cls]["node"].body:
            if isinstance(m, ast.FunctionDef) and m.name == name: return cls, m
        bases = [b.split("[")[0] for b in CLASSES[cls]["bases"] if b.split("[")[0] in CLASSES]
        if not bases: return None, None
        cls = bases[0]

HEAP = []
class AObj(Adapter):
    def __init__(s, cls):
        super().__init__(cls); s.cls = cls; HEAP.append(s)

def instantiate(cls, args, kwargs, cx):
    a = AObj(cls)
    owner, init = find_method(cls, "__init__")
    if init is None or owner == "DataAdapter": return a
    call_fn(owner, init, a, args, kwargs, cx)
    return a

def call_fn(owner, fn, self_obj, args, kwargs, cx):
    params = [p.arg for p in fn.args.args][1:]
    defaults = fn.args.defaults
    env = {"self": self_obj, "data": StrC("<module data>"), "__class__": owner}
    for p_, d_ in zip(params[len(params)-len(defaults):], defaults): env[p_] = ev(d_, env, cx)
    for p_, v in zip(params, args): env[p_] = v
    extra = {}
    for k, v in kwargs.items():
        if k in params: env[k] = v
        else: extra[k] = v
    if fn.args.kwarg: env["**" + fn.args.kwarg.arg] = extra
    return exec_body(fn.body, env, cx)

def exec_body(body, env, cx):
    for st in body:
        if isinstance(st, ast.Expr):
            if isinstance(st.value, ast.Constant): continue
            xev(st.value, env, cx); continue
        if isinstance(st, ast.Assign):
            t = st.targets[0]; v = xev(st.value, env, cx)
            if isinstance(t, ast.Attribute): xev(t.value, env, cx).attrs[t.attr] = v
            else: bind(t, v, env)
            continue
        if isinstance(st, ast.Return): return xev(st.value, env, cx)
        if isinstance(st, ast.For):
            src = xev(st.iter, env, cx); src = src.val if isinstance(src, Opt) else src
            i = fresh("i", I); e2 = dict(env); bind(st.target, src.elem(i), e2)
            cx.cond.append(z3.And(i >= 0, i < src.length)); exec_body(st.body, e2, cx); cx.cond.pop(); continue
        raise NotImplementedError(type(st).__name__)

def xev(n, env, cx):
    """extends proto2.ev with: adapter construction, super(), `X or Adapter()`, method dispatch on heap adapters"""
    if isinstance(n, ast.BoolOp) and isinstance(n.op, ast.Or):
        a = xev(n.values[0], env, cx)
        if isinstance(a, NoneV): return xev(n.values[1], env, cx)
        if isinstance(a, Adapter): return a
        return P.ev_BoolOp(n, env, cx)
    if isinstance(n, ast.Call):
        f = n.func
        kw = {k.arg: k.value for k in n.keywords if k.arg}
        star = [k.value for k in n.keywords if k.arg is None]
        if isinstance(f, ast.Name) and f.id in CLASSES and find_method(f.id, "to_aoef")[0]:
            kwargs = {k: xev(v, env, cx) for k, v in kw.items()}
            for sv in star: kwargs.update(env["**" + sv.id])
            return instantiate(f.id, [xev(a, env, cx) for a in n.args], kwargs, cx)
        if isinstance(f, ast.Attribute) and isinstance(f.value, ast.Call) and ast.unparse(f.value.func) == "super":
            cur = env["__class__"]; base = [b.split("[")[0] for b in CLASSES[cur]["bases"] if b.split("[")[0] in CLASSES][0]
            owner, fn = find_method(base, f.attr)
            if owner == "DataAdapter" and f.attr == "__init__": return NoneV()
            kwargs = {k: xev(v, env, cx) for k, v in kw.items()}
            for sv in star: kwargs.update(env["**" + sv.id])
            return call_fn(owner, fn, env["self"], [xev(a, env, cx) for a in n.args], kwargs, cx)
        if isinstance(f, ast.Attribute):
            recv = xev(f.value, env, cx) if not (isinstance(f.value, ast.Name) and f.value.id == "data") else None
            if isinstance(recv, AObj):
                args = [xev(a, env, cx) for a in n.args]
                if f.attr == "values":
                    cx.log.append((recv.cls, "values", n.lineno)); return Snapshot(recv.cls, cx.version.get(recv.cls, 0))
                if f.attr == "to_aoef":
                    if is_data_adapter(recv.cls) :
                        # DataAdapter.to_aoef contract with transitive effect: every adapter reachable from recv may grow
                        for b in reachable(recv): cx.version[b.cls] = cx.version.get(b.cls, 0) + 1
                        cx.log.append((recv.cls, "to_aoef", n.lineno))
                        key = Sym(fresh("key", Val), ("scalar", "key"))
                        return Rec(f"<aoef {recv.cls}>", {"uuid": key, "id": key})
                    owner, fn = find_method(recv.cls, "to_aoef")
                    return call_fn(owner, fn, recv, args, {}, cx)
    if isinstance(n, ast.ListComp):
        g = n.generators[0]; src = xev(g.iter, env, cx); src = src.val if isinstance(src, Opt) else src
        i = fresh("i", I); e2 = dict(env); bind(g.target, src.elem(i), e2)
        xev(n.elt, e2, cx)            # effects for a generic element
        return SList(src.length, lambda j: Sym(fresh("e", Val), ("scalar", "x")))
    if isinstance(n, ast.IfExp):
        xev(n.test, env, cx); a = xev(n.body, env, cx); b = xev(n.orelse, env, cx); return a
    if isinstance(n, ast.Call) and isinstance(n.func, ast.Name) and n.func.id in CLASSES:
        return Rec(n.func.id, {k.arg: xev(k.value, env, cx) for k in n.keywords if k.arg})
    if isinstance(n, ast.Attribute):
        base = xev(n.value, env, cx)
        if isinstance(base, Adapter): return base.attrs[n.attr]
        return field(base, n.attr)
    if isinstance(n, ast.Name): return env[n.id]
    return P.ev(n, env, cx)

def reachable(a, seen=None):
    seen = seen if seen is not None else []
    if a in seen: return seen
    seen.append(a)
    for v in a.attrs.values():
        if isinstance(v, AObj): reachable(v, seen)
    return seen

def check_collection(cls, data_cls):
    HEAP.clear(); cx = Ctx(); cx.version = {}
    top = instantiate(cls, [], {"audio_dir": Sym(z3.Const("audio_dir", Val), ("scalar", "Path"))}, cx)
    owner, fn = find_method(cls, "to_aoef")
    x = Sym(z3.Const("x", Val), ("model", data_cls))
    env_cls = cls
    out = call_fn(owner, fn, top, [x], {}, cx)
    print(f"--- {cls}: heap = {[a.cls for a in HEAP if a is not top]}")
    emitted = {v.name: (f, v.arr) for f, v in out.fields.items() if isinstance(v, Snapshot)}
    for a in HEAP:
        if a is top or not is_data_adapter(a.cls): continue
        if a.cls not in emitted:
            # emitted directly as a list of converted objects?
            direct = any(l[0] == a.cls and l[1] == "to_aoef" for l in cx.log) and a.cls in ("ClipAnnotationsAdapter", "ClipPredictionsAdapter", "AnnotationTaskAdapter")
            print(("OK " if direct else "!! ") + f"{a.cls}: " + ("emitted as the converted list itself" if direct else "store never emitted with values()"))
            continue
        f, ver = emitted[a.cls]; final = cx.version.get(a.cls, 0)
        print(("OK " if ver == final else "!! ") + f"{a.cls} -> field '{f}': snapshot version {ver}, final {final}" + ("" if ver == final else "  (store can still grow after the snapshot)"))
    # audio_dir threading (C18)
    ra = next(a for a in HEAP if a.cls == "RecordingAdapter")
    ad = ra.attrs.get("audio_dir")
    print(("OK " if isinstance(ad, Sym) and str(ad.t) == "audio_dir" else "!! ") + "audio_dir reaches RecordingAdapter unchanged")

for cls, dc in [("RecordingSetAdapter","RecordingSet"),("DatasetAdapter","Dataset"),("AnnotationSetAdapter","AnnotationSet"),("AnnotationProjectAdapter","AnnotationProject"),
                ("EvaluationSetAdapter","EvaluationSet"),("PredictionSetAdapter","PredictionSet"),("ModelRunAdapter","ModelRun"),("EvaluationAdapter","Evaluation")]:
    try: check_collection(cls, dc)
    except Exception as e:
        import traceback; traceback.print_exc(limit=4); print("!! prototype gap for", cls, type(e).__name__, e)
