import warnings; warnings.filterwarnings("ignore")
import itertools, json, types, numpy as np, xarray as xr, tempfile, os, soundfile as sf
from fractions import Fraction as Fr
from soundevent import data, arrays, audio
import soundevent.geometry as G
def tr(f):
    try: return ("ok", f())
    except Exception as e: return ("err", type(e).__name__)
MAXF=data.MAX_FREQUENCY
# ---- C03 entry point agreement on a lattice (Point, BoundingBox, TimeInterval, LineString)
vals=[-1e-9, 0, 5, MAXF, MAXF+1e-3]
dis=0; tot=0
def four(cls, coords):
    name=cls.__name__
    a=tr(lambda: cls(coordinates=coords))
    b=tr(lambda: data.geometry_validate({"type":name,"coordinates":coords}, mode="dict"))
    c=tr(lambda: data.geometry_validate(json.dumps({"type":name,"coordinates":coords})))
    d=tr(lambda: data.geometry_validate(types.SimpleNamespace(type=name, coordinates=coords), mode="attributes"))
    return [x[0] for x in (a,b,c,d)], a
for t,f in itertools.product(vals,vals):
    r,a=four(data.Point,[t,f]); tot+=1
    exp = "ok" if (t>=0 and 0<=f<=MAXF) else "err"
    if set(r)!={exp}: dis+=1; print("C03 Point",t,f,r)
for c in itertools.product([-1e-9,0,5,MAXF],repeat=4):
    r,a=four(data.BoundingBox,list(c)); tot+=1
    exp="ok" if (c[0]>=0 and c[2]>=0 and 0<=c[1]<=MAXF and 0<=c[3]<=MAXF) else "err"
    if set(r)!={exp}: dis+=1; print("C03 BBox",c,r)
    if exp=="ok":
        co=a[1].coordinates
        if not (co[0]<=co[2] and co[1]<=co[3]): print("C03 bbox not normal", c, co)
for n in range(0,4):
    for c in itertools.product([-1,0,5],repeat=n):
        r,a=four(data.TimeInterval,list(c)); tot+=1
        exp="ok" if (n==2 and c[0]>=0 and c[1]>=0 and c[0]<=c[1]) else "err"
        if set(r)!={exp}: dis+=1; print("C03 TI",c,r)
print("C03 lattice cases",tot,"disagreements",dis)
# ---- C12 lattice vs Fractions
pts=[0,1,2,3]; bad=0; tot=0
ivs=[(a,b) for a in pts for b in pts if a<=b]
for i1 in ivs:
    for i2 in ivs:
        for absv in [None,0,0.5,1,2]:
            for rel in [None,0,0.5,1]:
                if absv is not None and rel is not None: continue
                got=G.intervals_overlap(i1,i2,min_absolute_overlap=absv,min_relative_overlap=rel); tot+=1
                thr = Fr(0) if absv is None and rel is None else (Fr(absv) if absv is not None else Fr(rel)*min(i1[1]-i1[0], i2[1]-i2[0]))
                exp = (min(i1[1],i2[1])-max(i1[0],i2[0])) >= thr
                if got!=exp or got!=G.intervals_overlap(i2,i1,min_absolute_overlap=absv,min_relative_overlap=rel): bad+=1
print("C12 lattice",tot,"bad",bad)
# ---- C15 load_clip counts
d=tempfile.mkdtemp(); bad=0; tot=0; errs={}
for sr in [8000, 22050, 44100, 7919]:
    p=os.path.join(d,f"x{sr}.wav"); x=np.random.uniform(-.5,.5,(int(sr*1.0),2)); sf.write(p,x,sr,subtype="FLOAT")
    rec=data.Recording.from_file(p, compute_hash=False)
    full=audio.load_recording(rec)
    for s in [0, 0.1, 1/3, 0.123456789, 0.5, 0.999]:
        for e in [s+0.01, s+1/7, s+0.5, 1.0, 1.2]:
            if e<=s: continue
            r=tr(lambda: audio.load_clip(data.Clip(recording=rec,start_time=s,end_time=e))); tot+=1
            if r[0]=="err": errs[r[1]]=errs.get(r[1],0)+1; continue
            w=r[1]; off=int(np.floor(s*sr)); n=int(np.floor((e-s)*sr))
            ok = w.shape[0]==n and np.allclose(w.time.values, (off+np.arange(n))/sr, atol=1e-9/ sr*sr) 
            exp=np.zeros((n,2)); m=max(0,min(n, sr-off)); exp[:m]=full.values[off:off+m]
            ok = ok and np.array_equal(w.values, exp)
            if not ok: bad+=1; print("C15 bad", sr, s, e, w.shape, n)
print("C15 load_clip", tot, "bad", bad, "errs", errs)
# ---- C20 (frequency,time) template bins
t=arrays.create_time_range(0,1,step=0.1); f=arrays.create_frequency_range(0,500,step=100)
arr=xr.DataArray(np.zeros((len(f),len(t))),dims=["frequency","time"],coords={"frequency":f,"time":t})
bad=0; tot=0
for t0,t1 in [(0.2,0.5),(0.25,0.55),(0.0,0.9),(0.3,0.3),(0.05,0.15),(0.2,2.0)]:
    for f0,f1 in [(100,300),(150,350),(0,400),(0,1000)]:
        r=G.rasterize([data.BoundingBox(coordinates=[t0,f0,t1,f1])],arr).values  # dims (time, frequency)
        gi=lambda dim,v: arrays.get_coord_index(arr,dim,v,raise_error=False)
        exp=np.zeros((len(t),len(f))); exp[gi("time",t0):gi("time",t1), gi("frequency",f0):gi("frequency",f1)]=1; tot+=1
        if not np.array_equal(r,exp): bad+=1; print("C20 mismatch",(t0,t1,f0,f1)); print(r.T); print(exp.T)
print("C20 boxes",tot,"bad",bad)
print("C20 values len mismatch:", tr(lambda: G.rasterize([data.BoundingBox(coordinates=[0,0,1,100])],arr,values=[1,2])))
