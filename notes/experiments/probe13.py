import warnings; warnings.filterwarnings("ignore")
import numpy as np, xarray as xr, itertools
from soundevent.arrays import operations as aops
step=1.0; n=5; lo=0.0
coords=lo+step*np.arange(n)
arr=xr.DataArray(np.arange(1,n+1,dtype=float),dims=["time"],coords={"time":xr.Variable("time",coords,attrs={"step":step})})
shown=0
for kl in [0,1,3]:
    for kr in [0,1,3]:
        a=lo-kl*step; b=coords[-1]+kr*step
        for lc,rc in itertools.product([True,False],repeat=2):
            out=aops.extend_dim(arr,"time",start=a,stop=b,fill_value=-1,left_closed=lc,right_closed=rc)
            c=list(out.time.values)
            ks=[k for k in range(-kl-2,n+kr+3) if ((lo+k*step>=a) if lc else (lo+k*step>a)) and ((lo+k*step<=b) if rc else (lo+k*step<b))]
            exp=[lo+k*step for k in ks]
            if c!=exp and shown<8: shown+=1; print(f"start={a} stop={b} left_closed={lc} right_closed={rc}: got {c} expected {exp}")
