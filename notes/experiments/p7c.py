import z3, time
# relative-error model: fl(a op b) = (a op b)*(1+e), |e|<=eps
eps = z3.RealVal(2)**-53 if False else z3.Q(1, 2**53)
es = []
def E():
    e = z3.Real(f"e{len(es)}"); es.append(e); return e
def fl(x): return x*(1+E())
start, step = z3.Reals('start step'); N = z3.Int('N'); Nr = z3.ToReal(N)
ebig = z3.Real("ebig"); stop = (start + Nr*step)*(1+ebig)
diff = fl(stop - start); q = fl(diff/step)
nxt = fl(start+step); delta = fl(nxt - start)
def elem(kr): return fl(start + fl(kr*delta))
thr = fl(stop - step/2)   # step/2 exact
s = z3.Solver(); s.set("timeout", 120000)
s.add(step >= z3.Q(1,10**6), step <= 10, start >= 0, start <= 1000, N >= 1, N <= 100000)
# claim 1: N - 1/2 < q < N + 1/2
lastN = elem(Nr); lastNm1 = elem(Nr-1)
for e in es: s.add(e >= -eps, e <= eps)
s.add(ebig >= -8*eps, ebig <= 8*eps)
claim = z3.And(q > Nr - z3.Q(1,2), q < Nr + z3.Q(1,2), lastN >= thr, lastNm1 < thr)
s.add(z3.Not(claim))
t=time.time(); print(s.check(), round(time.time()-t,1), len(es))
