import warnings; warnings.filterwarnings("ignore")
import numpy as np, xarray as xr, traceback
from soundevent import data, arrays
from soundevent.arrays import operations as aops
from soundevent.geometry import rasterize, buffer_geometry, compute_bounds
# C17
for step in [0.01, 1/3, 0.1]:
    bad=0; tot=0
    for n in range(2,30):
        for w in range(n+1, n+30):
            for pos in ["start","end","center"]:
                coords = arrays.create_range_dim("time", 0, n*step, step=step)
                arr = xr.DataArray(np.ones(len(coords)), dims=["time"], coords={"time": coords})
                try:
                    out = aops.adjust_dim_width(arr, "time", w, position=pos)
                    tot+=1
                    if out.sizes["time"]!=w: bad+=1
                except Exception as e:
                    bad+=1; tot+=1
    print("C17 step",step,"bad",bad,"of",tot)
# C16 create_range_dim count
bad=[]
for step in [0.1, 1/44100, 0.01, 1/3, 0.3]:
    for n in range(1,2000):
        c = arrays.create_range_dim("t", 0.0, n*step, step=step)
        if len(c)!=n: bad.append((step,n,len(c)))
print("C16 count mismatches:", len(bad), bad[:5])
# C20
t = arrays.create_time_range(0, 1, step=0.1); f = arrays.create_frequency_range(0, 500, step=100)
arr_ft = xr.DataArray(np.zeros((len(f), len(t))), dims=["frequency","time"], coords={"frequency": f, "time": t})
arr_tf = xr.DataArray(np.zeros((len(t), len(f))), dims=["time","frequency"], coords={"frequency": f, "time": t})
box = data.BoundingBox(coordinates=[0.2, 100, 0.5, 300])
try:
    r = rasterize([box], arr_ft); print("C20 ft ok", r.dims, r.shape); print(r.values.T)
except Exception as e: print("C20 ft ERR", e)
try:
    r = rasterize([box], arr_tf); print("C20 tf ok", r.dims, r.shape)
except Exception as e: print("C20 tf ERR", type(e).__name__, str(e)[:200])
# C11
g = data.Point(coordinates=[0.0, 0.0])
print("C11", compute_bounds(buffer_geometry(g, 1, 100)))
g = data.LineString(coordinates=[[0.0, 10],[1, data.MAX_FREQUENCY]])
print("C11", compute_bounds(buffer_geometry(g, 1, 100)))
try:
    print("C11 zero buffers", buffer_geometry(data.Point(coordinates=[1,1]), 0, 0))
except Exception as e: print("C11 zero ERR", type(e).__name__, str(e)[:300])
