# Hand-built VC in the shape the generator would emit for ClipAdapter round trip (features + recording ref),
# to check z3 closes it with uninterpreted selectors, quantified comprehension facts and a dict-order axiom.
import z3, time
V = z3.DeclareSort('V'); I=z3.IntSort(); R=z3.RealSort()
ln = z3.Function('len', V, I); at = z3.Function('at', V, I, V)
f_features = z3.Function('f_features', V, V); f_term=z3.Function('f_term',V,V); f_value=z3.Function('f_value',V,R)
f_label=z3.Function('f_label',V,V); f_recording=z3.Function('f_recording',V,V); f_start=z3.Function('f_start',V,R)
key_rec = z3.Function('key_rec', V, V); loaded_rec = z3.Function('loaded_rec', V, V)   # from_id on the load side
h = z3.Function('h', V, V)   # loaded version of an object
pair_k = z3.Function('pair_k', V, V); pair_v = z3.Function('pair_v', V, R)
x = z3.Const('x', V)
i,j = z3.Ints('i j')
S = z3.Solver(); S.set("timeout", 20000)
feats = f_features(x)
# save side: D = {label(term(f)): value(f) for f in feats} if feats else None ; modelled as item list D (dict-order axiom, distinct keys)
D = z3.Const('D', V); isnone_D = z3.Bool('isnone_D')
S.add(z3.ForAll([i], ln(feats) >= 0))
S.add(isnone_D == (ln(feats) == 0))
S.add(z3.Implies(z3.Not(isnone_D), z3.And(ln(D)==ln(feats), z3.ForAll([i], z3.Implies(z3.And(i>=0,i<ln(feats)), z3.And(pair_k(at(D,i))==f_label(f_term(at(feats,i))), pair_v(at(D,i))==f_value(at(feats,i))))))))
# precondition: distinct labels (needed by the dict axiom) - carried as assumption
S.add(z3.ForAll([i,j], z3.Implies(z3.And(0<=i,i<j,j<ln(feats)), f_label(f_term(at(feats,i)))!=f_label(f_term(at(feats,j))))))
# load side: [Feature(term=term_from_key(name), value=value) for name,value in obj.features.items()] if obj.features else []
Lf = z3.Const('Lf', V)
tfk = z3.Function('term_from_key', V, V)
S.add(z3.ForAll([i], f_label(tfk(at(D,i))) == at(D,i)))  # placeholder unused
k = z3.Const('k', V)
S.add(z3.ForAll([k], f_label(tfk(k)) == k))            # from compat.term_from_key body: Term(label=key,...)
S.add(z3.Implies(isnone_D, ln(Lf)==0))
S.add(z3.Implies(z3.Not(isnone_D), z3.And(ln(Lf)==ln(D), z3.ForAll([i], z3.Implies(z3.And(i>=0,i<ln(D)), z3.And(f_term(at(Lf,i))==tfk(pair_k(at(D,i))), f_value(at(Lf,i))==pair_v(at(D,i))))))))
# goal: same length, and elementwise equal value and equal label (term reduced to label)
goal = z3.And(ln(Lf)==ln(feats), z3.ForAll([i], z3.Implies(z3.And(i>=0,i<ln(feats)), z3.And(f_value(at(Lf,i))==f_value(at(feats,i)), f_label(f_term(at(Lf,i)))==f_label(f_term(at(feats,i)))))))
S.push(); S.add(z3.Not(goal)); t=time.time(); print("features round trip:", S.check(), round(time.time()-t,2)); S.pop()
# mutated save side: value dropped to 0
