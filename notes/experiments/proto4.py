"""Prototype 4: label_to_tags (C10) from the real AST, path-forking executor with uninterpreted strings, dicts and an opaque tag_fn.
Compares every path's result with the docstring-cascade spec; expects exactly the two documented deviations."""
import ast, itertools, time
import z3
SRC="/repo/src/soundevent"
S = z3.DeclareSort("Str"); T = z3.DeclareSort("Term"); TAGS = z3.DeclareSort("TagList")
B = z3.BoolSort()
fn = next(n for n in ast.parse(open(f"{SRC}/io/crowsetta/labels.py").read()).body if isinstance(n, ast.FunctionDef) and n.name=="label_to_tags")
# ---- symbolic inputs
label = z3.Const("label", S)
class Opt:  # optional value of some sort
    def __init__(s, name, sort): s.isnone = z3.Bool(name+"_none"); s.val = z3.Const(name, sort); s.sort=sort
class Dict_:
    def __init__(s, name, vsort): s.isnone=z3.Bool(name+"_none"); s.has=z3.Function(name+"_has", S, B); s.get=z3.Function(name+"_get", S, vsort)
tag_fn_none = z3.Bool("tag_fn_none"); tag_fn_raises = z3.Function("tag_fn_raises", S, B); tag_fn_res = z3.Function("tag_fn_res", S, TAGS)
tag_mapping = Dict_("tag_mapping", TAGS); term_mapping = Dict_("term_mapping", T); key_mapping = Dict_("key_mapping", S)
key = Opt("key", S); term = Opt("term", T); fallback = z3.Const("fallback", S)
in_empty = z3.Bool("label_in_empty_labels")
listify = z3.Function("listify", TAGS, TAGS)          # tags if isinstance(tags, list) else [tags]
term_from_key = z3.Function("term_from_key", S, T)
single = z3.Function("single_tag", T, S, TAGS)        # [Tag(term=term, value=label)]
empty_list = z3.Const("empty_list", TAGS)

# ---- tiny path-forking executor specialised to the constructs of this function
class Path:
    def __init__(s, cond, key, term): s.cond=list(cond); s.key=key; s.term=term   # key/term: (isnone BoolRef, val)
results=[]   # (cond, result TAGS term)
def run(stmts, path, k=0):
    if k==len(stmts): return
    st=stmts[k]; src=ast.unparse(st)
    def cont(p): run(stmts, p, k+1)
    if isinstance(st, ast.Expr): return cont(path)
    if src.startswith("if label in empty_labels"):
        results.append((path.cond+[in_empty], empty_list)); path.cond.append(z3.Not(in_empty)); return cont(path)
    if src.startswith("if tag_fn is not None"):
        # try: tags = tag_fn(label); return listify(tags)  except ValueError: pass
        body=st.body[0]; assert isinstance(body, ast.Try) and ast.unparse(body.handlers[0].type)=="ValueError"
        results.append((path.cond+[z3.Not(tag_fn_none), z3.Not(tag_fn_raises(label))], listify(tag_fn_res(label))))
        path.cond.append(z3.Or(tag_fn_none, tag_fn_raises(label))); return cont(path)
    if src.startswith("if term_mapping is not None"):
        inner=st.body[0]; assert ast.unparse(inner.test)=="label in term_mapping" and ast.unparse(inner.body[0])=="term = term_mapping[label]"
        c=z3.And(z3.Not(term_mapping.isnone), term_mapping.has(label))
        p1=Path(path.cond+[c], path.key, (z3.BoolVal(False), term_mapping.get(label))); cont(p1)
        path.cond.append(z3.Not(c)); return cont(path)
    if isinstance(st, ast.If):
        test=ast.unparse(st.test)
        conds={"term is None and tag_mapping is not None": z3.And(path.term[0], z3.Not(tag_mapping.isnone)),
               "tag_mapping is not None": z3.Not(tag_mapping.isnone),
               "term is None and key_mapping is not None": z3.And(path.term[0], z3.Not(key_mapping.isnone)),
               "key_mapping is not None": z3.Not(key_mapping.isnone),
               "key is None": path.key[0], "term is None": path.term[0]}
        c=conds[test]
        body=ast.unparse(st.body[0])
        if body.startswith("if label in tag_mapping"):
            hit=z3.And(c, tag_mapping.has(label))
            results.append((path.cond+[hit], listify(tag_mapping.get(label))))
            path.cond.append(z3.Not(hit)); return cont(path)
        if body=="key = key_mapping.get(label)":
            p1=Path(path.cond+[c], (z3.Not(key_mapping.has(label)), key_mapping.get(label)), path.term); cont(p1)
            path.cond.append(z3.Not(c)); return cont(path)
        if body=="key = key_mapping.get(label, key)":
            p1=Path(path.cond+[c], (z3.If(key_mapping.has(label), False, path.key[0]), z3.If(key_mapping.has(label), key_mapping.get(label), path.key[1])), path.term); cont(p1)
            path.cond.append(z3.Not(c)); return cont(path)
        if body=="key = fallback":
            p1=Path(path.cond+[c], (z3.BoolVal(False), fallback), path.term); cont(p1)
            path.cond.append(z3.Not(c)); return cont(path)
        if body=="term = data.term_from_key(key)":
            p1=Path(path.cond+[c], path.key, (z3.BoolVal(False), term_from_key(path.key[1]))); cont(p1)
            path.cond.append(z3.Not(c)); return cont(path)
        raise NotImplementedError(src)
    if isinstance(st, ast.Return):
        assert ast.unparse(st.value)=="[data.Tag(term=term, value=label)]"
        results.append((path.cond, single(path.term[1], label))); return
    raise NotImplementedError(src)
run(fn.body, Path([], (key.isnone, key.val), (term.isnone, term.val)))
print("paths:", len(results))

# ---- the docstring cascade as spec
def spec():
    t_isnone, t_val = term.isnone, term.val
    tm_hit = z3.And(z3.Not(term_mapping.isnone), term_mapping.has(label))
    t_isnone2 = z3.And(t_isnone, z3.Not(tm_hit)); t_val2 = z3.If(tm_hit, term_mapping.get(label), t_val)
    tg_hit = z3.And(z3.Not(tag_mapping.isnone), tag_mapping.has(label))
    km_hit = z3.And(z3.Not(key_mapping.isnone), key_mapping.has(label))
    k_isnone = z3.And(key.isnone, z3.Not(km_hit)); k_val = z3.If(km_hit, key_mapping.get(label), key.val)
    k_val2 = z3.If(k_isnone, fallback, k_val)
    t_final = z3.If(t_isnone2, term_from_key(k_val2), t_val2)
    use_fn = z3.And(z3.Not(tag_fn_none), z3.Not(tag_fn_raises(label)))
    return z3.If(in_empty, empty_list, z3.If(use_fn, listify(tag_fn_res(label)), z3.If(tg_hit, listify(tag_mapping.get(label)), single(t_final, label))))
SPEC = spec()
bad=0
for i,(cond,res) in enumerate(results):
    s=z3.Solver(); s.set("timeout",20000); s.add(*cond); s.add(res != SPEC)
    r=s.check()
    if r==z3.sat:
        bad+=1; m=s.model()
        flags={str(d): m[d] for d in m.decls() if d.arity()==0 and z3.is_bool(m[d])}
        print(f"!! path {i}: deviates from the documented cascade; witness flags:", {k:v for k,v in flags.items()})
    elif r!=z3.unsat: print("?? path", i, r)
print("deviating paths:", bad)
