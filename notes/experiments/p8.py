import z3, time
U = z3.DeclareSort('U'); I = z3.IntSort()
# annotated ids: list A (len nA, atA); match targets: list T filtered (len nT, atT) -- as produced by comprehension summarisation
nA, nT = z3.Ints('nA nT'); atA = z3.Function('atA', I, U); atT = z3.Function('atT', I, U)
i,j = z3.Ints('i j'); x = z3.Const('x', U)
inA = lambda x: z3.Exists([i], z3.And(0<=i, i<nA, atA(i)==x))
inT = lambda x: z3.Exists([i], z3.And(0<=i, i<nT, atT(i)==x))
distinctT = z3.ForAll([i,j], z3.Implies(z3.And(0<=i,i<j,j<nT), atT(i)!=atT(j)))
# code: raise if len(T) != len(set(T)); raise if set(T) != set(A)   (builtin axiom: len(set(l))==len(l) <=> distinct(l))
accept_code = z3.And(distinctT, z3.ForAll([x], inT(x) == inA(x)))
# spec from statement: every annotated sound event is mentioned exactly once among targets, and every target is an annotated one
count_once = lambda x: z3.Exists([i], z3.And(0<=i,i<nT, atT(i)==x, z3.ForAll([j], z3.Implies(z3.And(0<=j,j<nT, atT(j)==x), j==i))))
spec = z3.And(z3.ForAll([x], z3.Implies(inA(x), count_once(x))), z3.ForAll([x], z3.Implies(inT(x), inA(x))))
base = [nA>=0, nT>=0]
for name, f in [("code=>spec", z3.And(accept_code, z3.Not(spec))), ("spec=>code", z3.And(spec, z3.Not(accept_code)))]:
    s=z3.Solver(); s.set("timeout",60000); s.add(base); s.add(f)
    t=time.time(); print(name, s.check(), round(time.time()-t,2))
# mutant: duplicate check dropped
s=z3.Solver(); s.set("timeout",60000); s.add(base); s.add(z3.ForAll([x], inT(x)==inA(x)), z3.Not(spec), nT<=3, nA<=3)
t=time.time(); r=s.check(); print("mutant", r, round(time.time()-t,2))
if r==z3.sat:
    m=s.model(); print(m.eval(nA), m.eval(nT), [m.eval(atT(k)) for k in range(3)], [m.eval(atA(k)) for k in range(3)])
