import z3, time
st,en,dur,hop = z3.Reals('st en dur hop'); j=z3.Int('j'); inc=z3.Bool('inc')
D = en-st
def floor(x): return z3.ToInt(x)
def ceil(x): return -z3.ToInt(-x)
pre = z3.And(st>=0, st<=en, dur>0, hop>0, j>=0)
# window j should be produced (spec): starts inside clip and (fits or include_incomplete)
sj = st + z3.ToReal(j)*hop
should = z3.And(sj < en, z3.Or(sj+dur <= en, inc))
for name, num in [("current floor", floor(D/hop)), ("fixed ceil", ceil(D/hop))]:
    s=z3.Solver(); s.set("timeout",60000)
    s.add(pre, should, z3.Not(j < num))
    t=time.time(); r=s.check(); print(name, r, round(time.time()-t,2), s.model() if r==z3.sat else "")
# soundness side: every produced window (j<num, not broken) is inside clip — and loop 'break' monotone: if window j breaks then all later break
