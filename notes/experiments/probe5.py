import warnings; warnings.filterwarnings("ignore")
import json, tempfile, itertools, random, datetime, uuid, os
from pathlib import Path
from soundevent import data, io
import soundevent.geometry as G
from soundevent.geometry import operations as gops
def tr(f):
    try: return f()
    except Exception as e: return f"ERR {type(e).__name__}: {str(e)[:120]}"

# ---------- build a rich graph for every collection type ----------
def term(l): return data.term_from_key(l)
u1 = data.User(name="ann", email="a@b.org", username="a", institution="i"); u2 = data.User(name="bob"); u3 = data.User(name="badge-only"); u4=data.User(name="rec-owner")
t1 = data.Tag(term=term("species"), value="a"); t2 = data.Tag(term=term("species"), value="b"); t3 = data.Tag(term=term("proj"), value="only-in-project"); t4 = data.Tag(term=term("pred"), value="only-in-pred")
n1 = data.Note(message="hi", created_by=u2, is_issue=True)
rec = data.Recording(path="/a/b.wav", duration=100, channels=2, samplerate=44100, time_expansion=10.0, hash="h", date=datetime.date(2020,1,2), time=datetime.time(3,4,5), latitude=1.5, longitude=-2.5, rights="r", owners=[u4], tags=[t1], features=[data.Feature(term=term("f1"), value=1.5)], notes=[n1])
rec2 = data.Recording(path="/a/c.wav", duration=10, channels=1, samplerate=8000)
clip = data.Clip(recording=rec, start_time=0, end_time=10, features=[data.Feature(term=term("cf"), value=2.0)])
geoms = [data.TimeStamp(coordinates=1), data.TimeInterval(coordinates=[1,2]), data.Point(coordinates=[1,100]), data.LineString(coordinates=[[1,100],[2,200]]),
         data.Polygon(coordinates=[[[1,100],[2,100],[2,200],[1,100]]]), data.BoundingBox(coordinates=[1,100,2,200]), data.MultiPoint(coordinates=[[1,100],[2,200]]),
         data.MultiLineString(coordinates=[[[1,100],[2,200]]]), data.MultiPolygon(coordinates=[[[[1,100],[2,100],[2,200],[1,100]]]]), None]
ses = [data.SoundEvent(recording=rec if i%2==0 else rec2, geometry=g, features=[data.Feature(term=term("sf"), value=float(i))]) for i,g in enumerate(geoms)]
seqp = data.Sequence(sound_events=ses[:2], features=[data.Feature(term=term("qf"), value=3.0)])
seqc = data.Sequence(sound_events=ses[2:4], parent=seqp)
anns = [data.SoundEventAnnotation(sound_event=se, tags=[t1] if i%2 else [], notes=[n1] if i==0 else [], created_by=u1 if i%3==0 else None) for i,se in enumerate(ses)]
seqa = data.SequenceAnnotation(sequence=seqc, tags=[t2], notes=[data.Note(message="n2")], created_by=u1)
ca = data.ClipAnnotation(clip=clip, sound_events=anns, sequences=[seqa], tags=[t2], notes=[data.Note(message="cn", created_by=u1)])
preds = [data.SoundEventPrediction(sound_event=se, score=0.5, tags=[data.PredictedTag(tag=t4, score=0.25)]) for se in ses]
seqpred = data.SequencePrediction(sequence=seqc, score=0.75, tags=[data.PredictedTag(tag=t1, score=0.5)])
cp = data.ClipPrediction(clip=clip, sound_events=preds, sequences=[seqpred], tags=[data.PredictedTag(tag=t2, score=0.125)], features=[data.Feature(term=term("pf"), value=4.0)])
task = data.AnnotationTask(clip=clip, status_badges=[data.StatusBadge(state=data.AnnotationState.completed, owner=u3), data.StatusBadge(state=data.AnnotationState.assigned)])
matches = [data.Match(source=p, target=a, affinity=0.5, score=0.5, metrics=[data.Feature(term=term("m"), value=0.5)]) for p,a in zip(preds, anns)]
ce = data.ClipEvaluation(annotations=ca, predictions=cp, matches=matches, metrics=[data.Feature(term=term("cm"), value=0.25)], score=0.5)
colls = {
 "recording_set": data.RecordingSet(recordings=[rec, rec2]),
 "dataset": data.Dataset(name="d", description="dd", recordings=[rec, rec2]),
 "annotation_set": data.AnnotationSet(clip_annotations=[ca]),
 "annotation_project": data.AnnotationProject(name="p", description="pd", instructions="ins", clip_annotations=[ca], tasks=[task], annotation_tags=[t3]),
 "evaluation_set": data.EvaluationSet(name="e", description="ed", clip_annotations=[ca], evaluation_tags=[t3]),
 "prediction_set": data.PredictionSet(clip_predictions=[cp]),
 "model_run": data.ModelRun(name="m", version="1", description="md", clip_predictions=[cp]),
 "evaluation": data.Evaluation(evaluation_task="x", clip_evaluations=[ce], metrics=[data.Feature(term=term("em"), value=0.75)], score=0.5),
}
from pydantic import BaseModel
def diff(a, b, path="", out=None, seen=None):
    out = [] if out is None else out
    if isinstance(a, BaseModel):
        if type(a) is not type(b): out.append((path, "type", type(a).__name__, type(b).__name__)); return out
        if isinstance(a, data.Term): 
            if a.label != b.label: out.append((path, "term label"))
            return out
        for f in type(a).model_fields:
            diff(getattr(a,f), getattr(b,f), path+"."+f, out)
    elif isinstance(a, (list, tuple)):
        if not isinstance(b,(list,tuple)) or len(a)!=len(b): out.append((path, "len", len(a), len(b) if hasattr(b,'__len__') else b)); return out
        for i,(x,y) in enumerate(zip(a,b)): diff(x,y,f"{path}[{i}]",out)
    else:
        if a != b: out.append((path, a, b))
    return out
d = tempfile.mkdtemp()
for name, obj in colls.items():
    p = f"{d}/{name}.json"
    r = tr(lambda: io.save(obj, p, audio_dir="/a"))
    if r is not None: print(name, "SAVE", r); continue
    doc = json.load(open(p))["data"]
    back = tr(lambda: io.load(p, audio_dir="/a"))
    if isinstance(back, str): print(name, "LOAD", back); continue
    ds = diff(obj, back)
    print(f"{name}: type={type(back).__name__} diffs={len(ds)}", ds[:6])
    # closure check
    ids = {}
    for key in ["users","tags","recordings","clips","sound_events","sequences","sound_event_annotations","sequence_annotations","clip_annotations","sound_event_predictions","sequence_predictions","clip_predictions","matches","clip_evaluations"]:
        ids[key] = [ (o.get("uuid") if "uuid" in o else o.get("id")) for o in (doc.get(key) or [])]
        if len(ids[key]) != len(set(ids[key])): print("  DUP ids in", key)
    def chk(where, ref, key):
        if ref is not None and ref not in ids[key]: print(f"  DANGLING {where} -> {key}")
    for o in doc.get("recordings") or []:
        for x in o.get("tags") or []: chk("recording.tags", x, "tags")
        for x in o.get("owners") or []: chk("recording.owners", x, "users")
        for nn in o.get("notes") or []: chk("recording.notes.created_by", nn.get("created_by"), "users")
    for o in doc.get("clips") or []: chk("clip.recording", o["recording"], "recordings")
    for o in doc.get("sound_events") or []: chk("se.recording", o["recording"], "recordings")
    for o in doc.get("sequences") or []:
        for x in o["sound_events"]: chk("seq.se", x, "sound_events")
        chk("seq.parent", o.get("parent"), "sequences")
        if o.get("parent") and ids["sequences"].index(o["parent"]) > ids["sequences"].index(o["uuid"]): print("  PARENT AFTER CHILD")
    for o in doc.get("sound_event_annotations") or []:
        chk("sea.se", o["sound_event"], "sound_events"); chk("sea.created_by", o.get("created_by"), "users")
        for x in o.get("tags") or []: chk("sea.tags", x, "tags")
        for nn in o.get("notes") or []: chk("sea.notes.created_by", nn.get("created_by"), "users")
    for o in doc.get("sequence_annotations") or []:
        chk("sqa.seq", o["sequence"], "sequences"); chk("sqa.created_by", o.get("created_by"), "users")
        for x in o.get("tags") or []: chk("sqa.tags", x, "tags")
    for o in doc.get("clip_annotations") or []:
        chk("ca.clip", o["clip"], "clips")
        for x in o.get("sound_events") or []: chk("ca.se", x, "sound_event_annotations")
        for x in o.get("sequences") or []: chk("ca.seq", x, "sequence_annotations")
        for x in o.get("tags") or []: chk("ca.tags", x, "tags")
        for nn in o.get("notes") or []: chk("ca.notes.created_by", nn.get("created_by"), "users")
    for o in doc.get("sound_event_predictions") or []:
        chk("sep.se", o["sound_event"], "sound_events")
        for x,_ in o.get("tags") or []: chk("sep.tags", x, "tags")
    for o in doc.get("sequence_predictions") or []:
        chk("sqp.seq", o["sequence"], "sequences")
        for x,_ in o.get("tags") or []: chk("sqp.tags", x, "tags")
    for o in doc.get("clip_predictions") or []:
        chk("cp.clip", o["clip"], "clips")
        for x in o.get("sound_events") or []: chk("cp.se", x, "sound_event_predictions")
        for x in o.get("sequences") or []: chk("cp.seq", x, "sequence_predictions")
        for x,_ in o.get("tags") or []: chk("cp.tags", x, "tags")
    for o in doc.get("matches") or []:
        chk("m.source", o.get("source"), "sound_event_predictions"); chk("m.target", o.get("target"), "sound_event_annotations")
    for o in doc.get("clip_evaluations") or []:
        chk("ce.ann", o["annotations"], "clip_annotations"); chk("ce.pred", o["predictions"], "clip_predictions")
        for x in o.get("matches") or []: chk("ce.matches", x, "matches")
    for o in doc.get("tasks") or []:
        chk("task.clip", o["clip"], "clips")
        for b in o.get("status_badges") or []: chk("task.badge.owner", b.get("owner"), "users")
    for x in doc.get("project_tags") or []: chk("project_tags", x, "tags")
    for x in doc.get("evaluation_tags") or []: chk("evaluation_tags", x, "tags")
