import z3, time
S,E,d,h = z3.Reals('S E d h'); inc = z3.Bool('inc'); L,k,i = z3.Ints('L k i')
def ceil(x): return -z3.ToInt(-x)
def start(j): return S + z3.ToReal(j)*h
def brk(j): return z3.Or(start(j) >= E, z3.And(start(j)+d > E, z3.Not(inc)))
def should(j): return z3.And(j>=0, start(j) < E, z3.Or(start(j)+d <= E, inc))
pre = z3.And(S>=0, S<=E, d>0, h>0)
for name,num in [("floor", z3.ToInt((E-S)/h)), ("ceil", ceil((E-S)/h))]:
    prefix = z3.And(L>=0, L<=num, z3.ForAll([i], z3.Implies(z3.And(i>=0,i<L), z3.Not(brk(i)))), z3.Implies(L<num, brk(L)))
    # completeness: every window that should be produced has index < L
    s=z3.Solver(); s.set("timeout",60000); s.add(pre, num>=0, prefix, should(k), z3.Not(k<L))
    t=time.time(); r=s.check(); print(name,"completeness:",r,round(time.time()-t,2), ({str(v):s.model()[v] for v in (S,E,d,h,k,L)} if r==z3.sat else ""))
    # soundness: every produced window should be produced
    s=z3.Solver(); s.set("timeout",60000); s.add(pre, num>=0, prefix, k>=0, k<L, z3.Not(should(k)))
    t=time.time(); r=s.check(); print(name,"soundness:",r,round(time.time()-t,2))
