import z3, time
# resample drift lemma: x = n*ratio >= 1 real, num = floor(x) >= 1, realised step = (1/target)* x/num ; advertised 1/target.
x = z3.Real('x'); num = z3.Int('num'); i = z3.Int('i'); st = z3.Real('st')
s = z3.Solver(); s.set("timeout", 60000)
s.add(x >= 1, num == z3.ToInt(x), st > 0, i >= 0, i < num)
real_step = st * x / z3.ToReal(num)
drift = z3.ToReal(i) * (real_step - st)
s.add(z3.Not(z3.And(drift < st, drift > -st)))
t=time.time(); print("resample drift:", s.check(), round(time.time()-t,2))
# spectrogram: realised hop vs advertised; find witness with smallest i
fs, w, h = z3.Reals('fs w h'); k = z3.Int('k')
nper = z3.ToInt(w*fs); nov = z3.ToInt((w-h)*fs)
s = z3.Solver(); s.set("timeout", 60000)
s.add(fs == 8000, w > 0, h > 0, h <= w, w <= 1, nper >= 1, nov >= 0, nov < nper, k >= 0, k <= 1000)
real_hop = z3.ToReal(nper - nov)/fs
d = z3.ToReal(k)*(real_hop - h)
s.add(z3.Or(d >= h, d <= -h))
t=time.time(); r=s.check(); print("spectrogram drift:", r, round(time.time()-t,2)); 
if r==z3.sat: 
    m=s.model(); print({str(v): m[v] for v in (w,h,k)})
