import z3, subprocess, time, itertools
R=z3.RealSort(); rnd=z3.Function('rnd',R,R)
s1,e1,s2,e2=z3.Reals('s1 e1 s2 e2')
mn=lambda a,b: z3.If(a<=b,a,b); mx=lambda a,b: z3.If(a>=b,a,b)
args=[]
def RND(x): args.append(x); return rnd(x)
d1=RND(e1-s1); d2=RND(e2-s2); m=RND(mn(e1,e2)-mx(s1,s2)); inter=mx(0,m); sm=RND(d1+d2); union=RND(sm-inter)
extra=[2*inter, inter, z3.RealVal(0)]   # helper terms the generator adds: doubling of each compared quantity
args+=extra
s=z3.Solver()
for a,b in itertools.permutations(args,2): s.add(z3.Implies(a<=b, rnd(a)<=rnd(b)))
for a in args: s.add(rnd(rnd(a))==rnd(a))
s.add(rnd(2*inter)==2*rnd(inter), rnd(0)==0)
for v in (s1,e1,s2,e2): s.add(rnd(v)==v, v>=0)
s.add(s1<=e1,s2<=e2, z3.Not(z3.And(inter>=0, inter<=union)))
t=time.time(); print("z3 QF:", s.check(), round(time.time()-t,2))
open("q_amono_qf.smt2","w").write("(set-logic QF_UFLRA)\n"+s.to_smt2())
t=time.time(); r=subprocess.run(["/usr/bin/cvc5","--tlimit=60000","q_amono_qf.smt2"],capture_output=True,text=True); print("cvc5 QF:", r.stdout.strip(), r.stderr.strip()[:100], round(time.time()-t,2))
