import warnings; warnings.filterwarnings("ignore")
import numpy as np, xarray as xr, itertools
from fractions import Fraction as Fr
from soundevent import arrays
from soundevent.arrays import operations as aops
def tr(f):
    try: return f()
    except Exception as e: return f"ERR {type(e).__name__}: {str(e)[:100]}"
stats={}
def note(k): stats[k]=stats.get(k,0)+1
for step in [1.0, 0.5, 0.1, 0.01, 1/3]:
    for start0 in [0.0, 0.5, 100.0]:
        for n in [1, 2, 5, 17]:
            coords=start0+step*np.arange(n)
            arr=xr.DataArray(np.arange(1,n+1,dtype=float),dims=["time"],coords={"time":xr.Variable("time",coords,attrs={"step":step})})
            lo,hi=coords[0],coords[-1]
            # ---- extend_dim: requested interval contains the axis
            for kl in [0,1,3]:
                for kr in [0,1,3]:
                    for off in [0.0, 0.25, 0.5]:
                        a=lo-(kl+off)*step; b=hi+(kr+off)*step
                        for lc,rc in itertools.product([True,False],repeat=2):
                            if not ((lc or a<lo) and (rc or b>hi)): continue
                            out=tr(lambda: aops.extend_dim(arr,"time",start=a,stop=b,fill_value=-1,left_closed=lc,right_closed=rc))
                            if isinstance(out,str): note(("extend ERR",out[:40])); continue
                            c=out.time.values
                            # expected lattice indices k with a (<=|<) lo+k*step (<=|<) b
                            ks=[k for k in range(-kl-2, n+kr+3) if ((lo+k*step>=a-1e-12) if lc else (lo+k*step>a+1e-12)) and ((lo+k*step<=b+1e-12) if rc else (lo+k*step<b-1e-12))]
                            exp=np.array([lo+k*step for k in ks])
                            ok = len(c)==len(exp) and np.allclose(c,exp,atol=1e-9)
                            if not ok: note(("extend lattice", step, lc, rc, "off",off)); 
                            else:
                                # data attachment
                                vals=out.values; okd=all((vals[i]==(ks[i]+1) if 0<=ks[i]<n else vals[i]==-1) for i in range(len(ks)))
                                if not okd: note(("extend data", step))
            # ---- crop_dim
            if n>=5:
                for a,b in [(coords[1],coords[3]),(coords[1]+step/2,coords[3]+step/2),(coords[0],coords[-1]),(coords[1],coords[3]+2e-6),(coords[1]-2e-6 if coords[1]-2e-6>=lo else coords[1],coords[3])]:
                    for lc,rc in itertools.product([True,False],repeat=2):
                        out=tr(lambda: aops.crop_dim(arr,"time",start=a,stop=b,left_closed=lc,right_closed=rc))
                        if isinstance(out,str): note(("crop ERR",out[:40])); continue
                        exp=[x for x in coords if ((x>=a) if lc else (x>a)) and ((x<=b) if rc else (x<b))]
                        got=list(out.time.values)
                        if got!=exp: note(("crop", step, lc, rc, "a-on-coord" if a in coords else "a-off", "b-on-coord" if b in coords else ("b-eps" if abs(b-coords[3])<1e-5 else "b-off")))
for k,v in sorted(stats.items(), key=str): print(k,v)
