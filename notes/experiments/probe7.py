import warnings; warnings.filterwarnings("ignore")
import itertools, random, numpy as np, shapely
from soundevent import data
import soundevent.geometry as G
from soundevent.evaluation import compute_affinity
def tr(f):
    try: return f()
    except Exception as e: return f"ERR {type(e).__name__}: {str(e)[:150]}"
random.seed(2)
MAXF=data.MAX_FREQUENCY
def rand_geom(kind, edge=False):
    r=lambda: round(random.uniform(0,10),3) if not (edge and random.random()<.3) else 0.0
    f=lambda: round(random.uniform(0,20000),1) if not (edge and random.random()<.3) else random.choice([0.0, float(MAXF)])
    pts=lambda n: [[r(),f()] for _ in range(n)]
    if kind=="TimeStamp": return data.TimeStamp(coordinates=r())
    if kind=="TimeInterval": a,b=sorted([r(),r()]); return data.TimeInterval(coordinates=[a,b])
    if kind=="Point": return data.Point(coordinates=[r(),f()])
    if kind=="LineString": return data.LineString(coordinates=sorted(pts(3)))
    if kind=="Polygon":
        t0,f0=r(),min(f(), MAXF-2000); return data.Polygon(coordinates=[[[t0,f0],[t0+2,f0],[t0+2,f0+1000],[t0,f0+1000],[t0,f0]]])
    if kind=="BoundingBox": return data.BoundingBox(coordinates=[r(),f(),r(),f()])
    if kind=="MultiPoint": return data.MultiPoint(coordinates=pts(3))
    if kind=="MultiLineString":
        ls=[]
        for _ in range(2):
            p=sorted(pts(2)); 
            if p[0][0]==p[1][0]: p[1][0]+=0.5
            ls.append(p)
        return data.MultiLineString(coordinates=ls)
    if kind=="MultiPolygon":
        t0,f0=r(),min(f(), MAXF-5000); return data.MultiPolygon(coordinates=[[[[t0,f0],[t0+1,f0],[t0+1,f0+1000],[t0,f0]]],[[[t0+3,f0+2000],[t0+4,f0+2000],[t0+4,f0+3000],[t0+3,f0+2000]]]])
kinds=["TimeStamp","TimeInterval","Point","LineString","Polygon","BoundingBox","MultiPoint","MultiLineString","MultiPolygon"]
# C11
stats={}
for k in kinds:
    for it in range(150):
        g=rand_geom(k, edge=True)
        for tb,fb in [(0,0),(0.5,0),(0,300),(0.5,300),(100,1e7),(0.01,100)]:
            res=tr(lambda: G.buffer_geometry(g,tb,fb))
            if isinstance(res,str): stats[(k,"ERR",res[:60])]=stats.get((k,"ERR",res[:60]),0)+1; continue
            b0=G.compute_bounds(g); b1=G.compute_bounds(res)
            tol=1e-6
            exp=(max(b0[0]-tb,0), max(b0[1]-fb,0), b0[2]+tb, min(b0[3]+fb,MAXF))
            ok_bounds = b1[0]<=exp[0]+tol and b1[1]<=exp[1]+tol*1e3 and b1[2]>=exp[2]-tol and b1[3]>=exp[3]-tol*1e3
            if not ok_bounds: stats[(k,"bounds",(tb,fb))]=stats.get((k,"bounds",(tb,fb)),0)+1
            s0=G.geometry_to_shapely(g); s1=G.geometry_to_shapely(res)
            if k not in("TimeStamp","TimeInterval") and not s1.buffer(1e-6).covers(s0): stats[(k,"contain",(tb,fb))]=stats.get((k,"contain",(tb,fb)),0)+1
print("C11 issues:"); [print("  ",k,v) for k,v in sorted(stats.items(), key=str)]
print("C11 neg:", tr(lambda: G.buffer_geometry(rand_geom("Point"), -1, 0)))
# C06 symmetry / range / self over 81 pairs
asym=0; out=0; mx=0; mn=1; selfbad=0; tot=0; err={}
for k1 in kinds:
    for k2 in kinds:
        for it in range(25):
            a=rand_geom(k1); b=rand_geom(k2)
            x=tr(lambda: compute_affinity(a,b,0.05,200)); y=tr(lambda: compute_affinity(b,a,0.05,200))
            if isinstance(x,str) or isinstance(y,str): err[(k1,k2,str(x)[:50])]=err.get((k1,k2,str(x)[:50]),0)+1; continue
            tot+=1
            if x!=y: asym+=1; mxd=abs(x-y)
            if not (0<=x<=1): out+=1
            mx=max(mx,x)
    s=tr(lambda: compute_affinity(a,a,0.05,200))
print("C06 tot",tot,"asym(exact)",asym,"out of range",out,"max",mx, "errors", err)
for k in kinds:
    vals=[compute_affinity(g,g,0.05,200) for g in [rand_geom(k) for _ in range(200)]]
    print("  self",k,min(vals),max(vals))
mxd=0
for k1 in kinds:
    for k2 in kinds:
        for it in range(25):
            a=rand_geom(k1); b=rand_geom(k2)
            x=compute_affinity(a,b,0.05,200); y=compute_affinity(b,a,0.05,200)
            if x!=y: mxd=max(mxd, abs(x-y)/max(x,y))
print("C06 max relative asymmetry", mxd)
