import warnings; warnings.filterwarnings("ignore")
import itertools, random, numpy as np, xarray as xr
from soundevent import data, arrays
import soundevent.geometry as G
from soundevent.geometry import operations as gops
from soundevent.evaluation import create_tag_encoder, classification_encoding, multilabel_encoding, prediction_encoding
def tr(f):
    try: return f()
    except Exception as e: return f"ERR {type(e).__name__}: {str(e)[:120]}"
random.seed(0)
# ---- C05 positions & bounds on random geometries
def rand_geoms():
    r=lambda: round(random.uniform(0,10),3); f=lambda: round(random.uniform(0,20000),1)
    pts=lambda n: [[r(),f()] for _ in range(n)]
    yield data.TimeStamp(coordinates=r())
    a,b=sorted([r(),r()]); yield data.TimeInterval(coordinates=[a,b])
    yield data.Point(coordinates=[r(),f()])
    yield data.LineString(coordinates=pts(3))
    t0,f0=r(),f(); yield data.Polygon(coordinates=[[[t0,f0],[t0+2,f0],[t0+2,f0+1000],[t0,f0+1000],[t0,f0]],[[t0+.5,f0+100],[t0+1,f0+100],[t0+1,f0+200],[t0+.5,f0+100]]])
    yield data.BoundingBox(coordinates=[r(),f(),r(),f()])
    yield data.MultiPoint(coordinates=pts(4))
    yield data.MultiLineString(coordinates=[sorted(pts(2)), sorted(pts(3))]) if True else None
def flat(c):
    if isinstance(c,(int,float)): return [c]
    out=[]; 
    for x in c: out+=flat(x)
    return out
bad=0
for it in range(300):
    for g in rand_geoms():
        try:
            b = G.compute_bounds(g)
        except Exception as e:
            print("bounds ERR", g.type, e); continue
        if g.type=="TimeStamp": exp=(g.coordinates,0,g.coordinates,data.MAX_FREQUENCY)
        elif g.type=="TimeInterval": exp=(g.coordinates[0],0,g.coordinates[1],data.MAX_FREQUENCY)
        else:
            fl=flat(g.coordinates); ts=fl[0::2]; fs=fl[1::2]; exp=(min(ts),min(fs),max(ts),max(fs))
        if tuple(b)!=tuple(float(x) for x in exp): bad+=1; print("C05 bounds mismatch", g.type, b, exp)
        s,l,e,h=b
        table={"bottom-left":(s,l),"bottom-right":(e,l),"top-left":(s,h),"top-right":(e,h),"center-left":(s,(l+h)/2),"center-right":(e,(l+h)/2),"top-center":((s+e)/2,h),"bottom-center":((s+e)/2,l),"center":((s+e)/2,(l+h)/2)}
        for pos,exp in table.items():
            got=G.get_geometry_point(g,pos)
            if tuple(got)!=exp: bad+=1; print("C05 pos", g.type,pos,got,exp)
        for pos in ["centroid","point_on_surface"]:
            x,y=G.get_geometry_point(g,pos)
            if not (s-1e-9<=x<=e+1e-9 and l-1e-6<=y<=h+1e-6): bad+=1; print("C05 inside", g.type,pos,(x,y),b)
        feats={f.term.label:f.value for f in G.compute_geometric_features(g)}
print("C05 bad:", bad, "feature labels example:", feats)
# ---- C13 all graphs up to 5 nodes
rec = data.Recording(path="a.wav", duration=10, channels=1, samplerate=8000)
def comps(n, edges):
    par=list(range(n))
    def find(x):
        while par[x]!=x: x=par[x]
        return x
    for a,b in edges: par[find(a)]=find(b)
    groups={}
    for i in range(n): groups.setdefault(find(i),[]).append(i)
    return sorted(groups.values())
badg=0; tot=0
for n in range(0,6):
    ses=[data.SoundEvent(recording=rec, geometry=data.TimeStamp(coordinates=i)) for i in range(n)]
    idx={se.uuid:i for i,se in enumerate(ses)}
    pairs=list(itertools.combinations(range(n),2))
    for mask in range(2**len(pairs)):
        edges=[p for k,p in enumerate(pairs) if mask>>k&1]
        es=set(edges)
        calls=[]
        def cmp(a,b):
            i,j=idx[a.uuid],idx[b.uuid]; calls.append((i,j)); return (min(i,j),max(i,j)) in es
        res=tr(lambda: gops.group_sound_events(ses,cmp))
        tot+=1
        if isinstance(res,str): badg+=1; print("C13 ERR n=",n,res); break
        got=sorted([ [idx[s.uuid] for s in q.sound_events] for q in res])
        if got!=comps(n,edges) or any(i==j for i,j in calls): badg+=1; print("C13 mismatch", n, edges, got)
print("C13 graphs:", tot, "bad:", badg)
# ---- C16 get_coord_index
for step in [1.0, 0.1, 1/3]:
    c=arrays.create_range_dim("time",0,10*step,step=step); arr=xr.DataArray(np.zeros(len(c)),dims=["time"],coords={"time":c})
    vals=c.data
    bad16=0
    for i in range(len(vals)):
        for v in [vals[i], vals[i]+step/2, np.nextafter(vals[i]+step, -1) if i<len(vals)-1 else vals[i]]:
            if v>vals[-1]: continue
            got=arrays.get_coord_index(arr,"time",v)
            exp=max(k for k in range(len(vals)) if vals[k]<=v)
            if got!=exp: bad16+=1; print("C16 idx", step, v, got, exp)
    print("C16 step",step,"bad",bad16,"below:",tr(lambda: arrays.get_coord_index(arr,"time",-1)),"clamp:",arrays.get_coord_index(arr,"time",-1,raise_error=False),arrays.get_coord_index(arr,"time",1e9,raise_error=False))
a2=xr.DataArray(np.zeros((3,4)),dims=["time","frequency"],coords={"time":[0,1,2],"frequency":[0,10,20,30]})
arrays.set_value_at_pos(a2, 7, time=1.5, frequency=10); print("C16 set cell:\n", a2.values)
a3=xr.DataArray(np.zeros((3,4)),dims=["time","frequency"],coords={"time":[0,1,2],"frequency":[0,10,20,30]})
print("C16 set slice:", tr(lambda: arrays.set_value_at_pos(a3, [1,2,3,4], time=1).values.tolist()))
# ---- C19
T=lambda l,n=None: data.Term(label=l, name=n or f"soundevent:{l}", definition="Unknown")
ta=data.Tag(term=T("sp"),value="a"); tb=data.Tag(term=T("sp"),value="b"); tc=data.Tag(term=T("sp","other:sp"),value="a"); td=data.Tag(term=data.Term(label="sp2",name="soundevent:sp",definition="x"),value="a")
enc=create_tag_encoder([ta,tb])
print("C19 encode:", enc.encode(ta), enc.encode(tb), enc.encode(tc), enc.encode(td), "decode∘encode", [enc.encode(enc.decode(i)) for i in range(2)])
print("C19 class:", classification_encoding([tc,tb,ta],enc), multilabel_encoding([tc,ta,ta],enc).tolist(), prediction_encoding([data.PredictedTag(tag=ta,score=0.3),data.PredictedTag(tag=tc,score=0.9),data.PredictedTag(tag=ta,score=0.6)],enc).tolist())
print("C19 hash:", ta==data.Tag(term=T("sp"),value="a"), hash(ta)==hash(data.Tag(term=T("sp"),value="a")), tr(lambda: hash(data.Clip(recording=rec,start_time=0,end_time=1))))
f1=data.Feature(term=T("x"),value=1); f2=data.Feature(term=T("x"),value=1.0); print("C19 feat:", f1==f2, hash(f1)==hash(f2))
