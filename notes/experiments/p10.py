# Can cvc5 re-check what z3 proved?  Export a few of the prototype queries as SMT-LIB2 and run /usr/bin/cvc5 and the cvc5 1.4 python API.
import z3, subprocess, time, tempfile, os, sys
sys.argv=['x']
def export(name, solver):
    txt = "(set-logic ALL)\n" + solver.to_smt2()
    p = f"/tmp/scratch/{name}.smt2"; open(p,"w").write(txt); return p
# 1. A-mono IoU range
import importlib.util
def run_cvc5(p, extra=()):
    t=time.time()
    try:
        r = subprocess.run(["/usr/bin/cvc5","--tlimit=60000",*extra,p],capture_output=True,text=True,timeout=90)
        out=(r.stdout+r.stderr).strip().splitlines()[:2]
    except subprocess.TimeoutExpired: out=["timeout"]
    return out, round(time.time()-t,2)
# rebuild p1c query
R=z3.RealSort(); rnd=z3.Function('rnd',R,R); x,y=z3.Reals('x y')
ax=[z3.ForAll([x,y],z3.Implies(x<=y,rnd(x)<=rnd(y))), z3.ForAll([x],rnd(rnd(x))==rnd(x)), z3.ForAll([x],rnd(2*x)==2*rnd(x)), rnd(0)==0]
s1,e1,s2,e2=z3.Reals('s1 e1 s2 e2')
mn=lambda a,b: z3.If(a<=b,a,b); mx=lambda a,b: z3.If(a>=b,a,b)
d1=rnd(e1-s1); d2=rnd(e2-s2); m=rnd(mn(e1,e2)-mx(s1,s2)); inter=mx(0,m); sm=rnd(d1+d2); union=rnd(sm-inter)
s=z3.Solver(); s.add(ax)
for v in (s1,e1,s2,e2): s.add(rnd(v)==v, v>=0)
s.add(s1<=e1,s2<=e2, z3.Not(z3.And(inter>=0, inter<=union)))
print("A-mono IoU  z3:", s.check(), " cvc5:", run_cvc5(export("q_amono", s)))
# 2. nested validator equivalence (from p2)
I=z3.IntSort(); n0=z3.Int('n0'); n1=z3.Function('n1',I,I); T=z3.Function('T',I,I,R); p,r=z3.Ints('p r')
rng=lambda i,n: z3.And(i>=0,i<n)
code=z3.And(z3.Not(n0<1), z3.ForAll([p], z3.Implies(rng(p,n0), z3.And(z3.Not(n1(p)<3), z3.ForAll([r], z3.Implies(rng(r,n1(p)), z3.Not(T(p,r)<0)))))))
spec=z3.And(n0>=1, z3.ForAll([p], z3.Implies(rng(p,n0), n1(p)>=3)), z3.ForAll([p,r], z3.Implies(z3.And(rng(p,n0),rng(r,n1(p))), T(p,r)>=0)))
s=z3.Solver(); s.add(code, z3.Not(spec)); print("validator   z3:", s.check(), " cvc5:", run_cvc5(export("q_valid", s)))
# 3. segment_clip completeness with ceil (NRA + ToInt)
S,E,d,h=z3.Reals('S E d h'); j=z3.Int('j'); inc=z3.Bool('inc')
sj=S+z3.ToReal(j)*h
s=z3.Solver(); s.add(S>=0,S<=E,d>0,h>0,j>=0, sj<E, z3.Or(sj+d<=E,inc), z3.Not(j < -z3.ToInt(-((E-S)/h))))
print("segment     z3:", s.check(), " cvc5:", run_cvc5(export("q_seg", s), ["--nl-ext-tplanes"]))
