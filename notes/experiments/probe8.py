import warnings; warnings.filterwarnings("ignore")
import random, json, shapely
from soundevent import data
import soundevent.geometry as G
MAXF=data.MAX_FREQUENCY
g=data.LineString(coordinates=[[1.0,1000.0],[2.0,3000.0],[3.0,2000.0]])
for tb,fb in [(0.5,300),(0.01,100),(0.5,0),(0,300)]:
    r=G.buffer_geometry(g,tb,fb); print((tb,fb), G.compute_bounds(g), "->", G.compute_bounds(r), r.type)
# the KeyError case: search
random.seed(2)
for it in range(3000):
    r_=lambda: round(random.uniform(0,10),3) if random.random()>.3 else 0.0
    f_=lambda: round(random.uniform(0,20000),1) if random.random()>.3 else random.choice([0.0,float(MAXF)])
    pts=sorted([[r_(),f_()] for _ in range(3)])
    try: g=data.LineString(coordinates=pts)
    except Exception: continue
    for tb,fb in [(0,0),(0.5,0),(0,300)]:
        try: G.buffer_geometry(g,tb,fb)
        except KeyError as e:
            shp=G.geometry_to_shapely(g)
            print("KeyError for", pts, (tb,fb)); 
            import numpy as np
            factor=[1/tb if tb>0 else 1e9, 1/fb if fb>0 else 1e9]
            t=shapely.transform(shp, lambda x: x*factor); b=shapely.buffer(t,1,cap_style="round",join_style="mitre"); b=shapely.transform(b, lambda x: x/factor)
            b=shapely.clip_by_rect(b,0,0,b.bounds[2]+1,MAXF); print(json.loads(shapely.to_geojson(b))["type"], b.is_empty); raise SystemExit
