import z3, time
# np.arange(start, stop, step) length for doubles: len = ceil((stop - start)/step)  (numpy: _arange_safe_ceil_to_intp((stop - start)/delta))
F = z3.Float64()
RNE = z3.RNE()
ce, step = z3.FP('ce', F), z3.FP('step', F)
def chk(extra, timeout=120000):
    s = z3.Solver(); s.set("timeout", timeout)
    ex = z3.FPVal(float(extra), F)
    start = z3.fpAdd(RNE, ce, step)
    stop = z3.fpAdd(RNE, start, z3.fpMul(RNE, ex, step))
    q = z3.fpDiv(RNE, z3.fpSub(RNE, stop, start), step)
    ln = z3.fpRoundToIntegral(z3.RTP(), q)
    s.add(z3.fpGEQ(step, z3.FPVal(1e-6, F)), z3.fpLEQ(step, z3.FPVal(10.0, F)))
    s.add(z3.fpGEQ(ce, z3.FPVal(0.0, F)), z3.fpLEQ(ce, z3.FPVal(1000.0, F)))
    s.add(z3.Not(z3.fpEQ(ln, ex)))
    t=time.time(); r = s.check(); dt=time.time()-t
    m = s.model() if r==z3.sat else None
    return r, dt, m
for extra in [1,3,7]:
    r,dt,m = chk(extra)
    print(extra, r, round(dt,1), m)
