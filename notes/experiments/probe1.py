import warnings; warnings.filterwarnings("ignore")
from soundevent import data, operations
from soundevent.geometry import operations as gops
import soundevent.geometry as G
rec = data.Recording(path="a.wav", duration=100, channels=1, samplerate=44100)
clip = data.Clip(recording=rec, start_time=0, end_time=10)
print("C14 3,3,incl:", [(c.start_time,c.end_time) for c in operations.segment_clip(clip, 3, 3, include_incomplete=True)])
print("C14 1,4:", [(c.start_time,c.end_time) for c in operations.segment_clip(clip, 1, 4)])
print("C14 0.1:", len(list(operations.segment_clip(data.Clip(recording=rec,start_time=0,end_time=1), 0.1, 0.1))))
# C12
print(G.intervals_overlap((0,1),(1,2)), G.intervals_overlap((0,1),(2,3)))
# C07
from soundevent.evaluation import match_geometries, compute_affinity
a = data.BoundingBox(coordinates=[0,0,1,1000]); b = data.BoundingBox(coordinates=[5,0,6,1000])
print("C07:", list(match_geometries([a],[b])))
print("C07 empty:", list(match_geometries([],[b])), list(match_geometries([],[])))
# C06
import random
random.seed(1)
mx=0
for i in range(2000):
    t=random.random()*10; f=random.random()*10000
    p = data.Point(coordinates=[t,f])
    v = compute_affinity(p,p)
    mx=max(mx,v)
print("C06 max self affinity point:", mx)
mx=0
for i in range(2000):
    pts=[[random.random()*10, random.random()*10000] for _ in range(3)]
    p = data.LineString(coordinates=pts)
    v = compute_affinity(p,p); mx=max(mx,v)
print("C06 max self affinity line:", mx)
