import warnings; warnings.filterwarnings("ignore")
import json, tempfile
from soundevent import data, io
from soundevent.io import crowsetta as cio
t = data.Tag(term=data.term_from_key("species"), value="a")
def tr(f):
    try: return f()
    except Exception as e: return f"ERR {type(e).__name__}: {str(e)[:90]}"
print("C10 select_by_key+value_only:", tr(lambda: cio.label_from_tags([t], select_by_key="species", value_only=True)))
print("C10 key + key_mapping miss:", tr(lambda: cio.label_to_tags("dog", key_mapping={"bat":"animal"}, key="pet")))
T2 = data.term_from_key("explicit")
print("C10 term + tag_mapping hit:", tr(lambda: cio.label_to_tags("dog", tag_mapping={"dog": t}, term=T2)))
print("C10 index on 1 tag:", tr(lambda: cio.label_from_tags([t], index=5)))
# C03
print("C03 tuple:", tr(lambda: data.Point(coordinates=(1, 2))))
print("C03 nan:", tr(lambda: data.TimeStamp(coordinates=float('nan'))))
print("C03 arity3 in line:", tr(lambda: data.LineString(coordinates=[[0,1,2],[1,2,3]])))
print("C03 arity1 in line:", tr(lambda: data.LineString(coordinates=[[0],[1]])))
print("C03 MAX:", tr(lambda: data.Point(coordinates=[0, data.MAX_FREQUENCY])), tr(lambda: data.Point(coordinates=[0, data.MAX_FREQUENCY+1e-6])))
print("C03 linestr equal times:", tr(lambda: data.LineString(coordinates=[[1,5],[1,6]])))
print("C03 geometry_validate attrs:", tr(lambda: type(data.geometry_validate(data.Point(coordinates=[1,2]), mode="attributes")).__name__))
print("C03 json:", tr(lambda: data.geometry_validate('{"type":"BoundingBox","coordinates":[3,5,1,2]}')))
print("C03 polygon ring of 3 not closed:", tr(lambda: data.Polygon(coordinates=[[[0,0],[1,0],[1,1]]])))
# C04
rec = data.Recording(path="/a/b.wav", duration=100, channels=1, samplerate=44100)
print("C04 clip json reversed:", tr(lambda: data.Clip.model_validate_json(json.dumps({"recording": json.loads(rec.model_dump_json()), "start_time": 5, "end_time": 1}))))
print("C04 clip missing key:", tr(lambda: data.Clip(recording=rec, start_time=1)))
print("C04 clip equal:", tr(lambda: data.Clip(recording=rec, start_time=1, end_time=1).duration))
print("C04 match none:", tr(lambda: data.Match(affinity=0.5)))
print("C04 match validate instance passthrough:", tr(lambda: data.Match.model_validate({"source": None, "target": None})))
print("C04 score 1.0000001:", tr(lambda: data.PredictedTag(tag=t, score=1.0000001)))
# C18
d = tempfile.mkdtemp()
rec2 = data.Recording(path=d+"/sub dir/ü.wav", duration=1, channels=1, samplerate=8000)
io.save(data.RecordingSet(recordings=[rec2]), d+"/x.json", audio_dir=d)
print("C18 stored:", json.load(open(d+"/x.json"))["data"]["recordings"][0]["path"])
print("C18 reloc:", io.load(d+"/x.json", audio_dir="/other").recordings[0].path)
print("C18 outside:", tr(lambda: io.save(data.RecordingSet(recordings=[rec]), d+"/y.json", audio_dir=d)))
import os; print("C18 y.json exists:", os.path.exists(d+"/y.json"))
