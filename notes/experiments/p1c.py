import z3, time
R = z3.RealSort()
rnd = z3.Function('rnd', R, R)
x,y = z3.Reals('x y')
ax = [
 z3.ForAll([x,y], z3.Implies(x<=y, rnd(x)<=rnd(y)), patterns=[z3.MultiPattern(rnd(x), rnd(y))]),
 z3.ForAll([x], rnd(rnd(x))==rnd(x), patterns=[rnd(x)]),
 z3.ForAll([x], rnd(2*x)==2*rnd(x), patterns=[rnd(2*x)]),
 rnd(0)==0,
]
s1,e1,s2,e2 = z3.Reals('s1 e1 s2 e2')
def mn(a,b): return z3.If(a<=b,a,b)
def mx(a,b): return z3.If(a>=b,a,b)
d1=rnd(e1-s1); d2=rnd(e2-s2); m=rnd(mn(e1,e2)-mx(s1,s2)); inter=mx(0,m)
sm=rnd(d1+d2); union=rnd(sm-inter)
s=z3.Solver(); s.set("timeout",60000)
s.add(ax)
for v in (s1,e1,s2,e2): s.add(rnd(v)==v, v>=0)
s.add(s1<=e1, s2<=e2)
# helper term to trigger doubling axiom
s.add(rnd(2*inter)==rnd(2*inter))
s.add(z3.Not(z3.And(inter>=0, inter<=union)))
t=time.time(); print(s.check(), time.time()-t)
