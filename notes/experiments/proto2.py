"""Throwaway prototype 2: AOEF adapters from the real AST.
Per-field round-trip obligations for an adapter pair (assemble_aoef / assemble_soundevent),
with sub-adapter calls abstracted by contracts, values merged with ite (no path explosion).
"""
import ast, sys, itertools, time, re
import z3

SRC = "/repo/src/soundevent"
Val = z3.DeclareSort("Val")
I, R, B = z3.IntSort(), z3.RealSort(), z3.BoolSort()
_f = {}
def UF(name, *sig):
    if name not in _f: _f[name] = z3.Function(name, *sig)
    return _f[name]
cnt = itertools.count()
def fresh(prefix, sort): return z3.Const(f"{prefix}!{next(cnt)}", sort)

# ------------------------------------------------------------------ class tables from the real ASTs
def parse(rel): return ast.parse(open(f"{SRC}/{rel}").read())
CLASSES = {}   # name -> {fields: {name: (annotation_str, default_node)}, bases: [...], node, module}
def load_classes(rel):
    for n in parse(rel).body:
        if isinstance(n, ast.ClassDef):
            fields = {}
            for st in n.body:
                if isinstance(st, ast.AnnAssign) and isinstance(st.target, ast.Name):
                    fields[st.target.id] = (ast.unparse(st.annotation), st.value)
            CLASSES[n.name] = dict(fields=fields, bases=[ast.unparse(b) for b in n.bases], node=n, module=rel)
for rel in ["data/clips.py", "data/recordings.py", "data/features.py", "data/tags.py", "data/notes.py", "data/users.py", "data/terms.py",
            "data/sequences.py", "data/sound_events.py", "data/evaluation_sets.py", "data/annotation_sets.py",
            "io/aoef/clip.py", "io/aoef/recording.py", "io/aoef/note.py", "io/aoef/tag.py", "io/aoef/user.py", "io/aoef/sequence.py",
            "io/aoef/adapters.py", "io/aoef/sound_event.py", "io/aoef/evaluation_set.py", "io/aoef/annotation_set.py"]:
    load_classes(rel)
def all_fields(cls):
    out = {}
    for b in CLASSES[cls]["bases"]:
        b = b.split("[")[0].split(".")[-1]
        if b in CLASSES: out.update(all_fields(b))
    out.update(CLASSES[cls]["fields"]); return out

def ptype(s):
    s = s.strip().strip('"').strip("'")
    m = re.match(r"^(Optional|List|Sequence|Dict|Tuple)\[(.*)\]$", s)
    if m:
        k, inner = m.groups()
        if k == "Optional": return ("opt", ptype(inner))
        if k in ("List", "Sequence"): return ("list", ptype(inner))
        if k == "Dict": a, b = inner.split(",", 1); return ("dict", ptype(a), ptype(b))
        if k == "Tuple": return ("tuple", [ptype(x) for x in inner.split(",")])
    s = s.split(".")[-1]
    if s in ("float", "Time", "Frequency"): return ("real",)
    if s in ("int",): return ("int",)
    if s in CLASSES and s not in ("UUID",): return ("model", s)
    return ("scalar", s)

# ------------------------------------------------------------------ values
class V: pass
class Num(V):
    def __init__(s, t): s.t = t
class BoolV(V):
    def __init__(s, t): s.t = t
class NoneV(V): pass
class StrC(V):
    def __init__(s, v): s.v = v
class Sym(V):      # opaque value of a given type living in sort Val
    def __init__(s, t, typ): s.t, s.typ = t, typ
class Opt(V):
    def __init__(s, isnone, val): s.isnone, s.val = isnone, val
class SList(V):
    def __init__(s, length, elem, obligations=None): s.length, s.elem, s.obl = length, elem, obligations or []
class Tup(V):
    def __init__(s, items): s.items = items
class Rec(V):      # constructed pydantic object
    def __init__(s, cls, fields): s.cls, s.fields = cls, fields
class DictV(V):    # dict as ordered item list (distinct keys assumed by precondition)
    def __init__(s, items): s.items = items
class Adapter(V):
    def __init__(s, name): s.name, s.attrs = name, {}

def wrap(term, typ):
    """view a Val term as a value of static type typ"""
    k = typ[0]
    if k == "real": return Num(UF("as_real", Val, R)(term))
    if k == "opt": return Opt(UF("is_none", Val, B)(term), wrap(term, typ[1]))
    if k == "list":
        return SList(UF("len", Val, I)(term), lambda i, term=term, typ=typ: wrap(UF("at", Val, I, Val)(term, i), typ[1]))
    return Sym(term, typ)
def field(obj, name):
    if isinstance(obj, Rec):
        if name in obj.fields: return obj.fields[name]
        ann, default = all_fields(obj.cls)[name]
        return NoneV()
    if isinstance(obj, Sym) and obj.typ[0] == "model":
        ann, _ = all_fields(obj.typ[1])[name]
        return wrap(UF(f"fld_{name}", Val, Val)(obj.t), ptype(ann))
    if isinstance(obj, Adapter): return obj.attrs[name]
    if isinstance(obj, Opt): return field(obj.val, name)   # path condition must exclude None (checked by caller)
    raise NotImplementedError(f"field {name} of {type(obj).__name__}")

def truthy(v):
    if isinstance(v, BoolV): return v.t
    if isinstance(v, NoneV): return z3.BoolVal(False)
    if isinstance(v, Opt): return z3.And(z3.Not(v.isnone), truthy(v.val))
    if isinstance(v, (SList,)): return v.length > 0
    if isinstance(v, DictV): return v.items.length > 0
    if isinstance(v, (Sym, Rec)): return z3.BoolVal(True)      # pydantic models / UUID / datetime are always truthy
    if isinstance(v, Num): return v.t != 0
    raise NotImplementedError(type(v))
def isnone(v):
    if isinstance(v, NoneV): return z3.BoolVal(True)
    if isinstance(v, Opt): return v.isnone
    return z3.BoolVal(False)
def ite(c, a, b):
    c = z3.simplify(c)
    if z3.is_true(c): return a
    if z3.is_false(c): return b
    if isinstance(a, NoneV) and isinstance(b, NoneV): return a
    if isinstance(a, NoneV): return Opt(z3.Or(c, isnone(b)), b.val if isinstance(b, Opt) else b)
    if isinstance(b, NoneV): return Opt(z3.Or(z3.Not(c), isnone(a)), a.val if isinstance(a, Opt) else a)
    if isinstance(a, Opt) or isinstance(b, Opt):
        av = a.val if isinstance(a, Opt) else a; bv = b.val if isinstance(b, Opt) else b
        return Opt(z3.If(c, isnone(a), isnone(b)), ite(c, av, bv))
    if isinstance(a, Num): return Num(z3.If(c, a.t, b.t))
    if isinstance(a, BoolV): return BoolV(z3.If(c, a.t, b.t))
    if isinstance(a, Sym): return Sym(z3.If(c, a.t, b.t), a.typ)
    if isinstance(a, SList) and isinstance(b, SList):
        if a is EMPTY: return SList(z3.If(c, 0, b.length), b.elem)
        if b is EMPTY: return SList(z3.If(c, a.length, 0), a.elem)
        return SList(z3.If(c, a.length, b.length), lambda i: ite(c, a.elem(i), b.elem(i)), a.obl + b.obl)
    if isinstance(a, DictV) and isinstance(b, DictV): return DictV(ite(c, a.items, b.items))
    if isinstance(a, Tup): return Tup([ite(c, x, y) for x, y in zip(a.items, b.items)])
    raise NotImplementedError(f"ite {type(a).__name__} {type(b).__name__}")
EMPTY = SList(z3.IntVal(0), lambda i: NoneV())

# ------------------------------------------------------------------ evaluator (expressions merge, no forking)
class Ctx:
    def __init__(s):
        s.facts = []        # assumptions introduced by callee contracts
        s.obligations = []  # (name, formula) that must hold (call-pre, filter-identity)
        s.log = []          # ordered effect log: (adapter, 'to_aoef'|'values', ...)
        s.version = {}      # adapter name -> current z3 Array(Val->Bool)
        s.cond = []         # current guard (inside IfExp branches / comprehension bodies)
    def reg(s, a):
        if a.name not in s.version: s.version[a.name] = z3.K(Val, False)
        return s.version[a.name]

def ev(n, env, cx):
    return globals()["ev_" + type(n).__name__](n, env, cx)
def ev_Constant(n, env, cx):
    v = n.value
    if v is None: return NoneV()
    if isinstance(v, bool): return BoolV(z3.BoolVal(v))
    if isinstance(v, (int, float)): return Num(z3.RealVal(v))
    return StrC(v)
def ev_Name(n, env, cx): return env[n.id]
def ev_Attribute(n, env, cx):
    base = ev(n.value, env, cx)
    if isinstance(base, StrC) and base.v == "<module data>": return StrC(f"data.{n.attr}")
    return field(base, n.attr)
def ev_Tuple(n, env, cx): return Tup([ev(e, env, cx) for e in n.elts])
def ev_List(n, env, cx):
    items = [ev(e, env, cx) for e in n.elts]
    if not items: return EMPTY
    raise NotImplementedError
def ev_Dict(n, env, cx):
    assert not n.keys; return DictV(EMPTY)
def ev_IfExp(n, env, cx):
    c = truthy(ev(n.test, env, cx))
    cx.cond.append(c); a = ev(n.body, env, cx); cx.cond.pop()
    cx.cond.append(z3.Not(c)); b = ev(n.orelse, env, cx); cx.cond.pop()
    return ite(c, a, b)
def ev_BoolOp(n, env, cx):
    assert isinstance(n.op, ast.Or) and len(n.values) == 2
    a = ev(n.values[0], env, cx); c = truthy(a)
    cx.cond.append(z3.Not(c)); b = ev(n.values[1], env, cx); cx.cond.pop()
    if isinstance(a, Opt): a = a.val
    return ite(c, a, b)
def ev_Compare(n, env, cx):
    assert len(n.ops) == 1
    a = ev(n.left, env, cx); b = ev(n.comparators[0], env, cx); op = type(n.ops[0]).__name__
    if op in ("Is", "IsNot"):
        t = isnone(a); return BoolV(t if op == "Is" else z3.Not(t))
    if op in ("Eq", "NotEq"):
        at = a.t if isinstance(a, (Num, Sym)) else a.val.t; bt = b.t
        e = at == bt; return BoolV(e if op == "Eq" else z3.Not(e))
    raise NotImplementedError(op)
def ev_BinOp(n, env, cx):
    assert isinstance(n.op, ast.Div)   # pathlib join
    a = ev(n.left, env, cx); b = ev(n.right, env, cx)
    at = a.val.t if isinstance(a, Opt) else a.t
    return Sym(UF("join", Val, Val, Val)(at, b.t), ("scalar", "Path"))
def ev_NamedExpr(n, env, cx):
    v = ev(n.value, env, cx); env[n.target.id] = v; return v
def comp_generic(n, env, cx, body_fn):
    assert len(n.generators) == 1
    g = n.generators[0]
    src = ev(g.iter, env, cx)
    if isinstance(src, DictV): src = src.items
    if isinstance(src, Opt): src = src.val
    assert isinstance(src, SList), type(src)
    def elem(i):
        e2 = dict(env); bind(g.target, src.elem(i), e2)
        for c in g.ifs:
            cond = truthy(ev(c, e2, cx))
            # filter must be the identity (design: closure makes it so) -> proof obligation, universally in i
            j = z3.Int("j!flt")
            cx.obligations.append(("filter-identity@%d" % c.lineno, z3.Implies(z3.And(*cx.cond, i >= 0, i < src.length), cond)))
        return body_fn(e2)
    return SList(src.length, elem)
def bind(target, v, env):
    if isinstance(target, ast.Name): env[target.id] = v
    else:
        assert isinstance(v, Tup) and len(v.items) == len(target.elts)
        for t, x in zip(target.elts, v.items): bind(t, x, env)
def ev_ListComp(n, env, cx): return comp_generic(n, env, cx, lambda e2: ev(n.elt, e2, cx))
def ev_DictComp(n, env, cx): return DictV(comp_generic(n, env, cx, lambda e2: Tup([ev(n.key, e2, cx), ev(n.value, e2, cx)])))
def ev_Call(n, env, cx):
    f = n.func
    fs = ast.unparse(f)
    kw = {k.arg: k.value for k in n.keywords}
    if fs in ("data.key_from_term",):          # inlined real body: term.label
        t = ev(n.args[0], env, cx); return field(t, "label")
    if fs in ("data.term_from_key",):          # inlined real body: Term(label=key, name=f"soundevent:{key}", definition="Unknown")
        k = ev(n.args[0], env, cx); return Rec("Term", {"label": k})
    if fs in ("uuid4", "datetime.datetime.now"): return Sym(fresh("fresh", Val), ("scalar", "x"))
    if fs == "Path": return ev(n.args[0], env, cx)
    if isinstance(f, ast.Attribute):
        recv = ev(f.value, env, cx)
        if f.attr == "items" and isinstance(recv, (DictV, Opt)):
            return recv.items if isinstance(recv, DictV) else recv.val.items
        if f.attr == "relative_to":
            a = ev(n.args[0], env, cx); at = a.val.t if isinstance(a, Opt) else a.t
            return Sym(UF("relative_to", Val, Val, Val)(recv.t, at), ("scalar", "Path"))
        if isinstance(recv, Adapter):
            args = [ev(a, env, cx) for a in n.args]
            return adapter_call(recv, f.attr, args, cx, n.lineno)
        if isinstance(recv, StrC) and recv.v == "<module data>":
            cls = f.attr
            return Rec(cls, {k: ev(v, env, cx) for k, v in kw.items()})
    if isinstance(f, ast.Name) and f.id in CLASSES:
        return Rec(f.id, {k: ev(v, env, cx) for k, v in kw.items()})
    raise NotImplementedError(f"call {fs} line {n.lineno}")

# ---- contracts of DataAdapter methods (in the real engine these are proved from adapters.py; here assumed)
def adapter_call(a, meth, args, cx, lineno):
    key = UF(f"key_{a.name}", Val, Val)
    if meth == "to_aoef":
        if a.name == "note":   # NoteAdapter is a plain class: inline its real method
            return run_method("io/aoef/note.py", "NoteAdapter.to_aoef", {"self": a, "note": args[0]}, cx)
        x = args[0]; xt = x.t if isinstance(x, Sym) else x.val.t
        old = cx.reg(a); new = fresh(f"reg_{a.name}", z3.ArraySort(Val, B)); k = z3.Const("k!q", Val)
        cx.facts += [z3.ForAll([k], z3.Implies(old[k], new[k])), z3.Implies(z3.And(*cx.cond), new[key(xt)])]
        cx.version[a.name] = new
        cx.log.append((a.name, "to_aoef", lineno))
        idf = "id" if a.name == "tag" else "uuid"
        return Rec(f"<aoef of {a.name}>", {idf: Sym(key(xt), ("scalar", "key")), "uuid": Sym(key(xt), ("scalar", "key")), "id": Sym(key(xt), ("scalar", "key"))})
    if meth == "to_soundevent" and a.name == "note":
        return run_method("io/aoef/note.py", "NoteAdapter.to_soundevent", {"self": a, "note": args[0]}, cx)
    if meth == "from_id":
        idv = args[0]; it = idv.t if isinstance(idv, Sym) else idv.val.t
        loaded = UF(f"loaded_{a.name}", Val, Val); present = UF(f"present_{a.name}", Val, B)
        return Opt(z3.Not(present(it)), Sym(loaded(it), ("model", a.attrs["__data_cls"])))
    if meth == "values":
        cx.log.append((a.name, "values", lineno)); return Sym(fresh("snapshot", Val), ("scalar", "snapshot")) if False else Snapshot(a.name, cx.reg(a))
    raise NotImplementedError(meth)
class Snapshot(V):
    def __init__(s, name, arr): s.name, s.arr = name, arr

def run_method(rel, qual, env, cx):
    cls, meth = qual.split(".")
    fn = next(m for m in CLASSES[cls]["node"].body if isinstance(m, ast.FunctionDef) and m.name == meth)
    env = dict(env); env.setdefault("data", StrC("<module data>"))
    for st in fn.body:
        if isinstance(st, ast.Expr):
            if isinstance(st.value, ast.Constant): continue
            ev(st.value, env, cx); continue
        if isinstance(st, ast.Assign):
            bind(st.targets[0], ev(st.value, env, cx), env); continue
        if isinstance(st, ast.If):
            c = z3.simplify(truthy(ev(st.test, env, cx)))
            if z3.is_false(c): continue
            # supported shapes: `if x is None: raise`  /  `if c: name = expr` (merge)
            if len(st.body) == 1 and isinstance(st.body[0], ast.Raise):
                cx.obligations.append((f"no-raise@{st.lineno}", z3.Not(c))); continue
            before = dict(env)
            cx.cond.append(c)
            for s2 in st.body:
                assert isinstance(s2, ast.Assign); bind(s2.targets[0], ev(s2.value, env, cx), env)
            cx.cond.pop()
            for k_ in list(env):
                if k_ in before and env[k_] is not before[k_]: env[k_] = ite(c, env[k_], before[k_])
            continue
        if isinstance(st, ast.Return): return ev(st.value, env, cx)
        if isinstance(st, ast.For):   # effect-only loop (e.g. registering badge owners): execute body for generic i
            src = ev(st.iter, env, cx); i = fresh("i", I); e2 = dict(env); bind(st.target, src.elem(i), e2)
            for s2 in st.body: ev(s2.value, e2, cx) if isinstance(s2, ast.Expr) else None
            continue
        raise NotImplementedError(type(st).__name__)

# ------------------------------------------------------------------ equality "up to h" by static type
def same(typ, got, want, hyp_h=True):
    """formula: reconstructed value `got` equals loaded image of original `want` (want given as value viewed with typ)"""
    k = typ[0]
    if k == "real":
        g = got.val if isinstance(got, Opt) else got
        return g.t == want.t
    if k in ("scalar", "int"):
        if isinstance(got, Opt): return z3.And(z3.Not(got.isnone), got.val.t == want.t)
        return got.t == want.t
    if k == "opt":
        gi = isnone(got); gv = got.val if isinstance(got, Opt) else got
        if isinstance(got, NoneV): return want.isnone
        return z3.And(gi == want.isnone, z3.Implies(z3.Not(want.isnone), same(typ[1], gv, want.val)))
    if k == "model":
        if typ[1] == "Term":   # permitted reduction: same label
            gl = field(got, "label"); wl = field(want, "label"); return gl.t == wl.t
        if typ[1] in ("Feature",):
            return z3.And(same(("model", "Term"), field(got, "term"), field(want, "term")), same(("real",), field(got, "value"), field(want, "value")))
        if isinstance(got, Rec):   # embedded object (e.g. Note): field-wise
            return z3.And(*[same(ptype(ann), field(got, f), field(want, f)) for f, (ann, _) in all_fields(typ[1]).items()])
        g = got.val if isinstance(got, Opt) else got
        nn = z3.Not(got.isnone) if isinstance(got, Opt) else z3.BoolVal(True)
        return z3.And(nn, g.t == UF(f"h_{typ[1]}", Val, Val)(want.t))
    if k == "list":
        g = got.val if isinstance(got, Opt) else got
        i = fresh("i", I)
        return z3.And(g.length == want.length, z3.ForAll([i], z3.Implies(z3.And(i >= 0, i < want.length), same(typ[1], g.elem(i), want.elem(i)))))
    raise NotImplementedError(typ)

def check(name, hyps, goal, expect="unsat"):
    s = z3.Solver(); s.set("timeout", 20000); s.add(*hyps); s.add(z3.Not(goal))
    t = time.time(); r = s.check(); dt = time.time() - t
    print(f"{'OK ' if str(r)==expect else '!! '}{name}: {r} ({dt:.2f}s)")
    return r

def mk_adapter(name, data_cls, **attrs):
    a = Adapter(name); a.attrs.update(attrs); a.attrs["__data_cls"] = data_cls; return a

def roundtrip(adapter_cls_rel, adapter_cls, self_adapter, data_cls, skip=()):
    print(f"--- {adapter_cls} / data.{data_cls}")
    cx = Ctx()
    x = Sym(z3.Const("x", Val), ("model", data_cls))
    aobj = run_method(adapter_cls_rel, f"{adapter_cls}.assemble_aoef", {"self": self_adapter, "obj": x, "obj_id": Sym(z3.Const("oid", Val), ("scalar", "id"))}, cx)
    back = run_method(adapter_cls_rel, f"{adapter_cls}.assemble_soundevent", {"self": self_adapter, "obj": aobj}, cx)
    # load-side hypothesis for every sub adapter: ids registered on save are present on load and map to h(obj)
    hyps = list(cx.facts)
    y = z3.Const("y", Val)
    for sub in [v for v in self_adapter.attrs.values() if isinstance(v, Adapter)] + [self_adapter]:
        if sub.name == "note": continue
        key = UF(f"key_{sub.name}", Val, Val); loaded = UF(f"loaded_{sub.name}", Val, Val); present = UF(f"present_{sub.name}", Val, B)
        hyps.append(z3.ForAll([y], z3.And(present(key(y)), loaded(key(y)) == UF(f"h_{sub.attrs['__data_cls']}", Val, Val)(y)), patterns=[key(y)]))
    # well-formedness + quantifier preconditions
    hyps.append(z3.ForAll([y], UF("len", Val, I)(y) >= 0))
    # pathlib algebra (C18): join(A, relative_to(p, A)) == p when p lies inside A (precondition on x.path)
    a_, b_ = z3.Consts("pa pb", Val)
    hyps.append(z3.ForAll([a_, b_], z3.Implies(UF("inside", Val, Val, B)(a_, b_), UF("join", Val, Val, Val)(b_, UF("relative_to", Val, Val, Val)(a_, b_)) == a_)))
    ad = self_adapter.attrs.get("audio_dir")
    if isinstance(ad, Opt) and data_cls == "Recording":
        hyps.append(z3.Implies(z3.Not(ad.isnone), UF("inside", Val, Val, B)(UF("fld_path", Val, Val)(x.t), ad.val.t)))
    for f, (ann, _) in all_fields(data_cls).items():
        if f in skip: print(f"   (skipped {f})"); continue
        typ = ptype(ann)
        if f not in back.fields:
            print(f"!! {data_cls}.{f}: never passed to the {data_cls} constructor on load -> lost"); continue
        obl = [o for _, o in cx.obligations]
        goal = same(typ, back.fields[f], field(x, f))
        # feature-like dict fields need the "distinct labels" precondition only for order; here dict = ordered item list
        check(f"{data_cls}.{f}", hyps + obl_hyps(obl, hyps), goal)
    for nm, o in cx.obligations:
        check(f"   obligation {nm}", hyps, o)
    return cx, aobj, back
def obl_hyps(obl, hyps): return []

if __name__ == "__main__":
    user = mk_adapter("user", "User"); tag = mk_adapter("tag", "Tag")
    note = mk_adapter("note", "Note", _user_adapter=user)
    recording = mk_adapter("recording", "Recording", _user_adapter=user, _tag_adapter=tag, _note_adapter=note, audio_dir=Opt(z3.Bool("audio_dir_none"), Sym(z3.Const("audio_dir", Val), ("scalar", "Path"))))
    clip = mk_adapter("clip", "Clip", recording_adapter=recording)
    roundtrip("io/aoef/clip.py", "ClipAdapter", clip, "Clip")
    roundtrip("io/aoef/recording.py", "RecordingAdapter", recording, "Recording")
