import warnings; warnings.filterwarnings("ignore")
import json, tempfile, os, datetime, traceback
from pathlib import Path
from soundevent import data, io
from soundevent.evaluation import sound_event_detection, sound_event_classification, clip_classification
rec = data.Recording(path="/a/b.wav", duration=100, channels=1, samplerate=44100, license="CC", rights="r", owners=[data.User(name="o")])
t1 = data.Tag(term=data.term_from_key("species"), value="a")
t2 = data.Tag(term=data.term_from_key("species"), value="b")
clip = data.Clip(recording=rec, start_time=0, end_time=10)
se1 = data.SoundEvent(recording=rec, geometry=data.BoundingBox(coordinates=[0,0,1,1000]))
se2 = data.SoundEvent(recording=rec, geometry=data.BoundingBox(coordinates=[5,0,6,1000]))
seq = data.Sequence(sound_events=[se1,se2])
seqp = data.SequencePrediction(sequence=seq, score=0.5, tags=[data.PredictedTag(tag=t1, score=0.3)])
sep = data.SoundEventPrediction(sound_event=se1, score=0.9, tags=[data.PredictedTag(tag=t1, score=0.7)])
cp = data.ClipPrediction(clip=clip, sound_events=[sep], sequences=[seqp])
ps = data.PredictionSet(clip_predictions=[cp])
d = tempfile.mkdtemp()
io.save(ps, d+"/ps.json")
doc = json.load(open(d+"/ps.json"))
print("PS keys:", sorted(doc["data"].keys()))
ps2 = io.load(d+"/ps.json")
print("PS seq preds after load:", len(ps2.clip_predictions[0].sequences))
rs = data.RecordingSet(recordings=[rec])
io.save(rs, d+"/rs.json"); rs2 = io.load(d+"/rs.json")
print("license:", rs2.recordings[0].license, "rights:", rs2.recordings[0].rights, rs2.recordings[0]==rec)
# C08
ann1 = data.SoundEventAnnotation(sound_event=se2, tags=[t1])
ca = data.ClipAnnotation(clip=clip, sound_events=[ann1])
cp2 = data.ClipPrediction(clip=clip, sound_events=[sep])
ev = sound_event_detection([cp2],[ca],[t1,t2])
for m in ev.clip_evaluations[0].matches: print("C08 match", m.source is not None, m.target is not None, m.affinity, m.score)
# geometry-less
se3 = data.SoundEvent(recording=rec, geometry=None)
ann3 = data.SoundEventAnnotation(sound_event=se3, tags=[t1])
ca3 = data.ClipAnnotation(clip=clip, sound_events=[ann3, ann1])
try:
    ev = sound_event_detection([cp2],[ca3],[t1,t2]); print("C08 geomless ok", [(m.source is not None, m.target.uuid==ann1.uuid if m.target else None) for m in ev.clip_evaluations[0].matches])
except Exception as e: print("C08 geomless ERR", type(e).__name__, str(e)[:200])
# C09
sepA = data.SoundEventPrediction(sound_event=se2, score=0.9, tags=[data.PredictedTag(tag=t1, score=0.7)])
cpA = data.ClipPrediction(clip=clip, sound_events=[sepA])
ev = sound_event_classification([cpA],[ca],[t1,t2])
print("C09 sec metrics:", [(m.term.label, m.value) for m in ev.metrics])
clipB = data.Clip(recording=rec, start_time=10, end_time=20)
try:
    ev = sound_event_classification([cpA, data.ClipPrediction(clip=clipB)],[ca, data.ClipAnnotation(clip=clipB)],[t1,t2]); print("C09 empty clip ok", ev.score)
except Exception as e: print("C09 empty clip ERR", type(e).__name__, str(e)[:200])
try:
    ev = sound_event_detection([data.ClipPrediction(clip=clipB)],[data.ClipAnnotation(clip=clipB)],[t1,t2]); print("C08 empty ok", ev.score)
except Exception as e: print("C08 empty ERR", type(e).__name__, str(e)[:300])
