import z3, time, sys
F = z3.Float64(); RNE=z3.RNE()
def fp(v): return z3.FPVal(float(v),F)
start, step = z3.FP('start',F), z3.FP('step',F)
def query(N, timeout):
    Nf = fp(N)
    stop = z3.fpAdd(RNE, start, z3.fpMul(RNE, Nf, step))
    q = z3.fpDiv(RNE, z3.fpSub(RNE, stop, start), step)
    len0 = z3.fpRoundToIntegral(z3.RTP(), q)
    nxt = z3.fpAdd(RNE, start, step); delta = z3.fpSub(RNE, nxt, start)
    def elem(k): return z3.fpAdd(RNE, start, z3.fpMul(RNE, fp(k), delta))
    thr = z3.fpSub(RNE, stop, z3.fpDiv(RNE, step, fp(2)))
    good = z3.Or(z3.And(z3.fpEQ(len0, Nf), z3.Not(z3.fpGEQ(elem(N-1), thr))),
                 z3.And(z3.fpEQ(len0, fp(N+1)), z3.fpGEQ(elem(N), thr)))
    s = z3.Solver(); s.set("timeout", timeout)
    s.add(z3.fpGEQ(step, fp(1e-6)), z3.fpLEQ(step, fp(10.0)), z3.fpGEQ(start, fp(0.0)), z3.fpLEQ(start, fp(1000.0)))
    s.add(z3.Not(good))
    t=time.time(); r=s.check(); return r, round(time.time()-t,1), (s.model() if r==z3.sat else None)
for N in [1, 4]:
    print(N, query(N, 240000)); sys.stdout.flush()
