"""Throwaway prototype: symbolic execution of real soundevent functions from their AST -> z3.
Validates the DESIGN choices (path forking, Opt values, implicit exceptions, elementwise loop summarisation).
"""
import ast, sys, itertools, time
import z3

SRC = "/repo/src/soundevent"

def load_func(relpath, qual):
    tree = ast.parse(open(f"{SRC}/{relpath}").read())
    parts = qual.split(".")
    node = tree
    for p in parts:
        node = next(n for n in node.body if isinstance(n, (ast.FunctionDef, ast.ClassDef)) and n.name == p)
    return node

# ---------- values ----------
class V: pass
class Num(V):
    def __init__(s, t): s.t = t
class Bool_(V):
    def __init__(s, t): s.t = t
class NoneV(V): pass
class Opt(V):  # optional number
    def __init__(s, isnone, val): s.isnone, s.val = isnone, val
class Tup(V):
    def __init__(s, items): s.items = items
class SList(V):
    """symbolic nested list: length term + element function(index)->V ; elem arity unknown => may fail to unpack"""
    def __init__(s, length, elem): s.length, s.elem = length, elem
class Str(V):
    def __init__(s, v): s.v = v

class Exit(Exception): pass

class Path:
    def __init__(s, cond, env): s.cond, s.env = list(cond), dict(env)
    def fork(s, extra): return Path(s.cond + [extra], s.env)

class Outcome:
    def __init__(s, kind, cond, val=None, exc=None): s.kind, s.cond, s.val, s.exc = kind, cond, val, exc

fresh_id = itertools.count()
def fresh_int(prefix="i"): return z3.Int(f"{prefix}!{next(fresh_id)}")

MAXF = 5000000

class Exec:
    def __init__(s, consts=None):
        s.consts = consts or {}
        s.outcomes = []

    # expression evaluation returns list of (Path, V) -- expressions may fork (short circuit, implicit exceptions)
    def ev(s, node, path):
        m = getattr(s, "ev_" + type(node).__name__, None)
        if m is None: raise NotImplementedError(f"outside subset: {type(node).__name__} line {node.lineno}")
        return m(node, path)

    def ev_Constant(s, n, p):
        v = n.value
        if v is None: return [(p, NoneV())]
        if isinstance(v, bool): return [(p, Bool_(z3.BoolVal(v)))]
        if isinstance(v, (int, float)): return [(p, Num(z3.RealVal(v)))]
        if isinstance(v, str): return [(p, Str(v))]
        raise NotImplementedError
    def ev_JoinedStr(s, n, p): return [(p, Str("<fstring>"))]
    def ev_Name(s, n, p):
        if n.id in p.env: return [(p, p.env[n.id])]
        if n.id in s.consts: return [(p, Num(z3.RealVal(s.consts[n.id])))]
        raise NotImplementedError(f"unknown name {n.id}")
    def ev_Tuple(s, n, p):
        res = [(p, [])]
        for e in n.elts:
            res = [(p2, acc + [v]) for (p1, acc) in res for (p2, v) in s.ev(e, p1)]
        return [(p1, Tup(acc)) for p1, acc in res]
    ev_List = ev_Tuple
    def ev_Subscript(s, n, p):
        out = []
        for p1, base in s.ev(n.value, p):
            idx = n.slice
            if isinstance(base, Tup) and isinstance(idx, ast.Constant):
                out.append((p1, base.items[idx.value])); continue
            if isinstance(base, SList) and isinstance(idx, ast.Constant):
                k = idx.value
                i = z3.IntVal(k) if k >= 0 else base.length + k
                # implicit IndexError
                s.outcomes.append(Outcome("raise", p1.cond + [z3.Not(z3.And(i >= 0, i < base.length))], exc="IndexError"))
                out.append((p1.fork(z3.And(i >= 0, i < base.length)), base.elem(i))); continue
            raise NotImplementedError("subscript")
        return out
    def ev_UnaryOp(s, n, p):
        out = []
        for p1, v in s.ev(n.operand, p):
            if isinstance(n.op, ast.Not): out.append((p1, Bool_(z3.Not(s.truth(v)))))
            elif isinstance(n.op, ast.USub): out.append((p1, Num(-v.t)))
            else: raise NotImplementedError
        return out
    def ev_BinOp(s, n, p):
        out = []
        for p1, a in s.ev(n.left, p):
            for p2, b in s.ev(n.right, p1):
                op = type(n.op).__name__
                at, bt = s.num(a, p2), s.num(b, p2)
                if op == "Add": out.append((p2, Num(at + bt)))
                elif op == "Sub": out.append((p2, Num(at - bt)))
                elif op == "Mult": out.append((p2, Num(at * bt)))
                else: raise NotImplementedError(op)
        return out
    def num(s, v, p):
        if isinstance(v, Opt):
            # implicit TypeError when None reaches arithmetic/comparison
            s.outcomes.append(Outcome("raise", p.cond + [v.isnone], exc="TypeError"))
            return v.val
        return v.t
    def truth(s, v):
        if isinstance(v, Bool_): return v.t
        if isinstance(v, NoneV): return z3.BoolVal(False)
        if isinstance(v, Opt): return z3.And(z3.Not(v.isnone), v.val != 0)
        if isinstance(v, Num): return v.t != 0
        raise NotImplementedError
    def ev_BoolOp(s, n, p):
        # boolean context only (prototype)
        res = [(p, None)]
        isand = isinstance(n.op, ast.And)
        acc_paths = []
        cur = [(p, [])]
        for e in n.values:
            nxt = []
            for p1, ts in cur:
                for p2, v in s.ev(e, p1):
                    nxt.append((p2, ts + [s.truth(v)]))
            cur = nxt
        return [(p1, Bool_(z3.And(*ts) if isand else z3.Or(*ts))) for p1, ts in cur]
    def ev_Compare(s, n, p):
        out = []
        for p1, left in s.ev(n.left, p):
            cur = [(p1, left, [])]
            for op, comp in zip(n.ops, n.comparators):
                nxt = []
                for p2, lv, ts in cur:
                    for p3, rv in s.ev(comp, p2):
                        nxt.append((p3, rv, ts + [s.cmp(op, lv, rv)]))
                cur = nxt
            out += [(p2, Bool_(z3.And(*ts))) for p2, _, ts in cur]
        return out
    def cmp(s, op, a, b):
        o = type(op).__name__
        if o in ("Is", "IsNot"):
            assert isinstance(b, NoneV)
            t = a.isnone if isinstance(a, Opt) else z3.BoolVal(isinstance(a, NoneV))
            return t if o == "Is" else z3.Not(t)
        if isinstance(a, Str) and isinstance(b, Str):
            return z3.BoolVal((a.v == b.v) == (o == "Eq"))
        at = a.val if isinstance(a, Opt) else a.t
        bt = b.val if isinstance(b, Opt) else b.t
        return {"Lt": at < bt, "LtE": at <= bt, "Gt": at > bt, "GtE": at >= bt, "Eq": at == bt, "NotEq": at != bt}[o]
    def ev_Call(s, n, p):
        f = n.func
        if isinstance(f, ast.Name) and f.id in ("max", "min") and len(n.args) == 2:
            out = []
            for p1, a in s.ev(n.args[0], p):
                for p2, b in s.ev(n.args[1], p1):
                    c = (a.t >= b.t) if f.id == "max" else (a.t <= b.t)
                    out.append((p2, Num(z3.If(c, a.t, b.t))))
            return out
        if isinstance(f, ast.Name) and f.id == "len":
            return [(p1, Num(z3.ToReal(v.length) if isinstance(v, SList) else z3.RealVal(len(v.items)))) for p1, v in s.ev(n.args[0], p)]
        if isinstance(f, ast.Name) and f.id in ("ValueError", "KeyError"):
            return [(p, Str(f.id))]
        raise NotImplementedError(f"call {ast.unparse(f)}")

    # ---------- statements ----------
    def run_block(s, stmts, paths):
        for st in stmts:
            nxt = []
            for p in paths:
                nxt += getattr(s, "st_" + type(st).__name__)(st, p)
            paths = nxt
        return paths
    def st_Expr(s, n, p): return [p]
    def st_Pass(s, n, p): return [p]
    def st_Assign(s, n, p):
        out = []
        for p1, v in s.ev(n.value, p):
            out += s.assign(n.targets[0], v, p1)
        return out
    def assign(s, target, v, p):
        if isinstance(target, ast.Name):
            q = Path(p.cond, p.env); q.env[target.id] = v; return [q]
        if isinstance(target, ast.Tuple):
            k = len(target.elts)
            if isinstance(v, Tup):
                if len(v.items) != k:
                    s.outcomes.append(Outcome("raise", p.cond, exc="ValueError")); return []
                q = p
                for t, item in zip(target.elts, v.items): q = s.assign(t, item, q)[0]
                return [q]
            if isinstance(v, SList):
                s.outcomes.append(Outcome("raise", p.cond + [v.length != k], exc="ValueError"))
                q = p.fork(v.length == k)
                for j, t in enumerate(target.elts): q = s.assign(t, v.elem(z3.IntVal(j)), q)[0]
                return [q]
        raise NotImplementedError("assign target")
    def st_AugAssign(s, n, p):
        fake = ast.BinOp(left=ast.Name(id=n.target.id, ctx=ast.Load()), op=n.op, right=n.value)
        ast.copy_location(fake, n); ast.fix_missing_locations(fake)
        out = []
        for p1, v in s.ev(fake, p): out += s.assign(n.target, v, p1)
        return out
    def st_If(s, n, p):
        out = []
        for p1, c in s.ev(n.test, p):
            t = s.truth(c)
            out += s.run_block(n.body, [p1.fork(t)])
            out += s.run_block(n.orelse, [p1.fork(z3.Not(t))])
        return out
    def st_Raise(s, n, p):
        exc = n.exc.func.id if isinstance(n.exc, ast.Call) else "Exception"
        s.outcomes.append(Outcome("raise", p.cond, exc=exc)); return []
    def st_Return(s, n, p):
        for p1, v in s.ev(n.value, p): s.outcomes.append(Outcome("return", p1.cond, val=v))
        return []
    def st_For(s, n, p):
        """elementwise summarisation: body may only raise / fall through (checked: no assignments survive)."""
        out = []
        for p1, seq in s.ev(n.iter, p):
            assert isinstance(seq, SList)
            i = fresh_int("i")
            inrange = z3.And(i >= 0, i < seq.length)
            sub = Exec(s.consts)
            body_paths = []
            for q in sub.assign(n.target, seq.elem(i), Path([], p1.env)):
                body_paths += sub.run_block(n.body, [q])
            # sub.outcomes: raise conditions for generic element i ; body_paths: fallthrough conditions
            for o in sub.outcomes:
                if o.kind != "raise": raise NotImplementedError("return in loop (prototype)")
                # exists i with raise (first-exit ordering irrelevant for 'some exception of class E')
                s.outcomes.append(Outcome("raise", p1.cond + [z3.Exists([i], z3.And(inrange, *o.cond))], exc=o.exc))
            ok_i = z3.Or(*[z3.And(*bp.cond) if bp.cond else z3.BoolVal(True) for bp in body_paths]) if body_paths else z3.BoolVal(False)
            out.append(p1.fork(z3.ForAll([i], z3.Implies(inrange, ok_i))))
        return out

def run_function(fn, env, consts=None):
    ex = Exec(consts)
    paths = ex.run_block([st for st in fn.body if not (isinstance(st, ast.Expr) and isinstance(st.value, ast.Constant))], [Path([], env)])
    assert not paths, "fell off the end"
    return ex.outcomes

def check(name, formula, expect):
    s = z3.Solver(); s.set("timeout", 20000); s.add(formula)
    t = time.time(); r = s.check(); dt = time.time() - t
    flag = "OK " if str(r) == expect else "!! "
    print(f"{flag}{name}: {r} ({dt:.2f}s)")
    return r, s

# ====================== 1. intervals_overlap ======================
fn = load_func("geometry/operations.py", "intervals_overlap")
s1, e1, s2, e2 = z3.Reals("s1 e1 s2 e2")
an, av, rn, rv = z3.Bool("abs_none"), z3.Real("abs"), z3.Bool("rel_none"), z3.Real("rel")
env = {"interval1": Tup([Num(s1), Num(e1)]), "interval2": Tup([Num(s2), Num(e2)]),
       "min_absolute_overlap": Opt(an, av), "min_relative_overlap": Opt(rn, rv)}
outs = run_function(fn, env)
print("intervals_overlap paths:", [(o.kind, o.exc) for o in outs])
pre = z3.And(s1 <= e1, s2 <= e2)
raises_spec = z3.Or(z3.And(z3.Not(an), z3.Not(rn)), z3.And(z3.Not(rn), z3.Not(z3.And(rv >= 0, rv <= 1))))
mn = lambda a, b: z3.If(a <= b, a, b); mx = lambda a, b: z3.If(a >= b, a, b)
thr = z3.If(z3.Not(rn), rv * mn(e1 - s1, e2 - s2), z3.If(z3.Not(an), av, 0))
spec_res = (mn(e1, e2) - mx(s1, s2) >= thr)
for k, o in enumerate(outs):
    pc = z3.And(pre, *o.cond)
    if o.kind == "raise": check(f"io/exc#{k}", z3.And(pc, z3.Not(raises_spec)), "unsat")
    else: check(f"io/post#{k}", z3.And(pc, z3.Not(o.val.t == spec_res)), "unsat")
    check(f"io/cover#{k}", pc, "sat")
check("io/exc-converse", z3.And(pre, raises_spec, z3.Or(*[z3.And(*o.cond) for o in outs if o.kind == "return"])), "unsat")

# ====================== 2. MultiPolygon._validate_coordinates ======================
fn = load_func("data/geometries.py", "MultiPolygon._validate_coordinates")
I, R = z3.IntSort(), z3.RealSort()
n0 = z3.Int("n0"); n1 = z3.Function("n1", I, I); n2 = z3.Function("n2", I, I, I); n3 = z3.Function("n3", I, I, I, I)
C = z3.Function("C", I, I, I, I, R)
def point(p, r, k): return SList(n3(p, r, k), lambda j: Num(C(p, r, k, j)))
def ring(p, r): return SList(n2(p, r), lambda k: point(p, r, k))
def poly(p): return SList(n1(p), lambda r: ring(p, r))
v = SList(n0, poly)
outs = run_function(fn, {"cls": NoneV(), "v": v}, consts={"MAX_FREQUENCY": MAXF})
print("MultiPolygon paths:", [(o.kind, o.exc) for o in outs])
p_, r_, k_ = z3.Ints("p r k")
rng = lambda i, n: z3.And(i >= 0, i < n)
spec = z3.And(n0 >= 1,
    z3.ForAll([p_], z3.Implies(rng(p_, n0), n1(p_) >= 1)),
    z3.ForAll([p_, r_], z3.Implies(z3.And(rng(p_, n0), rng(r_, n1(p_))), n2(p_, r_) >= 3)),
    z3.ForAll([p_, r_, k_], z3.Implies(z3.And(rng(p_, n0), rng(r_, n1(p_)), rng(k_, n2(p_, r_))),
        z3.And(n3(p_, r_, k_) == 2, C(p_, r_, k_, 0) >= 0, C(p_, r_, k_, 1) >= 0, C(p_, r_, k_, 1) <= MAXF))))
wf = z3.And(n0 >= 0, z3.ForAll([p_], n1(p_) >= 0), z3.ForAll([p_, r_], n2(p_, r_) >= 0), z3.ForAll([p_, r_, k_], n3(p_, r_, k_) >= 0))
accept = z3.Or(*[z3.And(*o.cond) for o in outs if o.kind == "return"])
reject = z3.Or(*[z3.And(*o.cond) for o in outs if o.kind == "raise" and o.exc == "ValueError"])
check("mp/accept=>spec", z3.And(wf, accept, z3.Not(spec)), "unsat")
check("mp/spec=>accept", z3.And(wf, spec, z3.Not(accept)), "unsat")
check("mp/reject=>not spec", z3.And(wf, reject, spec), "unsat")
check("mp/total", z3.And(wf, z3.Not(accept), z3.Not(reject)), "unsat")
check("mp/cover accept", z3.And(wf, accept), "sat")

# ====================== 3. buffer_bounding_box_geometry (up to the constructor call) ======================
fn = load_func("geometry/operations.py", "buffer_bounding_box_geometry")
# execute the body statements before the return by hand-selecting them (constructor call = call-pre obligation)
body = [st for st in fn.body if not (isinstance(st, ast.Expr) and isinstance(st.value, ast.Constant))]
st_, lf, et, hf, tb, fb = z3.Reals("st lf et hf tb fb")
class G(V): pass
ex = Exec()
ex.ev_Attribute = lambda n, p: [(p, Tup([Num(st_), Num(lf), Num(et), Num(hf)]))] if n.attr == "coordinates" else [(p, Num(z3.RealVal(MAXF)))]
paths = ex.run_block(body[:-1], [Path([], {"geometry": G(), "time_buffer": Num(tb), "freq_buffer": Num(fb)})])
assert len(paths) == 1
e = paths[0].env
ns, nl, ne, nh = e["start_time"].t, e["low_freq"].t, e["end_time"].t, e["high_freq"].t
pre = z3.And(st_ >= 0, st_ <= et, lf >= 0, lf <= hf, hf <= MAXF, tb >= 0, fb >= 0)   # valid, normal-form box (C03) + guard of buffer_geometry
valid_box = z3.And(ns >= 0, ne >= 0, nl >= 0, nl <= MAXF, nh >= 0, nh <= MAXF)
normal = z3.And(ns <= ne, nl <= nh)
contains = z3.And(ns <= st_, nl <= lf, ne >= et, nh >= hf)
exact = z3.And(ns == mx(st_ - tb, 0), nl == mx(lf - fb, 0), ne == et + tb, nh == mn(hf + fb, MAXF))
check("bbox/call-pre valid", z3.And(pre, *paths[0].cond, z3.Not(valid_box)), "unsat")
check("bbox/normal form kept", z3.And(pre, *paths[0].cond, z3.Not(normal)), "unsat")
check("bbox/contains original", z3.And(pre, *paths[0].cond, z3.Not(contains)), "unsat")
check("bbox/exact widening", z3.And(pre, *paths[0].cond, z3.Not(exact)), "unsat")
check("bbox/canary (must be sat)", z3.And(pre, *paths[0].cond, z3.Not(ne > et)), "sat")
