import warnings; warnings.filterwarnings("ignore")
import crowsetta, math, itertools
from soundevent import data
from soundevent.io import crowsetta as cio
def tr(f):
    try: return f()
    except Exception as e: return f"ERR {type(e).__name__}: {str(e)[:120]}"
for te in [1, 10, 0.5]:
    rec = data.Recording(path="a.wav", duration=100, channels=1, samplerate=44100, time_expansion=te)
    seg = crowsetta.Segment.from_keyword(label="a", onset_s=1.0, offset_s=2.0)
    a = cio.segment_to_annotation(seg, rec); print("te",te,"seg s:", a.sound_event.geometry.coordinates, [ (t.term.label,t.value) for t in a.tags])
    seg2 = crowsetta.Segment.from_keyword(label="a", onset_sample=44100, offset_sample=88200)
    a2 = cio.segment_to_annotation(seg2, rec); print("   seg samples:", a2.sound_event.geometry.coordinates, "expected", [44100/(44100/te)/te, 88200/(44100/te)/te])
    bb = crowsetta.BBox(onset=1.0, offset=2.0, low_freq=100.0, high_freq=200.0, label="x")
    a3 = cio.bbox_to_annotation(bb, rec); print("   bbox:", a3.sound_event.geometry.coordinates)
    a4 = cio.bbox_to_annotation(bb, rec, adjust_time_expansion=False); print("   bbox noadj:", a4.sound_event.geometry.coordinates)
rec = data.Recording(path="a.wav", duration=100, channels=1, samplerate=44100)
# export
for g in [data.TimeInterval(coordinates=[0.5,1.25]), data.BoundingBox(coordinates=[0.5,100,1.25,30000]), data.TimeStamp(coordinates=1.0), data.Point(coordinates=[1.0,500]), None]:
    ann = data.SoundEventAnnotation(sound_event=data.SoundEvent(recording=rec, geometry=g), tags=[data.Tag(term=data.term_from_key("sp"), value="v")])
    print(getattr(g,'type',None), "| seg:", tr(lambda: cio.segment_from_annotation(ann)), "| seg nocast:", tr(lambda: cio.segment_from_annotation(ann, cast_to_segment=False)))
    print("      bbox:", tr(lambda: cio.bbox_from_annotation(ann)), "| bbox notraise:", tr(lambda: cio.bbox_from_annotation(ann, raise_on_time_geometries=False)), "| nocast:", tr(lambda: cio.bbox_from_annotation(ann, cast_to_bbox=False)))
# round trip
seg = crowsetta.Segment.from_keyword(label="a", onset_s=0.123456789, offset_s=2.000000001)
a = cio.segment_to_annotation(seg, rec); s2 = cio.segment_from_annotation(a, value_only=True); print("rt seg:", s2.onset_s==seg.onset_s, s2.offset_s==seg.offset_s, s2.label, s2.onset_sample, math.floor(0.123456789*44100))
bb = crowsetta.BBox(onset=0.1, offset=2.0, low_freq=100.0, high_freq=30000.0, label="x")
b2 = cio.bbox_from_annotation(cio.bbox_to_annotation(bb, rec), value_only=True); print("rt bbox:", b2, "(nyquist", 44100/2, ")")
seqs = crowsetta.Sequence.from_keyword(labels=["a","b","__empty__"], onsets_s=[0.1,1.0,2.0], offsets_s=[0.5,1.5,2.5])
anns = cio.sequence_to_annotations(seqs, rec); back = cio.sequence_from_annotations(anns, value_only=True)
print("rt seq labels:", list(back.labels), list(back.onsets_s), list(back.offsets_s))
