import z3, time
# Nested list v: List[List[List[List[float]]]] encoded as UFs
I = z3.IntSort(); R=z3.RealSort(); B=z3.BoolSort()
n0 = z3.Int('n0')
n1 = z3.Function('n1', I, I)          # len(v[p])
n2 = z3.Function('n2', I, I, I)       # len(v[p][r])
n3 = z3.Function('n3', I, I, I, I)    # len(v[p][r][k])  (point arity)
T = z3.Function('T', I, I, I, R)      # v[p][r][k][0]
Fq = z3.Function('F', I, I, I, R)
MAX = 5000000
p,r,k = z3.Ints('p r k')
def rng(i,n): return z3.And(i>=0, i<n)
# "accept" as computed by the loop-summarised code: all iterations don't raise
point_ok_code = lambda p,r,k: z3.And(n3(p,r,k)==2, z3.Not(T(p,r,k)<0), z3.Not(z3.Or(Fq(p,r,k)<0, Fq(p,r,k)>MAX)))
ring_ok_code = lambda p,r: z3.And(z3.Not(n2(p,r)<3), z3.ForAll([k], z3.Implies(rng(k,n2(p,r)), point_ok_code(p,r,k))))
poly_ok_code = lambda p: z3.And(z3.Not(n1(p)<1), z3.ForAll([r], z3.Implies(rng(r,n1(p)), ring_ok_code(p,r))))
accept_code = z3.And(z3.Not(n0<1), z3.ForAll([p], z3.Implies(rng(p,n0), poly_ok_code(p))))
# spec (from property statement)
spec = z3.And(n0>=1,
  z3.ForAll([p], z3.Implies(rng(p,n0), n1(p)>=1)),
  z3.ForAll([p,r], z3.Implies(z3.And(rng(p,n0), rng(r,n1(p))), n2(p,r)>=3)),
  z3.ForAll([p,r,k], z3.Implies(z3.And(rng(p,n0), rng(r,n1(p)), rng(k,n2(p,r))),
       z3.And(n3(p,r,k)==2, T(p,r,k)>=0, Fq(p,r,k)>=0, Fq(p,r,k)<=MAX))))
for name, f in [("accept=>spec", z3.And(accept_code, z3.Not(spec))), ("spec=>accept", z3.And(spec, z3.Not(accept_code)))]:
    s=z3.Solver(); s.set("timeout",30000); s.add(f)
    t=time.time(); print(name, s.check(), round(time.time()-t,2))
# mutated: freq upper bound dropped in code
point_ok_mut = lambda p,r,k: z3.And(n3(p,r,k)==2, z3.Not(T(p,r,k)<0), z3.Not(Fq(p,r,k)<0))
ring_ok_mut = lambda p,r: z3.And(z3.Not(n2(p,r)<3), z3.ForAll([k], z3.Implies(rng(k,n2(p,r)), point_ok_mut(p,r,k))))
poly_ok_mut = lambda p: z3.And(z3.Not(n1(p)<1), z3.ForAll([r], z3.Implies(rng(r,n1(p)), ring_ok_mut(p,r))))
accept_mut = z3.And(z3.Not(n0<1), z3.ForAll([p], z3.Implies(rng(p,n0), poly_ok_mut(p))))
s=z3.Solver(); s.set("timeout",30000); s.add(accept_mut, z3.Not(spec))
t=time.time(); res=s.check(); print("mut", res, round(time.time()-t,2))
if res==z3.sat:
    m=s.model(); print(m.eval(n0), m[n1], m[n2], m[Fq])
