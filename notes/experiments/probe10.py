import warnings; warnings.filterwarnings("ignore")
import random, itertools, numpy as np
from soundevent import data
from soundevent.evaluation import clip_classification, clip_multilabel_classification, sound_event_detection
random.seed(3)
term=data.term_from_key
rec=data.Recording(path="a.wav",duration=1000,channels=1,samplerate=8000)
V=[data.Tag(term=term("sp"),value=v) for v in "abcd"]
oov=data.Tag(term=term("other"),value="z")
def ap(y, s):
    # average precision, sklearn definition: sum (R_n - R_{n-1}) P_n over thresholds (distinct scores desc)
    order=sorted(set(s), reverse=True); P=sum(y)
    if P==0: return 0.0  # sklearn returns 0 w/ warning? (-0.0) 
    prev_r=0; tot=0
    for th in order:
        tp=sum(1 for yi,si in zip(y,s) if si>=th and yi); fp=sum(1 for yi,si in zip(y,s) if si>=th and not yi)
        r=tp/P; p=tp/(tp+fp); tot+=(r-prev_r)*p; prev_r=r
    return tot
def ref_single(truths, scores, K):
    # truths: list of Optional[int]; scores: list of K-vectors (float32 values)
    full=[list(s)+[1-float(np.sum(np.array(s,dtype=np.float32)))] for s in scores]
    yt=[t if t is not None else K for t in truths]
    pred=[int(np.argmax(f)) for f in full]
    acc=sum(p==t for p,t in zip(pred,yt))/len(yt)
    classes=sorted(set(yt)); bal=np.mean([sum(1 for p,t in zip(pred,yt) if t==c and p==c)/sum(1 for t in yt if t==c) for c in classes])
    def top3(f,t):
        order=sorted(range(len(f)), key=lambda i:-f[i]); thr=f[order[min(2,len(f)-1)]]; return f[t]>=thr
    t3=sum(top3(f,t) for f,t in zip(full,yt))/len(yt)
    return acc, bal, t3
nbad=0; ntot=0
for trial in range(150):
    K=random.choice([2,3,4]); vocab=V[:K]; n=random.randint(1,6)
    cps=[];cas=[];truths=[];scores=[]
    for i in range(n):
        clip=data.Clip(recording=rec,start_time=i,end_time=i+1)
        tt=random.choice([None]+list(range(K)))
        tags=[oov]+([vocab[tt]] if tt is not None else [])
        raw=[random.choice([0,.125,.25,.5]) for _ in range(K)]
        while sum(raw)>1: raw[random.randrange(K)]=0
        ptags=[data.PredictedTag(tag=vocab[j],score=raw[j]) for j in range(K) if raw[j]>0 or random.random()<.3]+[data.PredictedTag(tag=oov,score=.9)]
        sc=[0.0]*K
        for pt in ptags:
            if pt.tag in vocab: sc[vocab.index(pt.tag)]=float(np.float32(pt.score))
        cps.append(data.ClipPrediction(clip=clip,tags=ptags)); cas.append(data.ClipAnnotation(clip=clip,tags=tags)); truths.append(tt); scores.append(sc)
    try:
        ev=clip_classification(cps,cas,vocab)
    except Exception as e:
        print("clip_classification ERR", type(e).__name__, str(e)[:100], "K",K,"n",n, truths); nbad+=1; continue
    ntot+=1
    got={m.term.label:m.value for m in ev.metrics}
    acc,bal,t3=ref_single(truths,scores,K)
    if abs(got["Accuracy"]-acc)>1e-9 or abs(got["Balanced Accuracy"]-bal)>1e-9 or abs(got["Top 3 Accuracy"]-t3)>1e-9:
        nbad+=1; print("metric mismatch", got, (acc,bal,t3), truths, scores)
    # scores
    for ce,tt,sc in zip(ev.clip_evaluations,truths,scores):
        exp = sc[tt] if tt is not None else 1-float(np.sum(np.array(sc,dtype=np.float32)))
        if abs(ce.score-exp)>1e-6: nbad+=1; print("clip score", ce.score, exp)
    if abs(ev.score-np.mean([c.score for c in ev.clip_evaluations]))>1e-12: nbad+=1; print("overall")
    # order independence
    perm=list(range(n)); random.shuffle(perm)
    ev2=clip_classification([cps[i] for i in perm],[cas[i] for i in reversed(perm)],vocab)
    g2={m.term.label:m.value for m in ev2.metrics}
    if any(abs(g2[k]-got[k])>1e-12 for k in got) or abs(ev2.score-ev.score)>1e-12: nbad+=1; print("order dep", got, g2)
print("clip_classification trials", ntot, "bad", nbad)
